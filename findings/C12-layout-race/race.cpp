// Triage driver for the C12 finding (not part of any check): two threads issue their first
// evaluate() on a freshly configured optimizer, each with its own Workspace.
// Build: clang++ -std=gnu++17 -O1 -g -fsanitize=thread -I/repo/include -isystem /usr/include/eigen3 race.cpp -o race -lpthread
#include "SplineOptimizer.hpp"
#include <thread>
#include <cstdio>
using namespace SplineTrajectory;
using Opt = SplineOptimizer<3, QuinticSplineND<3>>;
struct TC { double operator()(const std::vector<double> &T, Eigen::VectorXd &g) const { double s = 0; for (size_t i = 0; i < T.size(); ++i) { s += T[i]; g(i) = 1.0; } return s; } };
struct IC { template <class V> double operator()(double, double, int, const V &, const V &v, const V &, const V &, const V &, V &, V &gv, V &, V &, V &, double &) const { gv = 2.0 * v; return v.squaredNorm(); } };
int main()
{
    Opt opt;
    std::vector<double> T = {1.0, 1.5, 0.8, 1.2};
    Opt::MatrixType P(5, 3);
    P << 0, 0, 0, 1, 2, 0, 2, 1, 1, 3, 3, 2, 4, 0, 1;
    BoundaryConditions<3> bc;
    opt.setInitState(T, P, 0.0, bc);
    OptimizationFlags fl; fl.end_v = true; fl.start_v = true;
    opt.setOptimizationFlags(fl);
    opt.setIntegralNumSteps(8);
    // no single-threaded getDimension()/generateInitialGuess() before the threads start
    Eigen::VectorXd x = Eigen::VectorXd::Constant(4 + 9 + 6, 0.3);
    double c[2];
    auto work = [&](int k) { Opt::Workspace ws; Eigen::VectorXd g; c[k] = opt.evaluate(x, g, TC(), IC(), &ws); };
    std::thread a(work, 0), b(work, 1);
    a.join(); b.join();
    std::printf("%.17g %.17g\n", c[0], c[1]);
    return 0;
}
