"""Verdict / evidence plumbing shared by all property checks (DESIGN.md s3.9)."""
import json
import os
import sys
import time

from . import facts
from .facts import Broken, VERIF

EVID = os.path.join(VERIF, "evidence")
KNOWN = os.path.join(VERIF, "known_findings.json")

TRUSTED_COMMON = [
    "clang 14 front end (template instantiation, overload resolution, constant evaluation)",
    "stx extractor faithfully serialises the type-checked AST (stx/stx.cc)",
    "documented semantics of the Eigen/std operations in the vocabulary tables (sa/vocab.py)",
]


class Check:
    def __init__(self, pid, tier="quick", root="/repo", level="proof"):
        self.pid = pid
        self.tier = tier
        self.root = root
        self.level = level
        self.t0 = time.time()
        self.obs = []        # dicts: rule, instance, ok, where, detail, construct
        self.notes = []
        self.analysed = {"functions": set(), "instantiations": set(), "call_sites": 0}
        self.not_decided = []
        self.trusted = list(TRUSTED_COMMON)
        self.floors = {}     # rule -> minimum number of instances confirmed by hand
        self.explanation = ""

    # -- recording -----------------------------------------------------------
    def ob(self, rule, instance, ok, where="", detail="", construct=None):
        self.obs.append({"rule": rule, "instance": instance, "ok": bool(ok), "where": where,
                         "detail": detail, "construct": construct or instance})
        return bool(ok)

    def floor(self, rule, n):
        self.floors[rule] = n

    def saw(self, f):
        if isinstance(f, dict):
            self.analysed["functions"].add("%s:%s %s" % (f.get("file"), f.get("line"), f.get("full", f.get("name"))))
            if f.get("cls"):
                self.analysed["instantiations"].add(f["cls"])

    def note(self, s):
        self.notes.append(s)

    # -- verdict -------------------------------------------------------------
    def definite_violations(self):
        """failed obligations that are not listed known findings"""
        known = load_known()
        return [o for o in self.obs if not o["ok"] and not match_known(known, self.pid, o)]

    def finish(self, partial=None):
        """partial: reason why a later rule could not be analysed.  Obligations that already failed name a specific
        construct and stand on their own, so they are reported; nothing is concluded from the rules that did not run."""
        counts = {}
        for o in self.obs:
            counts[o["rule"]] = counts.get(o["rule"], 0) + 1
        if partial:
            self.note("analysis incomplete (the rules after this point did not run): %s" % partial)
        else:
            for rule, n in self.floors.items():
                if counts.get(rule, 0) < n:
                    raise Broken("%s: rule %s matched %d instances, below the confirmed floor %d "
                                 "(anchor vanished or analysis vacuous)" % (self.pid, rule, counts.get(rule, 0), n))
        if not self.obs:
            raise Broken("%s: no obligations generated" % self.pid)
        known = load_known()
        failed = [o for o in self.obs if not o["ok"]]
        viol, kf = [], []
        for o in failed:
            m = match_known(known, self.pid, o)
            if m:
                kf.append((o, m))
            else:
                viol.append(o)
        os.makedirs(os.path.join(EVID, "replay"), exist_ok=True)
        lines = []
        for o, m in kf:
            lines.append("KNOWN-FINDING: property=%s %s %s (%s)" % (self.pid, o["rule"], o["construct"], m.get("what", "")))
        for i, o in enumerate(viol):
            rp = os.path.join(EVID, "replay", "%s-%d.json" % (self.pid, i))
            with open(rp, "w") as fh:
                json.dump({"property": self.pid, **o, "root": self.root, "tier": self.tier,
                           "explain_cmd": "python3-vt sa/check.py %s --explain %s" % (self.pid, rp)}, fh, indent=1)
            lines.append("VIOLATION property=%s replay=%s" % (self.pid, rp))
            lines.append("  rule=%s instance=%s at %s :: %s" % (o["rule"], o["instance"], o["where"], o["detail"][:600]))
        self.write_evidence(len(viol), counts, kf)
        for l in lines:
            print(l)
        ok = len(self.obs) - len(failed)
        print("%s %s tier=%s obligations=%d discharged=%d known_findings=%d violations=%d wall=%.1fs" % (
            self.pid, "FAIL" if viol else "ok", self.tier, len(self.obs), ok, len(kf), len(viol), time.time() - self.t0))
        return 1 if viol else 0

    def write_evidence(self, nviol, counts, kf):
        os.makedirs(EVID, exist_ok=True)
        ok = [o for o in self.obs if o["ok"]]
        samples = []
        seen_rules = set()
        for o in self.obs:
            if o["rule"] not in seen_rules or not o["ok"]:
                seen_rules.add(o["rule"])
                samples.append({"rule": o["rule"], "instance": o["instance"], "where": o["where"],
                                "ok": o["ok"], "detail": o["detail"][:400]})
            if len(samples) >= 60:
                break
        cov = {
            "obligations": len(self.obs),
            "discharged": len(ok),
            "checker_cmd": "python3-vt sa/check.py %s --tier %s" % (self.pid, self.tier),
            "trusted_base": self.trusted,
            "rule_instances": counts,
            "instantiations_analysed": sorted(self.analysed["instantiations"]),
            "functions_analysed": len(self.analysed["functions"]),
            "functions_sample": sorted(self.analysed["functions"])[:40],
            "samples": samples,
            "not_decided": self.not_decided,
            "known_findings_matched": [o["construct"] for o, _ in kf],
            "notes": self.notes[:40],
            "explanation": self.explanation or ("static rule instances generated from the instantiated AST of %s/include; "
                                                "every instance must be discharged" % self.root),
            "exhaustive": True,
            "root": self.root,
        }
        ev = {
            "property_id": self.pid,
            "tier": self.tier,
            "seed": int(os.environ.get("VERIF_SEED", "0") or 0),
            "level": self.level,
            "coverage": cov,
            "assumptions": self.trusted + ["clauses not decided: " + "; ".join(self.not_decided)] if self.not_decided else self.trusted,
            "wall_s": round(time.time() - self.t0, 2),
            "violations": nviol,
        }
        path = os.path.join(EVID, "%s.json" % self.pid)
        tmp = path + ".tmp.%d" % os.getpid()
        with open(tmp, "w") as fh:
            json.dump(ev, fh, indent=1, sort_keys=True)
        os.replace(tmp, path)


def load_known():
    if not os.path.exists(KNOWN):
        return {"findings": [], "fixed": []}
    return json.load(open(KNOWN))


def match_known(known, pid, o):
    for k in known.get("findings", []):
        if k.get("property") == pid and k.get("rule") == o["rule"] and k.get("construct") == o["construct"]:
            return k
    return None
