"""Role discovery and definitional summaries for one spline class instantiation (DESIGN s3.8).

Everything private is discovered from the public entry points:
 * the four input members are what the 4-parameter `update` stores its parameters in;
 * the published coefficient / knot members are the arguments of the trajectory hand-over;
 * the precomputation helpers are the functions reachable from `update` whose loops define
   struct-of-powers entries from the durations, or rows of differences of the waypoints.
"""
import sympy as sp
from sympy import Integer

from .facts import Broken, walk, pp
from .effects import Effects, callee
from . import sym
from .sym import Interp, Vec, Unsupported, Container

_MODELS = {}


class SplineModel:
    def __init__(self, F, cls):
        self.F, self.cls = F, cls
        self.rec = F.record(cls)
        st = {s["name"]: s.get("v") for s in self.rec["statics"]}
        if "ORDER" not in st or "COEFF_NUM" not in st:
            raise Broken("ORDER / COEFF_NUM not found in " + cls)
        self.ORDER = int(st["ORDER"])
        self.K = int(st["COEFF_NUM"])
        self.s = (self.ORDER + 1) // 2
        self.dim = self.rec["targs"][0]
        E = Effects(F)
        self.E = E
        ups = [f for f in F.funcs(cls, "update") if len(f["params"]) == 4]
        if len(ups) != 1:
            raise Broken("update(durations, points, start, bc) not found in " + cls)
        self.update4 = ups[0]
        from .props.common import strip_copy, write_rhs, is_this_mem, lit_value
        pid = {p["id"]: i for i, p in enumerate(self.update4["params"])}
        role = {}
        for path, how, node in E.function_writes_local(self.update4):
            if path[0] == "this" and len(path) == 2:
                rhs = strip_copy(write_rhs(node))
                if isinstance(rhs, dict) and rhs.get("k") == "var" and rhs.get("id") in pid:
                    role[pid[rhs["id"]]] = path[1]
        if set(role) != {0, 1, 2, 3}:
            raise Broken("cannot bind update() parameters to members in %s: %s" % (cls, role))
        self.m_durations, self.m_points, self.m_start, self.m_bc = role[0], role[1], role[2], role[3]
        # hand-over
        self.m_traj = None
        for f in self.rec["fields"]:
            if f["ty"].get("c") == "record" and "PPolyND<" in f["ty"].get("n", ""):
                self.m_traj = f["name"]
        hand = []
        for f in F.funcs(cls):
            for n in walk(f.get("body")):
                if n.get("k") == "call" and callee(n).get("name") == "update" and is_this_mem(n.get("obj"), self.m_traj):
                    hand.append((f, n))
        if len(hand) != 1:
            raise Broken("trajectory hand-over not unique in " + cls)
        a = [strip_copy(x) for x in hand[0][1]["args"]]
        self.m_knots, self.m_coeffs = a[0]["field"], a[1]["field"]
        self.handover = hand[0]
        # the internal update routine: the repo callee of update4 that (transitively) hands over
        self.internal = None
        for c, g in F.callees(self.update4):
            if g.get("cls") == cls and any(h["fid"] == self.handover[0]["fid"] for h in F.reachable(g)):
                self.internal = g
        if self.internal is None:
            raise Broken("internal update routine not found in " + cls)
        # segment count member: assigned from durations.size() in the internal routine
        self.m_count = None
        for path, how, node in E.function_writes_local(self.internal):
            if path[0] == "this" and len(path) == 2:
                rhs = write_rhs(node)
                if rhs and any(n.get("k") == "call" and callee(n).get("name") == "size" and is_this_mem(n.get("obj"), self.m_durations) for n in walk(rhs)):
                    self.m_count = path[1]
        if not self.m_count:
            raise Broken("segment-count member not found in " + cls)
        # helper sequence of the internal routine
        self.sequence = []
        for st_ in self.internal["body"]["body"]:
            for n in walk(st_):
                if n.get("k") == "call" and callee(n).get("fid") in F.by_fid:
                    self.sequence.append(F.by_fid[callee(n)["fid"]])
        self.solve_fn = None
        for path, how, node in E.function_writes_local(self.internal):
            if path == ("this", self.m_coeffs):
                rhs = strip_copy(write_rhs(node))
                if isinstance(rhs, dict) and rhs.get("k") == "call" and callee(rhs).get("fid") in F.by_fid:
                    self.solve_fn = F.by_fid[callee(rhs)["fid"]]
        if self.solve_fn is None:
            raise Broken("coefficient solve routine not found in " + cls)
        # definitional summaries
        self.undefined_defs = {}   # member -> why its defining helper could not be summarised
        self.defs_scal = {}   # "time_powers_.h3_inv" -> (var, expr in var)
        self.defs_rows = {}   # "point_diffs_" -> (var, Vec in var)
        self.def_fns = {}
        self.h = sp.IndexedBase(self.m_durations, real=True)
        for g in self.sequence:
            if g is self.solve_fn or g["fid"] == self.handover[0]["fid"]:
                continue
            I = Interp(F, cls)
            I.field_assumptions[self.m_count] = {"positive": True}
            try:
                I.run_body(g, {})
            except Unsupported as ex:
                # what this helper defines stays unknown: formulas that mention it cannot be expanded (see expand_vec)
                for path, how, node in E.function_writes_local(g):
                    if path[0] == "this" and len(path) >= 2:
                        self.undefined_defs[path[1]] = "%s: %s" % (g["name"], ex)
                continue
            # whole-array definitions written as one element-wise expression (A = B.middleRows(..) - B.topRows(..))
            for (tgt, start, cnt, val, line) in I.effects_ranges:
                if sym.is_zero(start) and isinstance(val, Vec):
                    kvar = sp.Symbol("k_def", integer=True, nonnegative=True)
                    v2 = Vec({(a[0],) + tuple(sp.expand(sp.sympify(x).xreplace({sym.RSYM: kvar})) if not isinstance(x, str) else x for x in a[1:]): sp.sympify(c).xreplace({sym.RSYM: kvar}) for a, c in val.t.items()})
                    self.defs_rows[tgt] = (kvar, v2, cnt)
                    self.def_fns[tgt] = g
            for L in I.loops:
                if L.lo != 0 or L.step != 1 or L.cond_op != "<":
                    continue
                for e in L.effects:
                    if e.op != "=" or len(e.key) != 1 or e.key[0] != L.var:
                        continue
                    if isinstance(e.value, sp.Basic):
                        self.defs_scal[e.target] = (L.var, e.value, L.hi)
                        self.def_fns[e.target] = g
                    elif isinstance(e.value, Vec):
                        self.defs_rows[e.target] = (L.var, e.value, L.hi)
                        self.def_fns[e.target] = g
        if not self.defs_scal:
            raise Broken("no duration-power definitions discovered in " + cls)

    # ---- substitution ----------------------------------------------------------
    def expand_scalar(self, e):
        """Replace definitional symbols (powers of durations) by their definitions."""
        e = sp.sympify(e)
        repl = {}
        for ix in e.atoms(sp.Indexed):
            base = str(ix.base).split("#")[0]
            if base in self.defs_scal:
                var, val, hi = self.defs_scal[base]
                repl[ix] = val.subs(var, ix.indices[0])
        return e.xreplace(repl) if repl else e

    def expand_vec(self, v):
        out = Vec()
        for a, c in v.t.items():
            c = self.expand_scalar(c)
            base = str(a[0]).split("#")[0]
            if base in self.defs_rows and len(a) == 2:
                var, val, hi = self.defs_rows[base]
                sub = Vec({b: cb.subs(var, a[1]) if hasattr(cb, "subs") else cb for b, cb in
                           {tuple(x.subs(var, a[1]) if hasattr(x, "subs") else x for x in b): cb for b, cb in val.t.items()}.items()})
                out = out.add(sub.scale(c))
            else:
                if base in self.undefined_defs and base not in (self.m_points, self.m_durations):
                    raise Broken("formula mentions %s, whose definition could not be summarised (%s)" % (base, self.undefined_defs[base]))
                out = out.add(Vec({a: c}))
        return out

    def dur(self, idx):
        return self.h[idx]


def spline_model(F, cls):
    key = (id(F), cls)
    if key not in _MODELS:
        _MODELS[key] = SplineModel(F, cls)
    return _MODELS[key]
