"""Loading, caching and navigating the facts produced by stx (DESIGN.md s3.1).

Nothing here executes library code: stx only parses/instantiates the headers and
dumps the resolved syntax trees; this module indexes them.
"""
import fcntl
import glob
import hashlib
import json
import os
import subprocess
import sys
import time

VERIF = os.path.dirname(os.path.dirname(os.path.abspath(__file__)))
STX_SRC = os.path.join(VERIF, "stx", "stx.cc")
STX_BIN = os.path.join(VERIF, "build", "stx")
CACHE = os.path.join(VERIF, ".cache")
LLVM_LIBS = ["/usr/lib/llvm-14/lib/libclang-cpp.so.14", "/usr/lib/llvm-14/lib/libLLVM-14.so"]
BASE_FLAGS = ["-std=gnu++17", "-isystem", "/usr/include/eigen3", "-UNDEBUG", "-fsyntax-only",
              "-Wno-everything"]


class Broken(Exception):
    """Analysis cannot be carried out (anchor missing, unsupported construct...): exit 2."""


def _sha(*parts):
    h = hashlib.sha256()
    for p in parts:
        if isinstance(p, str):
            p = p.encode()
        h.update(p)
        h.update(b"\0")
    return h.hexdigest()


def build_stx(force=False):
    os.makedirs(os.path.dirname(STX_BIN), exist_ok=True)
    if (not force and os.path.exists(STX_BIN)
            and os.path.getmtime(STX_BIN) >= os.path.getmtime(STX_SRC)):
        return
    lock = open(os.path.join(os.path.dirname(STX_BIN), ".lock"), "w")
    fcntl.flock(lock, fcntl.LOCK_EX)
    try:
        if (not force and os.path.exists(STX_BIN)
                and os.path.getmtime(STX_BIN) >= os.path.getmtime(STX_SRC)):
            return
        cxxflags = subprocess.check_output(["llvm-config-14", "--cxxflags"], text=True).split()
        cmd = ["clang++"] + cxxflags + ["-fno-rtti", "-O1", STX_SRC, "-o", STX_BIN + ".tmp"] + LLVM_LIBS
        r = subprocess.run(cmd, capture_output=True, text=True)
        if r.returncode != 0:
            raise Broken("cannot build stx: " + r.stderr[-2000:])
        os.replace(STX_BIN + ".tmp", STX_BIN)
    finally:
        fcntl.flock(lock, fcntl.LOCK_UN)


def header_files(root):
    return sorted(glob.glob(os.path.join(root, "include", "Spline*.hpp")))


def extract(root, wit, defines=(), extra_flags=()):
    """Run stx on witness TU `wit` against <root>/include; cached by content hash."""
    build_stx()
    hdrs = header_files(root)
    if not hdrs:
        raise Broken("no include/Spline*.hpp under " + root)
    parts = [open(STX_BIN, "rb").read(), open(wit, "rb").read(), " ".join(defines), " ".join(extra_flags)]
    for h in hdrs:
        parts.append(os.path.basename(h))
        parts.append(open(h, "rb").read())
    key = _sha(*parts)
    os.makedirs(CACHE, exist_ok=True)
    path = os.path.join(CACHE, "facts-%s.json" % key[:32])
    if os.path.exists(path):
        try:
            return json.load(open(path)), path, True
        except Exception:
            os.unlink(path)
    lock = open(os.path.join(CACHE, ".lock-" + key[:16]), "w")
    fcntl.flock(lock, fcntl.LOCK_EX)
    try:
        if os.path.exists(path):
            return json.load(open(path)), path, True
        tmp = path + ".tmp.%d" % os.getpid()
        cmd = [STX_BIN, "--root", root, "--out", tmp, wit, "--"] + BASE_FLAGS + \
              ["-I" + os.path.join(root, "include")] + ["-D" + d for d in defines] + list(extra_flags)
        r = subprocess.run(cmd, capture_output=True, text=True)
        if r.returncode != 0 or not os.path.exists(tmp):
            # a header that no longer compiles is "analysis broken", never a verdict
            raise Broken("stx failed (rc=%d) on %s:\n%s" % (r.returncode, wit, r.stderr[-3000:]))
        os.replace(tmp, path)
        # keep the cache small
        def mtime(p_):
            try:
                return os.path.getmtime(p_)
            except OSError:
                return 0.0
        # only the fact files proper count; memoised analyses derived from a fact file (facts-<sha>.json.*) go with it
        olds = sorted([p_ for p_ in glob.glob(os.path.join(CACHE, "facts-*.json")) if p_.count(".json") == 1], key=mtime)
        for o in olds[:-40]:
            for q in [o] + glob.glob(o + ".*"):
                try:
                    os.unlink(q)
                except OSError:
                    pass
        return json.load(open(path)), path, False
    finally:
        fcntl.flock(lock, fcntl.LOCK_UN)


# ---------------------------------------------------------------------------
# tree helpers


def walk(node):
    """All dict nodes of a statement/expression tree, pre-order, including lambda bodies."""
    stack = [node]
    while stack:
        n = stack.pop()
        if isinstance(n, dict):
            yield n
            # deterministic child order
            for k in reversed(CHILD_ORDER.get(n.get("k"), sorted(n.keys()))):
                v = n.get(k)
                if isinstance(v, (dict, list)):
                    stack.append(v)
        elif isinstance(n, list):
            for v in reversed(n):
                stack.append(v)


def walk_own(node):
    """like walk(), but without descending into lambda bodies: the nodes of the function itself"""
    stack = [node]
    while stack:
        n = stack.pop()
        if isinstance(n, dict):
            yield n
            if n.get("k") == "lambda":
                continue
            for k in reversed(CHILD_ORDER.get(n.get("k"), sorted(n.keys()))):
                v = n.get(k)
                if isinstance(v, (dict, list)):
                    stack.append(v)
        elif isinstance(n, list):
            for v in reversed(n):
                stack.append(v)


CHILD_ORDER = {
    "block": ["body"], "if": ["init", "cond", "then", "else"], "for": ["init", "cond", "inc", "body"],
    "rfor": ["var", "range", "body"], "decl": ["init"], "return": ["e"], "expr": ["e"],
    "call": ["obj", "args"], "ctor": ["args"], "bin": ["l", "r"], "assign": ["l", "r"],
    "un": ["e"], "cond": ["c", "a", "b"], "cast": ["e"], "mem": ["base"], "subscript": ["base", "idx"],
    "lambda": ["specs"], "defaultarg": ["e"], "conv": ["obj"], "throw": ["e"], "new": ["init"],
    "initlist": ["elems"], "stdinitlist": ["e"], "indirectcall": ["fn", "args"], "methodref": ["base"],
    "omp": ["body"], "while": ["cond", "body"], "defaultinit": ["e"],
}


def is_k(n, k):
    return isinstance(n, dict) and n.get("k") == k


def callee_name(n):
    return n.get("callee", {}).get("name") if isinstance(n, dict) else None


def pp(n, depth=0):
    """Compact pseudo-C++ rendering of a facts node (for reports and debugging)."""
    if n is None:
        return ""
    if isinstance(n, list):
        return ", ".join(pp(x) for x in n)
    k = n.get("k")
    if k == "lit":
        return str(n["v"])
    if k == "var":
        return n["name"]
    if k == "static":
        return n.get("name", "?")
    if k == "this":
        return "this"
    if k == "mem":
        b = n["base"]
        if is_k(b, "this"):
            return n["field"]
        return pp(b) + ("->" if n.get("arrow") else ".") + n["field"]
    if k in ("call", "conv"):
        c = n["callee"]
        op = c.get("op")
        args = n.get("args", [])
        if k == "conv":
            return "conv(" + pp(n.get("obj")) + ")"
        if op:
            ops = [n["obj"]] if "obj" in n else []
            ops += args
            if op == "()":
                return pp(ops[0]) + "(" + ", ".join(pp(a) for a in ops[1:]) + ")"
            if op == "[]":
                return pp(ops[0]) + "[" + ", ".join(pp(a) for a in ops[1:]) + "]"
            if len(ops) == 1:
                return op + pp(ops[0])
            if len(ops) == 2:
                return "(" + pp(ops[0]) + " " + op + " " + pp(ops[1]) + ")"
        ta = c.get("targs")
        tas = ""
        if ta and any(isinstance(x, int) for x in ta):
            tas = "<" + ",".join(str(x) for x in ta if isinstance(x, int)) + ">"
        if "obj" in n:
            return pp(n["obj"]) + ("->" if n.get("arrow") else ".") + c["name"] + tas + "(" + ", ".join(pp(a) for a in args) + ")"
        return c.get("q", c["name"]) + tas + "(" + ", ".join(pp(a) for a in args) + ")"
    if k == "ctor":
        c = n["callee"]
        return c.get("cls", c["name"]).split("::")[-1].split("<")[0] + "{" + ", ".join(pp(a) for a in n.get("args", [])) + "}"
    if k == "bin":
        return "(" + pp(n["l"]) + " " + n["op"] + " " + pp(n["r"]) + ")"
    if k == "assign":
        return pp(n["l"]) + " " + n["op"] + " " + pp(n["r"])
    if k == "un":
        return (pp(n["e"]) + n["op"]) if n.get("postfix") else (n["op"] + pp(n["e"]))
    if k == "cond":
        return "(" + pp(n["c"]) + " ? " + pp(n["a"]) + " : " + pp(n["b"]) + ")"
    if k == "cast":
        return "(" + n["to"].get("n", n["to"].get("c", "?")) + ")" + pp(n["e"])
    if k == "subscript":
        return pp(n["base"]) + "[" + pp(n["idx"]) + "]"
    if k == "lambda":
        return "[lambda@%s]" % n.get("line")
    if k == "defaultarg":
        return pp(n["e"])
    if k == "defaultinit":
        return pp(n["e"])
    if k == "throw":
        return "throw " + pp(n.get("e"))
    if k == "new":
        return "new " + pp(n.get("init"))
    if k == "initlist":
        return "{" + ", ".join(pp(a) for a in n["elems"]) + "}"
    if k == "stdinitlist":
        return pp(n["e"])
    if k == "funcref":
        return n["callee"]["q"]
    if k == "methodref":
        return pp(n["base"]) + "." + n["callee"]["name"]
    if k == "indirectcall":
        return pp(n["fn"]) + "(" + ", ".join(pp(a) for a in n.get("args", [])) + ")"
    if k == "sizeof":
        return "sizeof(..)"
    # statements
    ind = "  " * depth
    if k == "block":
        return "\n".join(pp(s, depth) for s in n["body"])
    if k == "decl":
        s = ind + "%s %s" % (tyname(n["ty"]), n["name"])
        if n.get("init") is not None:
            s += " = " + pp(n["init"])
        return s + ";"
    if k == "expr":
        return ind + pp(n["e"]) + ";"
    if k == "return":
        return ind + "return " + pp(n.get("e")) + ";"
    if k == "if":
        s = ind + ("if constexpr (" if n.get("constexpr") else "if (") + pp(n["cond"]) + ") {\n" + pp_block(n["then"], depth + 1)
        if n.get("else") is not None:
            s += "\n" + ind + "} else {\n" + pp_block(n["else"], depth + 1)
        return s + "\n" + ind + "}"
    if k == "for":
        init = pp(n["init"]).strip().rstrip(";") if n.get("init") else ""
        return ind + "for (" + init + "; " + pp(n.get("cond")) + "; " + pp(n.get("inc")) + ") {\n" + pp_block(n["body"], depth + 1) + "\n" + ind + "}"
    if k == "rfor":
        return ind + "for (" + n["var"]["name"] + " : " + pp(n["range"]) + ") {\n" + pp_block(n["body"], depth + 1) + "\n" + ind + "}"
    if k in ("continue", "break"):
        return ind + k + ";"
    if k == "null":
        return ind + ";"
    if k == "omp":
        return ind + "#omp " + n.get("directive", "") + "\n" + pp_block(n.get("body"), depth)
    return ind + "<%s>" % k


def pp_block(s, depth):
    if s is None:
        return ""
    if s.get("k") == "block":
        return "\n".join(pp(x, depth) for x in s["body"])
    return pp(s, depth)


def tyname(t):
    if not t:
        return "?"
    c = t.get("c")
    if c == "eigen":
        s = "%s[%sx%s]" % (t.get("tmpl"), t.get("rows"), t.get("cols"))
    elif c in ("record", "int", "enum", "other"):
        s = t.get("n", c)
    elif c == "ptr":
        s = tyname(t.get("pointee")) + "*"
    else:
        s = c
    if t.get("const"):
        s = "const " + s
    if t.get("ref"):
        s += "&" if t["ref"] == "lvalue" else "&&"
    return s


class Facts:
    """Index over one stx output."""

    def __init__(self, data, path=None):
        self.data = data
        self.path = path
        self.functions = data["functions"]
        self.records = {r["name"]: r for r in data["records"]}
        self.by_fid = {}
        self.lambda_by_fid = {}
        for f in self.functions:
            self.by_fid[f["fid"]] = f
        for f in self.functions:
            for n in walk(f.get("body")):
                if n.get("k") == "lambda":
                    for sp in n.get("specs", []):
                        self.lambda_by_fid[sp["fid"]] = (n, sp, f)
            for ini in f.get("inits", []) or []:
                for n in walk(ini.get("init")):
                    if n.get("k") == "lambda":
                        for sp in n.get("specs", []):
                            self.lambda_by_fid[sp["fid"]] = (n, sp, f)
        if data.get("unsupported"):
            raise Broken("stx met constructs outside its vocabulary: " + ", ".join(data["unsupported"][:10]))
        self.orient_loop_conditions()
        self.drop_assertions()
        self.single_row_blocks()

    def drop_assertions(self):
        """`assert(c);` (analysed with NDEBUG undefined) is `c ? void(0) : __assert_fail(...)`: a statement with no effect on
        any run the properties speak about.  It is removed, so that an added assertion changes nothing for the rules."""
        def is_assert(e):
            while isinstance(e, dict) and e.get("k") in ("cast", "paren", "conv") and e.get("e") is not None:
                e = e["e"]
            if not (isinstance(e, dict) and e.get("k") == "cond"):
                return False
            return any(x.get("k") == "call" and (x.get("callee") or {}).get("name") in ("__assert_fail", "__assert", "_wassert", "__assert_rtn") for br in (e.get("a"), e.get("b")) for x in walk(br))
        for f in self.functions:
            for n in walk(f.get("body")):
                for key in ("body",):
                    v = n.get(key)
                    if isinstance(v, list):
                        for k_, st in enumerate(v):
                            if isinstance(st, dict) and st.get("k") == "expr" and is_assert(st.get("e")):
                                v[k_] = {"k": "null", "line": st.get("line")}
                for key in ("then", "else", "body"):
                    st = n.get(key)
                    if isinstance(st, dict) and st.get("k") == "expr" and is_assert(st.get("e")):
                        n[key] = {"k": "null", "line": st.get("line")}

    def single_row_blocks(self):
        """`m.block<1, C>(e, 0)` on an object with C columns, `m.block(e, 0, 1, C)` and `m.middleRows(e, 1)` /
        `m.middleRows<1>(e)` are `m.row(e)` (and the same for columns): one spelling for every reader"""
        def strip(e):
            while isinstance(e, dict) and e.get("k") in ("cast", "paren", "conv", "copy", "implicit") and e.get("e") is not None:
                e = e["e"]
            return e

        def lit(e, v=None):
            e = strip(e)
            if isinstance(e, dict) and e.get("k") in ("mem", "static", "declref", "var") and e.get("v") is not None:
                val = str(e["v"])
            elif isinstance(e, dict) and e.get("k") == "lit" and e.get("lt") == "int":
                val = str(e.get("v"))
            else:
                return False
            return v is None or val == str(v)
        nodes = []
        for f in self.functions:
            nodes.append(f.get("body"))
            for ini in f.get("inits", []) or []:
                nodes.append(ini.get("init"))
        for nd in nodes:
            for n in walk(nd):
                if n.get("k") != "call" or not isinstance(n.get("callee"), dict) or n["callee"].get("ns") != "Eigen" or n["callee"].get("repo"):
                    continue
                c = n["callee"]
                ot = (n.get("obj") or {}).get("t") or {}
                if ot.get("c") != "eigen":
                    continue
                args = [a for a in n.get("args", []) if not (isinstance(a, dict) and a.get("k") == "defaultarg")]
                ta = c.get("targs") or []
                rows, cols = ot.get("rows"), ot.get("cols")
                kind = None
                if c.get("name") == "block":
                    if len(ta) == 2 and len(args) == 2:
                        if ta[0] == 1 and cols is not None and cols >= 1 and ta[1] == cols and lit(args[1], 0):
                            kind = ("row", args[0])
                        elif ta[1] == 1 and rows is not None and rows >= 1 and ta[0] == rows and lit(args[0], 0) and not (ta[0] == 1 and cols == 1):
                            kind = ("col", args[1])
                    elif not ta and len(args) == 4:
                        if lit(args[2], 1) and lit(args[1], 0) and cols is not None and cols >= 1 and lit(args[3], cols):
                            kind = ("row", args[0])
                        elif lit(args[3], 1) and lit(args[0], 0) and rows is not None and rows >= 1 and lit(args[2], rows):
                            kind = ("col", args[1])
                elif c.get("name") in ("middleRows", "middleCols"):
                    if (ta == [1] and len(args) == 1) or (not ta and len(args) == 2 and lit(args[1], 1)):
                        kind = ("row" if c["name"] == "middleRows" else "col", args[0])
                if kind is None:
                    continue
                old = c.get("name")
                c["name"] = kind[0]
                if isinstance(c.get("q"), str) and c["q"].endswith("::" + old):
                    c["q"] = c["q"][:-len(old)] + kind[0]
                c["pm"] = ["val"]
                c.pop("targs", None)
                n["args"] = [kind[1]]
                t = n.get("t")
                if isinstance(t, dict) and t.get("c") == "eigen":
                    if kind[0] == "row":
                        t["rows"] = 1
                        if cols is not None:
                            t["cols"] = cols
                    else:
                        t["cols"] = 1
                        if rows is not None:
                            t["rows"] = rows

    def orient_loop_conditions(self):
        """`for (i = a; N > i; ...)` is `for (i = a; i < N; ...)`: the loop variable is put on the left of its bound test, so
        that every reader of loop headers sees one spelling"""
        flip = {">": "<", ">=": "<=", "<": ">", "<=": ">="}

        def strip(e):
            while isinstance(e, dict) and e.get("k") in ("cast", "paren", "conv", "copy", "implicit") and e.get("e") is not None:
                e = e["e"]
            return e

        def var_id(e):
            e = strip(e)
            return e.get("id") if isinstance(e, dict) and e.get("k") == "var" else None

        def is_one(e):
            e = strip(e)
            return isinstance(e, dict) and e.get("k") == "lit" and e.get("lt") == "int" and str(e.get("v")) == "1"
        nodes = []
        for f in self.functions:
            nodes.append(f.get("body"))
            for ini in f.get("inits", []) or []:
                nodes.append(ini.get("init"))
        for nd in nodes:
            for n in walk(nd):
                if n.get("k") == "for" and isinstance(n.get("init"), dict) and n["init"].get("k") == "decl" and isinstance(n.get("cond"), dict):
                    c = n["cond"]
                    if c.get("k") == "bin" and c.get("op") in flip and var_id(c.get("r")) == n["init"].get("id") and var_id(c.get("l")) != n["init"].get("id"):
                        c["l"], c["r"] = c["r"], c["l"]
                        c["op"] = flip[c["op"]]
                    # signed `i <= E - 1` is `i < E`
                    if c.get("k") == "bin" and c.get("op") == "<=" and var_id(c.get("l")) == n["init"].get("id") and (c.get("lt") or {}).get("n") in ("int", "long", "long long"):
                        r = strip(c.get("r"))
                        if isinstance(r, dict) and r.get("k") == "bin" and r.get("op") == "-" and is_one(r.get("r")) and (r.get("lt") or {}).get("n") in ("int", "long", "long long"):
                            c["op"] = "<"
                            c["r"] = strip(r["l"])
                # `i += 1`, `i = i + 1`, `i -= 1`, `i = i - 1` as the step of a loop are `++i`, `--i`
                if n.get("k") == "for" and isinstance(n.get("inc"), dict) and n["inc"].get("k") == "assign":
                    inc = n["inc"]
                    v = var_id(inc.get("l"))
                    op = None
                    if v is not None and inc.get("op") in ("+=", "-=") and is_one(inc.get("r")):
                        op = "++" if inc["op"] == "+=" else "--"
                    elif v is not None and inc.get("op") == "=":
                        r = strip(inc.get("r"))
                        if isinstance(r, dict) and r.get("k") == "bin" and r.get("op") in ("+", "-"):
                            if var_id(r.get("l")) == v and is_one(r.get("r")):
                                op = "++" if r["op"] == "+" else "--"
                            elif r["op"] == "+" and var_id(r.get("r")) == v and is_one(r.get("l")):
                                op = "++"
                    if op is not None and (inc.get("t") or (inc["l"].get("t") or {})).get("c") == "int":
                        n["inc"] = {"k": "un", "op": op, "postfix": False, "line": inc.get("line"), "e": strip(inc["l"]), "t": inc["l"].get("t") or inc.get("t")}

    def classes(self, short=None):
        out = []
        for name, r in self.records.items():
            if short is None or r["short"] == short:
                out.append(name)
        return sorted(out)

    def funcs(self, cls=None, name=None, **kw):
        out = []
        for f in self.functions:
            if cls is not None and f.get("cls") != cls:
                continue
            if name is not None and f["name"] != name:
                continue
            ok = True
            for k, v in kw.items():
                if k == "nparams":
                    if len(f["params"]) != v:
                        ok = False
                elif f.get(k) != v:
                    ok = False
            if ok:
                out.append(f)
        return out

    def func1(self, cls, name, **kw):
        fs = self.funcs(cls, name, **kw)
        if len(fs) != 1:
            raise Broken("expected exactly one %s::%s %s, found %d" % (cls, name, kw or "", len(fs)))
        return fs[0]

    def record(self, name):
        if name not in self.records:
            raise Broken("record %s not found in facts" % name)
        return self.records[name]

    def field(self, cls, name):
        for f in self.record(cls)["fields"]:
            if f["name"] == name:
                return f
        return None

    # ---- call graph ------------------------------------------------------
    def calls_in(self, node):
        """call/ctor nodes inside a tree (including lambda bodies)."""
        for n in walk(node):
            if n.get("k") in ("call", "ctor", "conv") and "callee" in n:
                yield n

    def callees(self, f):
        out = []
        nodes = [f.get("body")] + [i.get("init") for i in (f.get("inits") or [])]
        for nd in nodes:
            for c in self.calls_in(nd):
                fid = c["callee"].get("fid")
                if fid is not None and fid in self.by_fid:
                    out.append((c, self.by_fid[fid]))
        return out

    def reachable(self, f, stop=None):
        """Functions (records) reachable from f through resolved repo callees."""
        seen = {f["fid"]: f}
        work = [f]
        while work:
            g = work.pop()
            for c, h in self.callees(g):
                if h["fid"] not in seen and not (stop and stop(h)):
                    seen[h["fid"]] = h
                    work.append(h)
        return list(seen.values())


def loc(f, node=None):
    line = None
    if isinstance(node, dict):
        line = node.get("line")
    if line is None:
        line = f.get("line")
    return "%s:%s (%s)" % (f.get("file", "?"), line, f.get("full", f.get("name")))


_FACTS_CACHE = {}


def load(root, wit_name="wit_quick.cpp", defines=()):
    key = (root, wit_name, tuple(defines))
    if key in _FACTS_CACHE:
        return _FACTS_CACHE[key]
    wit = os.path.join(VERIF, "wit", wit_name)
    data, path, hit = extract(root, wit, defines)
    F = Facts(data, path)
    F.cache_hit = hit
    _FACTS_CACHE[key] = F
    return F
