"""Engine E (part 2): definedness of array regions (DESIGN s3.4).

The algebraic interpreter records, per operation, a trace tree of region events
(resize / zero / write(key) / read(key)) with symbolic, affine keys and loop bounds.  This module
decides 'every read region is covered by regions defined earlier in the same operation' on that index
skeleton: the segment count is instantiated to the cases the code distinguishes (n = 1, 2 and several
n >= 3) and the affine index sets are enumerated.  No library code runs; only index arithmetic of the
extracted summaries is evaluated.  The hypotheses that make the finite set of sizes representative
(every key and bound affine in n and the loop variables, offsets bounded) are checked on every run.
"""
import sympy as sp
from sympy import Integer

from .facts import Broken
from . import sym
from .sym import Interp, RSYM

KINDS = {"middle": {"first": False, "last": False}, "first": {"first": True, "last": False},
         "last": {"first": False, "last": True}, "single": {"first": True, "last": True}}


class State:
    def __init__(self):
        self.c = {}          # container -> {"all": bool, "defined": set, "size": int|None, "entry": bool}

    def get(self, name):
        if name not in self.c:
            self.c[name] = {"all": False, "defined": set(), "size": None, "entry": True}
        return self.c[name]

    def set_all(self, name):
        st = self.get(name)
        st["all"], st["entry"] = True, False


class Replay:
    def __init__(self, sizes, state=None, allowed_entry=(), op_name=""):
        self.sizes = dict(sizes)      # symbol name -> int
        self.state = state or State()
        self.allowed_entry = set(allowed_entry)
        self.violations = []
        self.reads = 0
        self.writes = 0
        self.op_name = op_name
        self.max_offset = 0
        self.entry_reads = {}

    # -- evaluation of affine index expressions ---------------------------------------
    def val(self, e, env):
        e = sp.sympify(e)
        if e.is_Integer:
            return int(e)
        rep = {}
        for s_ in e.free_symbols:
            if s_ in env:
                rep[s_] = env[s_]
            elif s_.name in self.sizes:
                rep[s_] = self.sizes[s_.name]
            else:
                nm = s_.name
                base = nm.rsplit(".", 1)[0] if nm.endswith(".rows") or nm.endswith(".size") else None
                if base is not None and base in self.state.c and self.state.c[base]["size"] is not None:
                    rep[s_] = self.state.c[base]["size"]
                else:
                    raise Broken("region replay: no value for symbol %s in %s" % (s_, e))
        v = sp.simplify(e.xreplace(rep))
        if isinstance(v, sp.Max) or isinstance(v, sp.Min) or v.is_Integer or v.is_number:
            v = sp.simplify(v)
        if not v.is_Integer:
            raise Broken("region replay: index %s does not evaluate to an integer (%s)" % (e, v))
        return int(v)

    def check_affine(self, e, vars_):
        e = sp.expand(sp.sympify(e))
        for v in vars_:
            if sp.degree(e, v) > 1:
                raise Broken("region replay: non-affine index %s" % e)

    # -- replay ----------------------------------------------------------------------------
    def run(self, traces, env=None):
        env = env or {}
        self._items({k: t for k, t in traces.items()}, env)

    def _loops(self, items):
        return [x for x in items if x.get("type") == "loop"]

    def _items(self, lists, env):
        skeleton = lists["middle"]
        li = 0
        for it in skeleton:
            if it.get("type") == "loop":
                idx = li
                li += 1
                nodes = {}
                for k, lst in lists.items():
                    lp = self._loops(lst)
                    if idx < len(lp) and lp[idx]["line"] == it["line"]:
                        nodes[k] = lp[idx]
                self._loop(it, nodes, env)
            else:
                self._event(it, env)

    def _loop(self, node, nodes, env):
        lo = self.val(node["lo"], env)
        hi = self.val(node["hi"], env) if node["hi"] is not None else None
        op, step = node["op"], node["step"]
        if hi is None:
            raise Broken("region replay: loop without analysable bound at line %s" % node["line"])
        if op == "<":
            rng = list(range(lo, hi, 1)) if step == 1 else []
        elif op == "<=":
            rng = list(range(lo, hi + 1, 1)) if step == 1 else []
        elif op == ">=":
            rng = list(range(lo, hi - 1, -1)) if step == -1 else []
        elif op == ">":
            rng = list(range(lo, hi, -1)) if step == -1 else []
        else:
            raise Broken("region replay: loop condition %s" % op)
        if len(rng) > 400:
            rng = rng[:6] + rng[-6:]
        for pos, i in enumerate(rng):
            first, last = pos == 0, pos == len(rng) - 1
            kind = "single" if first and last else ("first" if first else ("last" if last else "middle"))
            nd = nodes.get(kind) or nodes.get("middle") or node
            env2 = dict(env)
            env2[nd["var"]] = i
            lists = {k: (nodes[k]["items"] if k in nodes else nd["items"]) for k in KINDS}
            # inner structure is taken from the run whose iteration kind matches this iteration
            lists["middle"] = nd["items"]
            self._items_kind(nd["items"], lists, env2)

    def _items_kind(self, items, lists, env):
        li = 0
        for it in items:
            if it.get("type") == "loop":
                self._loop(it, {"middle": it}, env)
            else:
                self._event(it, env)

    def _keys(self, ev, env):
        key = ev["key"]
        if key is None:
            return []
        if any(isinstance(k, str) for k in key):
            return [key]
        has_r = any(RSYM in sp.sympify(k).free_symbols for k in key)
        if has_r:
            cnt = ev.get("extra", {}).get("count") if isinstance(ev.get("extra"), dict) else None
            if cnt is None:
                # count unknown: take it from the container size when possible
                raise Broken("region replay: range access without length")
            n = self.val(cnt, env)
            out = []
            for r in range(n):
                e2 = dict(env)
                e2[RSYM] = r
                out.append(tuple(self.val(k, e2) for k in key))
            return out
        return [tuple(self.val(k, env) for k in key)]

    def _event(self, ev, env):
        t = ev.get("type")
        name = ev["cont"]
        if name.startswith("$") or name == "<return>":
            return
        st = self.state.get(name)
        if t == "effect":
            op = ev["op"]
            key = ev["key"]
            if op == "resize":
                v = ev.get("value")
                st["size"] = self.val(v[0], env) if v else None
                st["all"], st["defined"], st["entry"] = False, set(), False
                return
            if op in ("setZero", "fill"):
                st["all"], st["entry"] = True, False
                return
            if op == "clear":
                st["size"], st["all"], st["defined"], st["entry"] = 0, False, set(), False
                return
            if op == "push_back":
                if st["size"] is None:
                    st["size"] = 0
                st["defined"].add((st["size"],))
                st["size"] += 1
                st["entry"] = False
                return
            if key and key[0] == "*":
                v = ev.get("value")
                if isinstance(v, tuple) and v and v[0] == "copy":
                    src = self.state.get(v[1])
                    st["all"], st["defined"], st["size"], st["entry"] = src["all"] or src["entry"], set(src["defined"]), src["size"], False
                    if src["entry"]:
                        st["all"] = True
                return
            for k in self._keys(ev, env):
                if any(isinstance(x, str) for x in k):
                    continue
                st["defined"].add(k)
                self.writes += 1
                if st["size"] is not None and not (0 <= k[0] < max(st["size"], 0)):
                    self.violations.append({"what": "write outside the sized region", "cont": name, "key": k, "size": st["size"], "line": ev.get("line"), "sizes": dict(self.sizes)})
            return
        if t == "read":
            for k in self._keys(ev, env):
                self.reads += 1
                if st["all"] or k in st["defined"]:
                    continue
                if st["entry"]:
                    self.entry_reads.setdefault(name, set()).add(k)
                    if name in self.allowed_entry or any(name.startswith(a + ".") for a in self.allowed_entry):
                        continue
                    self.violations.append({"what": "reads state from before this operation (history)", "cont": name, "key": k, "sizes": dict(self.sizes)})
                else:
                    self.violations.append({"what": "reads a region not defined earlier in this operation", "cont": name, "key": k, "sizes": dict(self.sizes), "size": st["size"]})


def trace_operation(F, cls, f, n_value, count_sym, make_env, extra_setup=None, on_call=None, hist=None):
    """Interpret f once per iteration kind with every size guard decided for the concrete segment count n_value.
    hist: sizes that member buffers are assumed to have *on entry* (left by earlier calls), by symbol name."""
    out = {}
    hist = hist or {}
    _sv = globals()["size_value"]

    def size_value(s_, n, cs):
        if s_.name in hist:
            return hist[s_.name]
        return _sv(s_, n, cs)
    for kind, flags in KINDS.items():
        I = Interp(F, cls, on_call=on_call)
        nsym = sp.Symbol(count_sym, integer=True, positive=True)

        def size_oracle(c, nsym=nsym):
            try:
                r = sp.simplify(sp.sympify(c).subs({s_: size_value(s_, n_value, count_sym) for s_ in sp.sympify(c).free_symbols if size_value(s_, n_value, count_sym) is not None}))
            except Exception:
                return None
            if r == sp.true:
                return True
            if r == sp.false:
                return False
            return None
        I.case = dict(flags)
        I.case["size"] = size_oracle
        I.field_assumptions[count_sym] = {"positive": True}
        I.tracing = True
        I.size_resolver = lambda e: sp.sympify(e).subs({s_: size_value(s_, n_value, count_sym) for s_ in sp.sympify(e).free_symbols if size_value(s_, n_value, count_sym) is not None})
        I.assume_nonempty = True      # premise of every property: at least one segment / two waypoints
        env = make_env(I)
        if extra_setup:
            extra_setup(I, env)
        I.run_body(f, env)
        out[kind] = I
    return out


def size_value(s_, n, count_sym):
    nm = s_.name
    if nm == count_sym:
        return n
    if nm.endswith("spatial_points_.rows") or nm.endswith("P.rows") or nm.endswith("t_points.size"):
        return n + 1
    if nm.endswith("time_segments_.size"):
        return n
    return None
