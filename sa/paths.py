"""Path enumeration over opaque boolean inputs (flags) for the algebraic interpreter.

The interpreter decides constant conditions itself and index/size conditions by its iteration-kind case analysis;
what remains are conditions over boolean *inputs* (configuration flags, validity bits).  Those are enumerated here
as assignments of the boolean symbols, lazily and consistently: a symbol tested twice on one path has one value, so
the number of runs is the number of distinct relevant assignments, not the number of branch points.
"""
import sympy as sp

from .sym import Unsupported


class Assignment:
    def __init__(self, script):
        self.script = list(script)       # [(symbol, bool)] decisions inherited from the scheduler
        self.values = {}
        self.order = []
        self.pending = []                # alternatives discovered on this run
        self.fix_props = False           # data propositions take their first value only (no enumeration)
        self.preset = {}                 # flag name -> fixed value (not enumerated)
        self.props = {}                  # atomic propositions over data (relational -> bool)
        self.values_props = {}
        self.trail = []                  # every decision of this run in order, flags and propositions alike

    def oracle(self, node, c, interp):
        c = sp.sympify(c)
        if not isinstance(c, sp.Basic) or not c.free_symbols:
            return None
        if not all(isinstance(x, sp.Symbol) and x.name in interp.bool_inputs for x in c.free_symbols):
            # not a pure configuration test.  When the caller allows it, a comparison over scalar data (a weight being
            # positive, a pointer being null) is enumerated as one atomic proposition, consistently with its negation.
            if not getattr(interp, "opaque_conditions", False):
                return None
            if not isinstance(c, sp.core.relational.Relational):
                # a boolean combination: decide its comparisons (and flags) one by one
                atoms = sorted(c.atoms(sp.core.relational.Relational), key=str)
                if not atoms:
                    return None
                rep = {}
                for a_ in atoms:
                    d_ = self.oracle(node, a_, interp)
                    if d_ is None:
                        return None
                    rep[a_] = sp.true if d_ else sp.false
                r_ = c.xreplace(rep)
                for x_ in list(r_.free_symbols):
                    if isinstance(x_, sp.Symbol) and x_.name in interp.bool_inputs:
                        d_ = self.oracle(node, x_, interp)
                        if d_ is None:
                            return None
                        r_ = r_.xreplace({x_: sp.true if d_ else sp.false})
                r_ = sp.simplify(r_)
                return True if r_ == sp.true else False if r_ == sp.false else None
            key = c.canonical
            neg = sp.Not(c).canonical if hasattr(sp.Not(c), "canonical") else None
            if key in self.props:
                return self.props[key]
            if neg is not None and neg in self.props:
                return not self.props[neg]
            k = len(self.order)
            if self.fix_props:
                self.props[key] = True
                self.values_props[key] = True
                return True
            if k < len(self.script):
                v = self.script[k][1]
            else:
                v = True
                self.pending.append(list(self.trail) + [(key, False)])
            self.props[key] = v
            self.order.append(key)
            self.trail.append((key, v))
            self.values_props[key] = v
            return v
        while True:
            r = c.xreplace({k: (sp.true if v else sp.false) for k, v in self.values.items()})
            try:
                r = sp.simplify(r)
            except Exception:
                pass
            if r == sp.true:
                return True
            if r == sp.false:
                return False
            free = [x for x in r.free_symbols if isinstance(x, sp.Symbol) and x not in self.values]
            pre = [x for x in free if x.name in self.preset]
            if pre:
                self.values[pre[0]] = self.preset[pre[0].name]
                continue
            if not free:
                return None
            x = sorted(free, key=lambda z: z.name)[0]
            k = len(self.order)
            if k < len(self.script):
                v = self.script[k][1]
            else:
                v = True
                self.pending.append(list(self.trail) + [(x, False)])
            self.values[x] = v
            self.order.append(x)
            self.trail.append((x, v))


def explore(run, preset=None, fix_props=False):
    """run(oracle) -> result, for every consistent assignment of the boolean inputs the code consults.
    Returns [(assignment dict {symbol: bool}, result)]."""
    out = []
    stack = [[]]
    guard = 0
    while stack:
        script = stack.pop()
        A = Assignment(script)
        if preset:
            A.preset = dict(preset)
        A.fix_props = fix_props
        res = run(A.oracle)
        d = dict(A.values)
        d.update(A.values_props)
        out.append((d, res))
        stack.extend(A.pending)
        guard += 1
        if guard > 4096:
            raise Unsupported("more than 4096 flag assignments")
    return out
