"""Path enumeration over opaque boolean inputs (flags) for the algebraic interpreter.

The interpreter decides constant conditions itself and index/size conditions by its iteration-kind case analysis;
what remains are conditions over boolean *inputs* (configuration flags, validity bits).  Those are enumerated here
as assignments of the boolean symbols, lazily and consistently: a symbol tested twice on one path has one value, so
the number of runs is the number of distinct relevant assignments, not the number of branch points.
"""
import sympy as sp

from .sym import Unsupported


class Assignment:
    def __init__(self, script):
        self.script = list(script)       # [(symbol, bool)] decisions inherited from the scheduler
        self.values = {}
        self.order = []
        self.pending = []                # alternatives discovered on this run

    def oracle(self, node, c, interp):
        c = sp.sympify(c)
        if not isinstance(c, sp.Basic) or not c.free_symbols:
            return None
        if not all(isinstance(x, sp.Symbol) and x.name in interp.bool_inputs for x in c.free_symbols):
            return None      # mixes flags with data or sizes: not a pure configuration test
        while True:
            r = c.xreplace({k: (sp.true if v else sp.false) for k, v in self.values.items()})
            try:
                r = sp.simplify(r)
            except Exception:
                pass
            if r == sp.true:
                return True
            if r == sp.false:
                return False
            free = [x for x in r.free_symbols if isinstance(x, sp.Symbol) and x not in self.values]
            if not free:
                return None
            x = sorted(free, key=lambda z: z.name)[0]
            k = len(self.order)
            if k < len(self.script):
                v = self.script[k][1]
            else:
                v = True
                self.pending.append([(y, self.values[y]) for y in self.order] + [(x, False)])
            self.values[x] = v
            self.order.append(x)


def explore(run):
    """run(oracle) -> result, for every consistent assignment of the boolean inputs the code consults.
    Returns [(assignment dict {symbol: bool}, result)]."""
    out = []
    stack = [[]]
    guard = 0
    while stack:
        script = stack.pop()
        A = Assignment(script)
        res = run(A.oracle)
        out.append((dict(A.values), res))
        stack.extend(A.pending)
        guard += 1
        if guard > 4096:
            raise Unsupported("more than 4096 flag assignments")
    return out
