"""Member roles by what the code does with them, and a canonical view of the facts.

Several rules name members in their canonical forms (`this.breakpoints_[...]`, `derivative_coeffs_[d]`).  A private member may
be renamed at any time without changing behaviour, so the names must not be an assumption: the roles are discovered from
how the members are used (which constructor / initialiser parameter they store, what their type is, which routine fills
them, which flag guards them) and the loaded facts are rewritten to the canonical names the rules were written with.
On the unchanged tree the mapping is the identity.  A role that cannot be identified is analysis-broken.
"""
from .facts import Broken, walk
from .effects import Effects, callee


def _strip(e):
    while isinstance(e, dict) and e.get("k") in ("cast", "paren", "conv", "copy", "implicit") and e.get("e") is not None:
        e = e["e"]
    return e


def _rhs_of(node):
    if not isinstance(node, dict):
        return None
    if node.get("k") == "assign":
        return node.get("r")
    if node.get("k") == "call" and callee(node).get("op") == "=" and node.get("args"):
        return node["args"][0]
    if node.get("k") == "init":
        return node.get("init")
    return node.get("init") or node.get("r")


def ppoly_roles(F, E, cls):
    """canonical name -> actual member name for one PPolyND instantiation"""
    rec = F.record(cls)
    fields = {f["name"]: f for f in rec["fields"]}
    inits = [f for f in F.funcs(cls, "initializeInternal")]
    if len(inits) != 1:
        raise Broken("PPolyND roles: initializeInternal not found in " + cls)
    init = inits[0]
    pid = {p["id"]: k for k, p in enumerate(init["params"])}
    helpers = [init] + [g for g in F.reachable(init, stop=lambda h: h.get("cls") != cls) if g.get("cls") == cls]
    role = {}
    seg = None
    initialised = None
    for g in helpers:
        for path, how, node in E.function_writes_local(g):
            if path[0] != "this" or len(path) != 2 or path[1] not in fields:
                continue
            m = path[1]
            rhs = _strip(_rhs_of(node))
            ty = fields[m]["ty"]
            if g is init and isinstance(rhs, dict) and rhs.get("k") == "var" and rhs.get("id") in pid:
                role[pid[rhs["id"]]] = m
            elif ty.get("c") == "int" and rhs is not None and any(x.get("k") == "call" and callee(x).get("name") == "size" for x in walk(rhs)):
                seg = m
            elif ty.get("c") == "bool" and not fields[m].get("mutable"):
                initialised = m
    if set(role) != {0, 1, 2} or seg is None or initialised is None:
        raise Broken("PPolyND roles of %s not identified (inputs %s, segment count %s, state %s)" % (cls, role, seg, initialised))
    tables = [n for n, f in fields.items() if f["ty"].get("std") == "vector" and (f["ty"].get("elem") or {}).get("c") == "eigen"]
    dyn = [n for n, f in fields.items() if f["ty"].get("c") == "eigen" and f["ty"].get("rows") == -1 and f["ty"].get("cols") == -1 and n != role[1]]
    if len(tables) != 1 or len(dyn) != 1:
        raise Broken("PPolyND roles of %s: derivative tables / factor table not identified (%s, %s)" % (cls, tables, dyn))
    flags = [n for n, f in fields.items() if f["ty"].get("c") == "bool" and f.get("mutable")]
    ready = {}
    for g in F.funcs(cls):
        ws = {p[1] for p, h, n in E.function_writes_local(g) if p[0] == "this" and len(p) >= 2}
        for fl in flags:
            if fl in ws and any(p[:2] == ("this", fl) and str((_strip(_rhs_of(n)) or {}).get("v")) in ("true", "1") for p, h, n in E.function_writes_local(g)):
                if tables[0] in ws:
                    ready["derivative_coeffs_ready_"] = fl
                if dyn[0] in ws:
                    ready["derivative_factor_table_ready_"] = fl
    if len(ready) != 2 or len(set(ready.values())) != 2:
        raise Broken("PPolyND roles of %s: ready flags not identified (%s)" % (cls, ready))
    out = {"breakpoints_": role[0], "coefficients_": role[1], "num_coeffs_": role[2], "num_segments_": seg, "is_initialized_": initialised,
           "derivative_coeffs_": tables[0], "derivative_factor_table_": dyn[0]}
    out.update(ready)
    if len(set(out.values())) != len(out):
        raise Broken("PPolyND roles of %s are not distinct: %s" % (cls, out))
    return out


def rename_members(F, cls, actual_to_canon):
    """rewrite, in place, every access to a member of `cls` (from its own functions, its nested classes and anywhere else)"""
    if all(a == c for a, c in actual_to_canon.items()):
        return
    # two-step rename through unique temporaries, so that a swap of two names is handled
    tmp = {a: "\0" + c for a, c in actual_to_canon.items()}

    def rec(n):
        if isinstance(n, list):
            for x in n:
                rec(x)
            return
        if not isinstance(n, dict):
            return
        if n.get("k") == "mem" and n.get("cls") == cls and n.get("field") in tmp:
            n["field"] = tmp[n["field"]]
        for k, v in n.items():
            if isinstance(v, (dict, list)) and k not in ("t", "ty", "lt", "to"):
                rec(v)
    for f in F.functions:
        rec(f.get("body"))
        rec(f.get("inits"))
        for ini in f.get("inits") or []:
            if f.get("cls") == cls and ini.get("field") in tmp:
                ini["field"] = tmp[ini["field"]]
            if f.get("cls") == cls and ini.get("name") in tmp:
                ini["name"] = tmp[ini["name"]]
    for fl in F.record(cls)["fields"]:
        if fl["name"] in tmp:
            fl["name"] = tmp[fl["name"]]

    def fin(n):
        if isinstance(n, list):
            for x in n:
                fin(x)
            return
        if not isinstance(n, dict):
            return
        for key in ("field", "name"):
            if isinstance(n.get(key), str) and n[key].startswith("\0"):
                n[key] = n[key][1:]
        for k, v in n.items():
            if isinstance(v, (dict, list)) and k not in ("t", "ty", "lt", "to"):
                fin(v)
    for f in F.functions:
        fin(f.get("body"))
        fin(f.get("inits"))
    for fl in F.record(cls)["fields"]:
        if fl["name"].startswith("\0"):
            fl["name"] = fl["name"][1:]


def _private_callees(F, cls, callers):
    """non-public methods of cls called from every function of `callers` (fid -> function)"""
    common = None
    for f in callers:
        here = {h["fid"]: h for c, h in F.callees(f) if h.get("cls") == cls and h.get("access") != "public" and h.get("kind") == "method"}
        common = here if common is None else {k: v for k, v in common.items() if k in here}
    return list((common or {}).values())


def _ret(f):
    return f.get("ret") or {}


def _writes_field_of_type(F, E, g, cls, pred):
    fields = {fl["name"]: fl for fl in F.record(cls)["fields"]}
    return any(path[0] == "this" and len(path) >= 2 and path[1] in fields and pred(fields[path[1]]["ty"]) for path, how, node in E.function_writes_local(g))


def private_function_roles(F, E, cls, short):
    """canonical private function name -> [functions] of one instantiation, found by who calls them and what they do"""
    out = {}
    pub = lambda nm: [f for f in F.funcs(cls, nm) if f.get("access") == "public" and f.get("body")]
    if short in ("CubicSplineND", "QuinticSplineND", "SepticSplineND"):
        c = _private_callees(F, cls, pub("propagateGrad")) if pub("propagateGrad") else []
        if len(c) == 1:
            out["propagateGradInternal"] = c
    elif short == "PPolyND":
        c = _private_callees(F, cls, pub("update")) if pub("update") else []
        if len(c) == 1:
            out["initializeInternal"] = c
        ev = pub("evaluate")
        if ev:
            cs = [h for f in ev for _, h in F.callees(f) if h.get("cls") == cls and h.get("access") != "public" and h.get("kind") == "method"]
            cs = list({h["fid"]: h for h in cs}.values())
            look = [h for h in cs if _ret(h).get("c") == "int"]
            # the two-argument lookup may call the one-argument one
            look += [h for f in look for _, h in F.callees(f) if h.get("cls") == cls and _ret(h).get("c") == "int" and h["fid"] not in {x["fid"] for x in look}]
            horner = [h for h in cs if _ret(h).get("c") == "eigen"]
            if look and len({h["name"] for h in look}) == 1:
                out["findSegment"] = look
            if len(horner) == 1:
                out["evaluateSegmentHorner"] = horner
        zero = [g for g in F.funcs(cls) if g.get("access") != "public" and g.get("kind") == "method" and not g["params"] and g.get("body") and g.get("const")]
        tab = [g for g in zero if _writes_field_of_type(F, E, g, cls, lambda ty: ty.get("std") == "vector" and (ty.get("elem") or {}).get("c") == "eigen")]
        dyn = [g for g in zero if _writes_field_of_type(F, E, g, cls, lambda ty: ty.get("c") == "eigen" and ty.get("rows") == -1 and ty.get("cols") == -1)]
        if len(tab) == 1:
            out["buildDerivativeCoefficients"] = tab
        if len(dyn) == 1:
            out["buildDynamicDerivativeFactorTable"] = dyn
        # the guards in front of the two builders: no parameters, call the builder, write nothing themselves
        for canon, built in (("ensureDerivativeCoefficients", tab), ("ensureDerivativeFactorTable", dyn)):
            if len(built) == 1:
                g = [z for z in zero if z["fid"] != built[0]["fid"] and any(h["fid"] == built[0]["fid"] for _, h in F.callees(z))
                     and not any(path[0] == "this" for path, how, node in E.function_writes_local(z))]
                if len(g) == 1:
                    out[canon] = g
        fac = [g for g in F.funcs(cls) if g.get("access") != "public" and g.get("kind") == "method" and g.get("body") and _ret(g).get("c") == "double"
               and len(g["params"]) == 2 and all(p["ty"].get("c") == "int" for p in g["params"])]
        if len(fac) == 1:
            out["derivativeFactor"] = fac
    elif short == "SplineOptimizer":
        def has_string_ptr(g):
            return any((p["ty"].get("c") == "ptr" and "basic_string" in str(p["ty"].get("pointee") or p["ty"])) for p in g["params"])
        cv = [g for g in F.funcs(cls) if g.get("kind") == "method" and _ret(g).get("c") == "bool" and has_string_ptr(g)]
        if len(cv) == 1:
            out["checkValidity"] = cv
        ev = pub("evaluate")
        if ev:
            def is_quadrature(h):
                ps = h["params"]
                return h.get("access") != "public" and h.get("cls") == cls and len(ps) >= 5 and _ret(h).get("c") == "void" \
                    and any(p["ty"].get("c") == "double" and p["ty"].get("ref") and not p["ty"].get("const") for p in ps)
            q = list({h["fid"]: h for f in ev for _, h in F.callees(f) if is_quadrature(h)}.values())
            if q and len({h["name"] for h in q}) == 1:
                out["calculateIntegralCost"] = q
    return out


def rename_functions(F, ren):
    """ren: fid -> new name.  Function records and every resolved call site."""
    if not ren:
        return
    for f in F.functions:
        if f["fid"] in ren:
            old, new = f["name"], ren[f["fid"]]
            for key in ("full", "q"):
                if isinstance(f.get(key), str) and f[key].endswith("::" + old):
                    f[key] = f[key][:-len(old)] + new
                elif isinstance(f.get(key), str) and ("::" + old) in f[key]:
                    f[key] = f[key].replace("::" + old, "::" + new)
            f["name"] = new
    for f in F.functions:
        nodes = [f.get("body")] + [i for i in (f.get("inits") or [])]
        for nd in nodes:
            for n in walk(nd):
                c = n.get("callee") if isinstance(n, dict) else None
                if isinstance(c, dict) and c.get("fid") in ren:
                    old, new = c.get("name"), ren[c["fid"]]
                    c["name"] = new
                    if isinstance(c.get("q"), str) and old and c["q"].endswith("::" + old):
                        c["q"] = c["q"][:-len(old)] + new


def canonicalise_functions(F, E):
    """a private function the rules know by name and that no longer carries it is found by its role and given the name back
    (identity on the unchanged tree; nothing is done when the role cannot be identified - the rules then report the
    missing anchor)"""
    ren = {}
    for cls, rec in F.records.items():
        short = rec.get("short")
        if short not in ("CubicSplineND", "QuinticSplineND", "SepticSplineND", "PPolyND", "SplineOptimizer") or cls.count("::") != 1 and short != "SplineOptimizer":
            continue
        have = {f["name"] for f in F.funcs(cls)}
        try:
            found = private_function_roles(F, E, cls, short)
        except Broken:
            continue
        for canon, fs in found.items():
            if canon in have or any(f["name"] == canon for f in fs):
                continue
            for f in fs:
                ren[f["fid"]] = canon
    rename_functions(F, ren)
    return ren


def canonicalise(F):
    """once per loaded fact base"""
    if getattr(F, "_canonical", False):
        return F
    F._canonical = True
    E = Effects(F)
    F._renamed_functions = canonicalise_functions(F, E)
    if F._renamed_functions:
        E = Effects(F)
    # the member names are those of the class template: discover the roles on an instantiation whose members are all there
    # (an explicitly instantiated one) and apply the mapping to every instantiation of the template
    pp_classes = [cls for cls in F.records if cls.startswith("SplineTrajectory::PPolyND<") and cls.count("::") == 1]
    full = [cls for cls in pp_classes if all(F.funcs(cls, nm) for nm in ("initializeInternal", "buildDerivativeCoefficients", "buildDynamicDerivativeFactorTable", "findSegment"))]
    if pp_classes:
        if not full:
            raise Broken("PPolyND roles: no fully instantiated PPolyND in the witness set")
        canon_names = ("breakpoints_", "coefficients_", "num_coeffs_", "num_segments_", "is_initialized_", "derivative_coeffs_", "derivative_factor_table_",
                       "derivative_factor_table_ready_", "derivative_coeffs_ready_")
        try:
            roles = ppoly_roles(F, E, sorted(full)[0])
            for other in full[1:]:
                if ppoly_roles(F, E, other) != roles:
                    raise Broken("PPolyND roles differ between instantiations")
        except Broken:
            # the roles could not be read off (the code no longer has the shape the discovery expects - that is for the
            # rules to judge).  If the members still carry the names the rules were written with, nothing needs renaming.
            names0 = {fl["name"] for fl in F.record(sorted(full)[0])["fields"]}
            if set(canon_names) <= names0:
                return F
            raise
        a2c = {a: c for c, a in roles.items()}
        if any(a != c for a, c in a2c.items()):
            for cls in pp_classes:
                names = {fl["name"] for fl in F.record(cls)["fields"]}
                if not set(a2c) <= names:
                    raise Broken("PPolyND roles: %s lacks members %s" % (cls, sorted(set(a2c) - names)))
                rename_members(F, cls, a2c)
    return F
