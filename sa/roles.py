"""Member roles by what the code does with them, and a canonical view of the facts.

Several rules name members in their canonical forms (`this.breakpoints_[...]`, `derivative_coeffs_[d]`).  A private member may
be renamed at any time without changing behaviour, so the names must not be an assumption: the roles are discovered from
how the members are used (which constructor / initialiser parameter they store, what their type is, which routine fills
them, which flag guards them) and the loaded facts are rewritten to the canonical names the rules were written with.
On the unchanged tree the mapping is the identity.  A role that cannot be identified is analysis-broken.
"""
from .facts import Broken, walk
from .effects import Effects, callee


def _strip(e):
    while isinstance(e, dict) and e.get("k") in ("cast", "paren", "conv", "copy", "implicit") and e.get("e") is not None:
        e = e["e"]
    return e


def _rhs_of(node):
    if not isinstance(node, dict):
        return None
    if node.get("k") == "assign":
        return node.get("r")
    if node.get("k") == "call" and callee(node).get("op") == "=" and node.get("args"):
        return node["args"][0]
    if node.get("k") == "init":
        return node.get("init")
    return node.get("init") or node.get("r")


def ppoly_roles(F, E, cls):
    """canonical name -> actual member name for one PPolyND instantiation"""
    rec = F.record(cls)
    fields = {f["name"]: f for f in rec["fields"]}
    inits = [f for f in F.funcs(cls, "initializeInternal")]
    if len(inits) != 1:
        raise Broken("PPolyND roles: initializeInternal not found in " + cls)
    init = inits[0]
    pid = {p["id"]: k for k, p in enumerate(init["params"])}
    helpers = [init] + [g for g in F.reachable(init, stop=lambda h: h.get("cls") != cls) if g.get("cls") == cls]
    role = {}
    seg = None
    initialised = None
    for g in helpers:
        for path, how, node in E.function_writes_local(g):
            if path[0] != "this" or len(path) != 2 or path[1] not in fields:
                continue
            m = path[1]
            rhs = _strip(_rhs_of(node))
            ty = fields[m]["ty"]
            if g is init and isinstance(rhs, dict) and rhs.get("k") == "var" and rhs.get("id") in pid:
                role[pid[rhs["id"]]] = m
            elif ty.get("c") == "int" and rhs is not None and any(x.get("k") == "call" and callee(x).get("name") == "size" for x in walk(rhs)):
                seg = m
            elif ty.get("c") == "bool" and not fields[m].get("mutable"):
                initialised = m
    if set(role) != {0, 1, 2} or seg is None or initialised is None:
        raise Broken("PPolyND roles of %s not identified (inputs %s, segment count %s, state %s)" % (cls, role, seg, initialised))
    tables = [n for n, f in fields.items() if f["ty"].get("std") == "vector" and (f["ty"].get("elem") or {}).get("c") == "eigen"]
    dyn = [n for n, f in fields.items() if f["ty"].get("c") == "eigen" and f["ty"].get("rows") == -1 and f["ty"].get("cols") == -1 and n != role[1]]
    if len(tables) != 1 or len(dyn) != 1:
        raise Broken("PPolyND roles of %s: derivative tables / factor table not identified (%s, %s)" % (cls, tables, dyn))
    flags = [n for n, f in fields.items() if f["ty"].get("c") == "bool" and f.get("mutable")]
    ready = {}
    for g in F.funcs(cls):
        ws = {p[1] for p, h, n in E.function_writes_local(g) if p[0] == "this" and len(p) >= 2}
        for fl in flags:
            if fl in ws and any(p[:2] == ("this", fl) and str((_strip(_rhs_of(n)) or {}).get("v")) in ("true", "1") for p, h, n in E.function_writes_local(g)):
                if tables[0] in ws:
                    ready["derivative_coeffs_ready_"] = fl
                if dyn[0] in ws:
                    ready["derivative_factor_table_ready_"] = fl
    if len(ready) != 2 or len(set(ready.values())) != 2:
        raise Broken("PPolyND roles of %s: ready flags not identified (%s)" % (cls, ready))
    out = {"breakpoints_": role[0], "coefficients_": role[1], "num_coeffs_": role[2], "num_segments_": seg, "is_initialized_": initialised,
           "derivative_coeffs_": tables[0], "derivative_factor_table_": dyn[0]}
    out.update(ready)
    if len(set(out.values())) != len(out):
        raise Broken("PPolyND roles of %s are not distinct: %s" % (cls, out))
    return out


def rename_members(F, cls, actual_to_canon):
    """rewrite, in place, every access to a member of `cls` (from its own functions, its nested classes and anywhere else)"""
    if all(a == c for a, c in actual_to_canon.items()):
        return
    # two-step rename through unique temporaries, so that a swap of two names is handled
    tmp = {a: "\0" + c for a, c in actual_to_canon.items()}

    def rec(n):
        if isinstance(n, list):
            for x in n:
                rec(x)
            return
        if not isinstance(n, dict):
            return
        if n.get("k") == "mem" and n.get("cls") == cls and n.get("field") in tmp:
            n["field"] = tmp[n["field"]]
        for k, v in n.items():
            if isinstance(v, (dict, list)) and k not in ("t", "ty", "lt", "to"):
                rec(v)
    for f in F.functions:
        rec(f.get("body"))
        rec(f.get("inits"))
        for ini in f.get("inits") or []:
            if f.get("cls") == cls and ini.get("field") in tmp:
                ini["field"] = tmp[ini["field"]]
            if f.get("cls") == cls and ini.get("name") in tmp:
                ini["name"] = tmp[ini["name"]]
    for fl in F.record(cls)["fields"]:
        if fl["name"] in tmp:
            fl["name"] = tmp[fl["name"]]

    def fin(n):
        if isinstance(n, list):
            for x in n:
                fin(x)
            return
        if not isinstance(n, dict):
            return
        for key in ("field", "name"):
            if isinstance(n.get(key), str) and n[key].startswith("\0"):
                n[key] = n[key][1:]
        for k, v in n.items():
            if isinstance(v, (dict, list)) and k not in ("t", "ty", "lt", "to"):
                fin(v)
    for f in F.functions:
        fin(f.get("body"))
        fin(f.get("inits"))
    for fl in F.record(cls)["fields"]:
        if fl["name"].startswith("\0"):
            fl["name"] = fl["name"][1:]


def canonicalise(F):
    """once per loaded fact base"""
    if getattr(F, "_canonical", False):
        return F
    F._canonical = True
    E = Effects(F)
    # the member names are those of the class template: discover the roles on an instantiation whose members are all there
    # (an explicitly instantiated one) and apply the mapping to every instantiation of the template
    pp_classes = [cls for cls in F.records if cls.startswith("SplineTrajectory::PPolyND<") and cls.count("::") == 1]
    full = [cls for cls in pp_classes if all(F.funcs(cls, nm) for nm in ("initializeInternal", "buildDerivativeCoefficients", "buildDynamicDerivativeFactorTable", "findSegment"))]
    if pp_classes:
        if not full:
            raise Broken("PPolyND roles: no fully instantiated PPolyND in the witness set")
        canon_names = ("breakpoints_", "coefficients_", "num_coeffs_", "num_segments_", "is_initialized_", "derivative_coeffs_", "derivative_factor_table_",
                       "derivative_factor_table_ready_", "derivative_coeffs_ready_")
        try:
            roles = ppoly_roles(F, E, sorted(full)[0])
            for other in full[1:]:
                if ppoly_roles(F, E, other) != roles:
                    raise Broken("PPolyND roles differ between instantiations")
        except Broken:
            # the roles could not be read off (the code no longer has the shape the discovery expects - that is for the
            # rules to judge).  If the members still carry the names the rules were written with, nothing needs renaming.
            names0 = {fl["name"] for fl in F.record(sorted(full)[0])["fields"]}
            if set(canon_names) <= names0:
                return F
            raise
        a2c = {a: c for c, a in roles.items()}
        if any(a != c for a, c in a2c.items()):
            for cls in pp_classes:
                names = {fl["name"] for fl in F.record(cls)["fields"]}
                if not set(a2c) <= names:
                    raise Broken("PPolyND roles: %s lacks members %s" % (cls, sorted(set(a2c) - names)))
                rename_members(F, cls, a2c)
    return F
