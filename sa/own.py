"""Engine S (part 2): pointer-provenance / ownership abstract interpretation of copy operations and setters.

The copy constructor, the copy assignment and the map setters of the optimizer are interpreted over a finite domain
of provenance tags, once per *alias configuration* of the inputs (does the source use its own default map or a
caller's; does it own a workspace; does the destination own one; is it a self-assignment).  In one configuration
every condition the code can test on these pointers is decided, so the operation has a single path and the final
provenance of every member is exact - whatever the statement shape: ternaries, if/else, early returns, local
booleans, helper member functions (followed in place), unique_ptr construction, reset, make_unique.
Nothing of the library runs; unknown constructs are TOP and make the rule report analysis-broken, not a violation.

values:  ("addr", owner, member)   address of a member of *this / other
         ("ext", tag)              a caller-owned object
         ("null",)
         ("bool", b)
         ("val", owner, member)    the value of a member (for value-typed members)
         ("uptr", target)          unique_ptr holding target; target = ("null",) | ("wsobj", owner) | ("heap", n)
         ("raw", target)           raw pointer to such an object
         ("obj", target)           the object itself (result of *ptr)
         ("top", why)
"""
from .facts import Broken, pp


class Unknown(Exception):
    pass


class Return(Exception):
    def __init__(self, v):
        self.v = v


class Sim:
    def __init__(self, F, cls, scenario, selfptrs, owning, is_ctor, other_id=None, params=None, lenient=False):
        self.F, self.cls, self.sc = F, cls, scenario
        self.selfptrs = selfptrs               # pointer member -> own member it may point at
        self.owning = owning                   # unique_ptr members
        self.other_id = other_id
        self.lenient = lenient                 # setters: unknown statements are skipped, unknown conditions fork
        self.rec = F.record(cls)
        self.fields = {x["name"]: x for x in self.rec["fields"]}
        self.heap = {}
        self.freed = set()
        self.problems = []
        self.state = {}
        self.locals = {}
        self.params = params or {}
        self.depth = 0
        self.hook = None
        self.finals = []
        same = scenario.get("self")
        for name, fld in self.fields.items():
            if name in selfptrs:
                if is_ctor:
                    self.state[name] = ("null",) if fld.get("init") is not None else ("uninit",)
                else:
                    # the destination of an assignment may itself have been pointed at a caller's map before (a different one)
                    prior = ("ext_prior", name) if scenario.get("this_ptr", {}).get(name) == "ext" else ("addr", "this", selfptrs[name])
                    self.state[name] = self.other_ptr(name, "this") if same else prior
            elif name in owning:
                if is_ctor:
                    self.state[name] = ("uptr", ("null",))
                else:
                    has = scenario.get("other_ws") if same else scenario.get("this_ws")
                    self.state[name] = ("uptr", ("wsobj", "this") if has else ("null",))
            else:
                self.state[name] = ("uninit",) if is_ctor else ("val", "this", name)

    # ---- reading the source object ---------------------------------------------------------------------
    def other_ptr(self, name, owner="other"):
        return ("addr", owner, self.selfptrs[name]) if self.sc["ptr"][name] == "own" else ("ext", name)

    def read_other(self, name):
        if self.sc.get("self"):
            return self.state[name]
        if name in self.selfptrs:
            return self.other_ptr(name)
        if name in self.owning:
            return ("uptr", ("wsobj", "other") if self.sc.get("other_ws") else ("null",))
        return ("val", "other", name)

    def owner_of(self, base):
        if isinstance(base, dict) and base.get("k") == "this":
            return "this"
        if isinstance(base, dict) and base.get("k") == "var" and base.get("id") == self.other_id:
            return "this" if self.sc.get("self") else "other"
        if isinstance(base, dict) and base.get("k") == "var" and base.get("id") in self.params:
            v = self.params[base["id"]]
            if v[0] == "obj" and v[1][0] == "whole":
                return v[1][1]
            if v[0] == "addr" and v[2] is None:
                return v[1]
        if isinstance(base, dict) and base.get("k") in ("cast", "conv") and (base.get("e") or base.get("obj")):
            return self.owner_of(base.get("e") or base.get("obj"))
        if isinstance(base, dict) and base.get("k") == "un" and base.get("op") == "*":
            return self.owner_of(base["e"])
        return None

    # ---- expressions -------------------------------------------------------------------------------------
    def ev(self, e):
        if e is None:
            return ("top", "none")
        k = e.get("k")
        if k in ("cast", "defaultarg", "defaultinit", "stdinitlist", "paren"):
            return self.ev(e["e"])
        if k == "lit":
            v = e.get("v")
            if v in ("nullptr",) or (e.get("lt") in ("valueinit", "nullptr") and v == "0") or (e.get("t", {}).get("c") == "ptr" and v == "0"):
                return ("null",)
            if v in ("true", "false"):
                return ("bool", v == "true")
            return ("top", "literal")
        if k == "this":
            return ("addr", "this", None)
        if k == "var":
            if e.get("id") in self.locals:
                return self.locals[e["id"]]
            if e.get("id") in self.params:
                return self.params[e["id"]]
            if e.get("id") == self.other_id:
                return ("obj", ("whole", "this" if self.sc.get("self") else "other"))
            return ("top", "variable " + e.get("name", "?"))
        if k == "mem":
            own = self.owner_of(e.get("base"))
            if own is not None and e.get("cls") == self.cls and e["field"] in self.fields:
                return self.state[e["field"]] if own == "this" else self.read_other(e["field"])
            return ("top", "member " + pp(e)[:40])
        if k == "un":
            op = e.get("op")
            if op == "&":
                x = e["e"]
                while isinstance(x, dict) and x.get("k") in ("cast",):
                    x = x["e"]
                if isinstance(x, dict) and x.get("k") == "mem" and x.get("cls") == self.cls:
                    own = self.owner_of(x.get("base"))
                    if own is not None:
                        return ("addr", own, x["field"])
                if isinstance(x, dict) and x.get("k") == "var" and x.get("id") == self.other_id:
                    return ("addr", "this" if self.sc.get("self") else "other", None)
                if isinstance(x, dict) and x.get("k") == "var" and x.get("id") in self.params and self.params[x["id"]][0] == "obj" and self.params[x["id"]][1][0] == "whole":
                    return ("addr", self.params[x["id"]][1][1], None)
                return ("top", "address of " + pp(x)[:40])
            if op == "!":
                v = self.truth(self.ev(e["e"]))
                return ("bool", not v) if v is not None else ("top", "negation")
            if op == "*":
                v = self.ev(e["e"])
                return self.deref(v)
            return ("top", "unary " + str(op))
        if k == "bin":
            op = e.get("op")
            if op in ("==", "!="):
                a, b = self.ev(e["l"]), self.ev(e["r"])
                eq = self.equal(a, b)
                if eq is None:
                    return ("top", "comparison %s" % pp(e)[:60])
                return ("bool", eq if op == "==" else not eq)
            if op in ("&&", "||"):
                a = self.truth(self.ev(e["l"]))
                if a is None:
                    return ("top", "logic")
                if op == "&&" and not a:
                    return ("bool", False)
                if op == "||" and a:
                    return ("bool", True)
                b = self.truth(self.ev(e["r"]))
                return ("bool", b) if b is not None else ("top", "logic")
            return ("top", "binary " + str(op))
        if k == "cond":
            c = self.truth(self.ev(e["c"]))
            if c is None:
                raise Unknown("undecided condition %s" % pp(e["c"])[:80])
            return self.ev(e["a"] if c else e["b"])
        if k == "conv":
            nm = e.get("callee", {}).get("name", "")
            v = self.ev(e.get("obj"))
            if nm == "operator bool":
                t = self.truth(v)
                return ("bool", t) if t is not None else ("top", "bool conversion")
            return v
        if k == "new":
            init = e.get("init")
            src = None
            if isinstance(init, dict) and init.get("k") == "ctor" and len(init.get("args", [])) == 1 and init.get("copy"):
                src = self.ev(init["args"][0])
            n = len(self.heap)
            self.heap[n] = ("copy-of", src[1]) if src is not None and src[0] == "obj" else ("fresh", pp(init)[:40] if init else "")
            if src is not None and src[0] == "obj" and src[1] in self.freed:
                self.problems.append("copies an object that has already been released (%s)" % (src[1],))
            if src is not None and src[0] == "obj" and src[1] == ("null",):
                self.problems.append("dereferences a null workspace pointer")
            return ("raw", ("heap", n))
        if k == "ctor":
            args = [a for a in e.get("args", []) if a.get("k") != "defaultarg"]
            nm = e.get("callee", {}).get("name")
            if nm == "unique_ptr":
                if not args:
                    return ("uptr", ("null",))
                v = self.ev(args[0])
                if v[0] == "raw":
                    return ("uptr", v[1])
                if v[0] == "null":
                    return ("uptr", ("null",))
                if v[0] == "uptr":      # move construction
                    return v
                return ("top", "unique_ptr from " + str(v))
            if len(args) == 1 and (e.get("copy") or e.get("callee", {}).get("ns") in ("std", "Eigen")):
                return self.ev(args[0])
            return ("top", "constructor " + str(nm))
        if k == "call":
            return self.call(e)
        if k == "initlist" and len(e.get("elems", [])) == 1:
            return self.ev(e["elems"][0])
        return ("top", "expression kind " + str(k))

    def deref(self, v):
        if v[0] in ("uptr", "raw"):
            if v[1] == ("null",):
                self.problems.append("dereferences a null pointer")
            if v[1] in self.freed:
                self.problems.append("uses an object that has already been released (%s)" % (v[1],))
            return ("obj", v[1])
        if v[0] == "addr":
            return ("obj", ("whole", v[1])) if v[2] is None else ("val", v[1], v[2])
        return ("top", "dereference")

    def truth(self, v):
        if v[0] == "bool":
            return v[1]
        if v[0] in ("uptr", "raw"):
            return v[1] != ("null",)
        if v[0] == "null":
            return False
        if v[0] in ("addr", "ext"):
            return True
        return None

    def equal(self, a, b):
        ptrish = ("addr", "ext", "null", "raw")
        if a[0] == "uptr":
            a = ("raw", a[1]) if a[1] != ("null",) else ("null",)
        if b[0] == "uptr":
            b = ("raw", b[1]) if b[1] != ("null",) else ("null",)
        if a[0] in ptrish and b[0] in ptrish:
            return a == b
        if a[0] == "bool" and b[0] == "bool":
            return a[1] == b[1]
        return None

    def call(self, e):
        c = e.get("callee", {})
        nm, obj = c.get("name"), e.get("obj")
        args = [a for a in e.get("args", []) if a.get("k") != "defaultarg"]
        if c.get("ns") == "std" and nm in ("move", "forward", "addressof") and args:
            v = self.ev(args[0])
            return v
        if c.get("ns") == "std" and nm == "make_unique":
            src = self.ev(args[0]) if len(args) == 1 else None
            n = len(self.heap)
            self.heap[n] = ("copy-of", src[1]) if src is not None and src[0] == "obj" else ("fresh", "make_unique")
            return ("uptr", ("heap", n))
        if obj is not None and c.get("op") == "=" and len(args) == 1:
            self.assign(obj, self.ev(args[0]), e)
            return self.ev(obj)
        if obj is not None and c.get("op") == "*":
            return self.deref(self.ev(obj))
        if obj is not None and c.get("op") == "->":
            return self.ev(obj)
        if obj is not None and c.get("op") in ("==", "!=") and len(args) == 1:
            eq = self.equal(self.ev(obj), self.ev(args[0]))
            return ("bool", eq if c["op"] == "==" else not eq) if eq is not None else ("top", "comparison")
        if obj is not None and c.get("cls", "").startswith("std::unique_ptr"):
            v = self.ev(obj)
            if nm == "get" and v[0] == "uptr":
                return ("raw", v[1]) if v[1] != ("null",) else ("null",)
            if nm == "reset":
                nv = self.ev(args[0]) if args else ("null",)
                nv = ("uptr", nv[1]) if nv[0] == "raw" else ("uptr", ("null",)) if nv[0] == "null" else ("top", "reset argument")
                self.assign(obj, nv, e)
                return ("top", "void")
            if nm == "release" and v[0] == "uptr":
                self.assign(obj, ("uptr", ("null",)), e, free=False)
                return ("raw", v[1]) if v[1] != ("null",) else ("null",)
            if nm == "swap" and args:
                w = self.ev(args[0])
                self.assign(obj, w, e, free=False)
                self.assign(args[0], v, e, free=False)
                return ("top", "void")
        g = self.F.by_fid.get(c.get("fid")) if c.get("fid") is not None else None
        if g is not None and self.hook is not None:
            r = self.hook(g, e, self)
            if r is not NotImplemented:
                return r
        if g is not None and g.get("cls") == self.cls and g.get("body") is not None and (obj is None or self.owner_of(obj) == "this" or obj.get("k") == "this"):
            if self.depth > 6:
                raise Unknown("call depth")
            saved_l, saved_p = self.locals, self.params
            vals = [self.ev(a) for a in e.get("args", [])]
            self.locals, self.params = {}, dict(saved_p)
            for p, v in zip(g["params"], vals):
                self.params[p["id"]] = v
            self.depth += 1
            rv = ("top", "void")
            try:
                self.block(g["body"])
            except Return as r:
                rv = r.v
            finally:
                self.depth -= 1
                self.locals, self.params = saved_l, saved_p
            return rv
        for a in e.get("args", []):
            self.ev(a)
        return ("top", "call " + str(nm))

    # ---- writes ------------------------------------------------------------------------------------------
    def assign(self, lhs, v, node, free=True):
        x = lhs
        while isinstance(x, dict) and x.get("k") in ("cast",):
            x = x["e"]
        if isinstance(x, dict) and x.get("k") == "mem" and x.get("cls") == self.cls:
            own = self.owner_of(x.get("base"))
            if own == "this":
                name = x["field"]
                old = self.state.get(name)
                if free and name in self.owning and old and old[0] == "uptr" and old[1] != ("null",) and not (v[0] == "uptr" and v[1] == old[1]):
                    self.freed.add(old[1])
                self.state[name] = v
                return
            if own == "other":
                self.problems.append("writes to the source object (%s)" % pp(node)[:60])
                return
        if isinstance(x, dict) and x.get("k") == "var" and (x.get("id") in self.locals or x.get("vk") == "local"):
            self.locals[x["id"]] = v
            return
        # writes elsewhere (sub-members, elements) do not change provenance tracked here
        if isinstance(x, dict) and x.get("k") == "mem":
            base = x
            while isinstance(base, dict) and base.get("k") == "mem" and base.get("cls") != self.cls:
                base = base.get("base")
            if isinstance(base, dict) and base.get("k") == "mem" and self.owner_of(base.get("base")) == "this":
                self.state[base["field"]] = ("top", "partly overwritten")
                return
        if not self.lenient:
            raise Unknown("assignment to %s" % pp(lhs)[:60])

    # ---- statements ---------------------------------------------------------------------------------------
    def block(self, b):
        for s in (b.get("body", []) if b.get("k") == "block" else [b]):
            self.stmt(s)

    def stmt(self, s):
        k = s.get("k")
        if k == "block":
            self.block(s)
        elif k == "expr":
            e = s["e"]
            if e.get("k") == "assign":
                if e.get("op") == "=":
                    self.assign(e["l"], self.ev(e["r"]), e)
                else:
                    self.assign(e["l"], ("top", "compound assignment"), e)
            else:
                self.ev(e)
        elif k == "decl":
            self.locals[s["id"]] = self.ev(s["init"]) if s.get("init") is not None else ("top", "uninitialised local")
        elif k == "if":
            if s.get("init") is not None:
                self.stmt(s["init"])
            if s.get("constexpr") and s.get("taken"):
                br = s.get(s["taken"])
                if br is not None:
                    self.stmt(br)
                return
            c = self.truth(self.ev(s["cond"]))
            if c is None:
                if not self.lenient:
                    raise Unknown("undecided condition %s" % pp(s["cond"])[:80])
                # a condition on something this domain does not track: follow both branches, keep what they agree on
                before, outs = dict(self.state), []
                for br in (s.get("then"), s.get("else")):
                    self.state = dict(before)
                    try:
                        if br is not None:
                            self.stmt(br)
                        outs.append(self.state)
                    except Return:
                        self.finals.append(self.state)
                if not outs:
                    raise Return(("top", "void"))
                self.state = {f: (outs[0][f] if all(o[f] == outs[0][f] for o in outs) else ("top", "depends on an untracked condition")) for f in outs[0]}
                return
            br = s.get("then") if c else s.get("else")
            if br is not None:
                self.stmt(br)
        elif k == "return":
            raise Return(self.ev(s["e"]) if s.get("e") is not None else ("top", "void"))
        elif k in ("for", "rfor", "while"):
            if not self.lenient:
                raise Unknown("loop in a copy operation")
        else:
            if not self.lenient:
                raise Unknown("statement kind %s" % k)

    def run_ctor_inits(self, f):
        for ini in f.get("inits") or []:
            if not ini.get("written"):
                continue
            name = ini.get("field")
            if name in self.fields:
                self.state[name] = self.ev(ini.get("init"))

    def run(self, f):
        self.run_ctor_inits(f)
        try:
            if f.get("body") is not None:
                self.block(f["body"])
        except Return:
            pass
        self.finals.append(self.state)
        return self.state


def layout_hook(rebuild, dirty, ins, outs):
    """Sim hook for classes with a lazily rebuilt cache: the rebuild routine is not entered; it marks every cached
    member as 'rebuilt from <the provenance its inputs have at that moment>' and clears the dirty flag."""
    def hook(g, e, S):
        if g["fid"] == rebuild["fid"]:
            snap = frozenset((i, S.state.get(i)) for i in sorted(ins))
            for o in outs:
                S.state[o] = ("rebuilt", snap)
            S.state[dirty] = ("bool", False)
            return ("top", "void")
        return NotImplemented
    return hook


def cache_consistent(state, dirty, ins, outs, want_in):
    """None when the cached members agree with the final inputs, else a description.  want_in: member -> provenance the
    input must end with."""
    for i in sorted(ins):
        if i in want_in and state.get(i) != want_in[i]:
            return "%s ends as %s" % (i, state.get(i))
    if state.get(dirty) == ("bool", True):
        return None                      # marked dirty: rebuilt before use
    final = frozenset((i, state.get(i)) for i in sorted(ins))
    kinds = {state[o][0] for o in outs if o in state}
    if kinds == {"rebuilt"}:
        for o in outs:
            if state[o][1] != final:
                stale = [i for (i, v) in state[o][1] if dict(final).get(i) != v]
                return "the layout was rebuilt before %s received its final value" % stale
        return None
    if kinds == {"val"} and all(state[o] == ("val", "other", o) for o in outs if o in state) and state.get(dirty) in (("val", "other", dirty), ("bool", False)):
        return None                      # copied wholesale from the source together with its inputs
    return "cached members end as %s with the dirty flag %s" % ({o: state[o] for o in outs if o in state}, state.get(dirty))
