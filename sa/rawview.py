"""Raw-storage views (Eigen::Map over data()) resolved to an index map of the object they view.

The matrices of the spline classes are row-major for DIM >= 2 and column-major for DIM == 1, so what a view built from a
raw pointer, an offset and a stride denotes depends on the instantiation.  A view is *resolved* when it can be written as
    view(r, c) = object(a + b * r, c)           (a, b integers of the instantiation)
Every data() call on an Eigen object must be consumed by such a view, otherwise the access is not understood (Broken).
"""
import re

from .facts import Broken, walk, pp, loc

_PLAIN = re.compile(r"Eigen::Map<(?:const )?Eigen::(Matrix|Array)<double, (-?\d+), (-?\d+)(?:, (\d+))?")


def strip_casts(n):
    while isinstance(n, dict) and n.get("k") in ("cast", "paren", "copy", "implicit") and n.get("e") is not None:
        n = n["e"]
    return n


def const_int(n, f, F, depth=0):
    """value of an integer expression made of literals, + - * /, constants of the class and const locals so initialised"""
    n = strip_casts(n)
    if not isinstance(n, dict) or depth > 20:
        raise Broken("raw view: not a constant integer expression: %s" % pp(n)[:80])
    k = n.get("k")
    if k == "lit":
        try:
            return int(str(n.get("v")))
        except ValueError:
            raise Broken("raw view: literal %s is not an integer" % n.get("v"))
    if k == "bin" and n.get("op") in ("+", "-", "*", "/"):
        a, b = const_int(n["l"], f, F, depth + 1), const_int(n["r"], f, F, depth + 1)
        if n["op"] == "+":
            return a + b
        if n["op"] == "-":
            return a - b
        if n["op"] == "*":
            return a * b
        if b == 0 or a % b:
            raise Broken("raw view: inexact constant division %s" % pp(n)[:80])
        return a // b
    if k == "cond":
        c = n["c"]
        c = strip_casts(c)
        if isinstance(c, dict) and c.get("k") == "bin" and c.get("op") in ("==", "!=", "<", "<=", ">", ">="):
            a, b = const_int(c["l"], f, F, depth + 1), const_int(c["r"], f, F, depth + 1)
            t = {"==": a == b, "!=": a != b, "<": a < b, "<=": a <= b, ">": a > b, ">=": a >= b}[c["op"]]
            return const_int(n["a"] if t else n["b"], f, F, depth + 1)
    if k == "var":
        d = find_decl(f, n.get("id"))
        if d is not None and (d.get("ty") or {}).get("const") and d.get("init") is not None:
            return const_int(d["init"], f, F, depth + 1)
    if k in ("mem", "static", "declref") and n.get("v") is not None:
        return int(str(n["v"]))
    raise Broken("raw view: not a constant integer expression: %s" % pp(n)[:80])


def find_decl(f, vid):
    for n in walk(f.get("body")):
        if n.get("k") == "decl" and n.get("id") == vid:
            return n
    return None


def plain_of(ctor):
    m = _PLAIN.search((ctor.get("callee") or {}).get("cls", ""))
    if not m:
        raise Broken("raw view: plain type of %s not recognised" % (ctor.get("callee") or {}).get("cls", "")[:100])
    rows, cols = int(m.group(2)), int(m.group(3))
    opts = int(m.group(4)) if m.group(4) is not None else 0
    return rows, cols, bool(opts & 1)


def stride_of(n, f, F):
    """(outer stride, inner stride) of a stride argument; None where defaulted"""
    n = strip_casts(n)
    if isinstance(n, dict) and n.get("k") == "var":
        d = find_decl(f, n.get("id"))
        if d is None or d.get("init") is None:
            raise Broken("raw view: stride variable without initialiser")
        return stride_of(d["init"], f, F)
    if isinstance(n, dict) and n.get("k") == "ctor":
        nm = (n.get("callee") or {}).get("name")
        args = [a for a in n.get("args", []) if not (isinstance(a, dict) and a.get("k") == "defaultarg")]
        if nm == "OuterStride" and len(args) == 1:
            return const_int(args[0], f, F), None
        if nm in ("OuterStride", "InnerStride", "Stride") and len(args) == 1 and isinstance(strip_casts(args[0]), dict) and strip_casts(args[0]).get("k") in ("ctor", "var"):
            return stride_of(args[0], f, F)      # copy of a stride object
        if nm == "InnerStride" and len(args) == 1:
            return None, const_int(args[0], f, F)
        if nm == "Stride" and len(args) == 2:
            return const_int(args[0], f, F), const_int(args[1], f, F)
    raise Broken("raw view: stride argument not understood: %s" % pp(n)[:80])


def pointer_of(n, f, F):
    """(object node, element offset) of `obj.data()` or `obj.data() + k`"""
    n = strip_casts(n)
    if isinstance(n, dict) and n.get("k") == "bin" and n.get("op") in ("+", "-"):
        lt = (n["l"].get("t") or n.get("lt") or {})
        if (n.get("lt") or {}).get("c") == "ptr" or lt.get("c") == "ptr":
            obj, off = pointer_of(n["l"], f, F)
            k = const_int(n["r"], f, F)
            return obj, off + (k if n["op"] == "+" else -k)
    if isinstance(n, dict) and n.get("k") == "call" and (n.get("callee") or {}).get("name") == "data":
        return n.get("obj"), 0
    raise Broken("raw view: pointer argument not understood: %s" % pp(n)[:80])


def is_eigen_data_call(n):
    return n.get("k") == "call" and (n.get("callee") or {}).get("name") == "data" and ((n.get("obj") or {}).get("t") or {}).get("c") == "eigen"


def is_map_ctor(n):
    return n.get("k") == "ctor" and (n.get("callee") or {}).get("name") == "Map" and (n.get("callee") or {}).get("ns") == "Eigen"


def resolve_views(F, f):
    """[(ctor node, object text, a, b, rows text)] for every Eigen::Map built in f; every data() call on an Eigen object must
    be the pointer of one of them"""
    out = []
    consumed = set()
    for n in walk(f.get("body")):
        if not is_map_ctor(n):
            continue
        args = [a for a in n.get("args", []) if not (isinstance(a, dict) and a.get("k") == "defaultarg")]
        if len(args) == 1 and isinstance(strip_casts(args[0]), dict) and (strip_casts(args[0]).get("t") or {}).get("tmpl") == "Map":
            continue                      # copy of a view
        if not args:
            raise Broken("raw view: Eigen::Map without a pointer argument at %s" % loc(f, n))
        obj, off = pointer_of(args[0], f, F)
        for d in walk(args[0]):
            if d.get("k") == "call" and (d.get("callee") or {}).get("name") == "data":
                consumed.add(id(d))
        vrows, vcols, vrowmajor = plain_of(n)
        rest = args[1:]
        outer = inner = None
        if rest and ((strip_casts(rest[-1]).get("t") or {}).get("tmpl") in ("OuterStride", "InnerStride", "Stride")
                     or (strip_casts(rest[-1]).get("k") == "var" and ((find_decl(f, strip_casts(rest[-1]).get("id")) or {}).get("ty") or {}).get("tmpl") in ("OuterStride", "InnerStride", "Stride"))):
            outer, inner = stride_of(rest[-1], f, F)
            rest = rest[:-1]
        rows_txt = "static %d" % vrows if vrows >= 0 else (pp(rest[0]) if rest else "?")
        ot = (obj or {}).get("t") or {}
        if ot.get("c") == "eigen":
            ucols, urowmajor = ot.get("cols"), bool((ot.get("opts") or 0) & 1)
            if ucols is None or ucols < 0:
                raise Broken("raw view of an object with a dynamic number of columns at %s" % loc(f, n))
        elif ot.get("std") in ("vector", "array") or ot.get("c") == "ptr":
            ucols, urowmajor = 1, False
        else:
            raise Broken("raw view of %s at %s" % (pp(obj)[:60], loc(f, n)))
        if vcols < 0:
            raise Broken("raw view with a dynamic number of columns at %s" % loc(f, n))
        if ucols == 1:
            if vcols == 1 and not vrowmajor:
                a, b = off, (inner if inner is not None else 1)     # one column, column-major: the outer stride is never used
            elif vcols == 1:
                a, b = off, (outer if outer is not None else 1)
            elif vrows == 1:
                a, b = off, (inner if inner is not None else 1)     # a row vector over a flat run
            else:
                raise Broken("raw view reshapes a single column at %s" % loc(f, n))
        else:
            if inner not in (None, 1):
                raise Broken("raw view with an inner stride over a multi-column object at %s" % loc(f, n))
            if not urowmajor or not vrowmajor or vcols != ucols:
                raise Broken("raw view over a %s-major %d-column object with a %s-major %d-column view at %s" % (
                    "row" if urowmajor else "column", ucols, "row" if vrowmajor else "column", vcols, loc(f, n)))
            s = outer if outer is not None else vcols
            if off % ucols or s % ucols:
                raise Broken("raw view not aligned to whole rows (offset %d, stride %d, %d columns) at %s" % (off, s, ucols, loc(f, n)))
            a, b = off // ucols, s // ucols
        out.append((n, pp(obj), a, b, rows_txt))
    for n in walk(f.get("body")):
        if is_eigen_data_call(n) and id(n) not in consumed:
            raise Broken("data() on an Eigen object outside a resolved view in %s at %s (%s)" % (f["full"][:100], loc(f, n), pp(n)[:60]))
    return out
