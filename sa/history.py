"""History-dependent size guards in the solver routines.

A routine that keeps a scratch buffer as a member may test the size the buffer was left with by an earlier call
(`if (buf.rows() < n) buf.resize(n, DIM)`).  Which way that test goes is not a function of the current inputs: both
outcomes occur for valid call sequences.  A check that turns this mode on interprets the solver once per outcome and
requires its rules on every one; with the mode off such a guard stays an undecided branch (analysis-broken).
"""
import contextlib

import sympy as sp

_STATE = {"on": False, "script": {}, "seen": []}


def is_history_guard(c, interp):
    """a comparison whose symbols are integers and include the row / element count of a class member"""
    c = sp.sympify(c)
    if not isinstance(c, sp.core.relational.Relational) or c.has(sp.Indexed):
        return False
    syms = c.free_symbols
    if not syms or any(not s_.is_integer for s_ in syms):
        return False
    fields = set(getattr(interp, "field_names", lambda: [])())
    for s_ in syms:
        nm = s_.name
        for suf in (".rows", ".size", ".cols"):
            if nm.endswith(suf) and nm[:-len(suf)] in fields:
                return True
    return False


def oracle(node, c, interp):
    if not _STATE["on"] or not is_history_guard(c, interp):
        return None
    key = str(sp.sympify(c).canonical)
    if key not in _STATE["seen"]:
        _STATE["seen"].append(key)
    return _STATE["script"].get(key, True)


def active():
    return _STATE["on"]


@contextlib.contextmanager
def exploring(script=None):
    old = dict(_STATE)
    _STATE.update({"on": True, "script": dict(script or {}), "seen": []})
    try:
        yield _STATE
    finally:
        seen = list(_STATE["seen"])
        _STATE.update(old)
        _STATE["last_seen"] = seen


class Tagged:
    """obligations recorded under a scenario tag (the rest of the check object is shared)"""

    def __init__(self, chk, tag):
        self.__dict__["_chk"], self.__dict__["_tag"] = chk, tag

    def ob(self, rule, instance, ok, where="", detail="", construct=None):
        return self._chk.ob(rule, instance + self._tag, ok, where, detail, (construct or instance) + self._tag)

    def __getattr__(self, k):
        return getattr(self._chk, k)

    def __setattr__(self, k, v):
        setattr(self._chk, k, v)


def for_each_outcome(chk, fn):
    """fn(chk) once with every history-dependent size guard taken (the buffer is smaller than needed, as on a fresh
    object), then once more per guard met, with that guard not taken (the buffer was left larger by an earlier, larger
    problem); the obligations of the extra runs carry the scenario in their name."""
    if _STATE["on"]:
        return fn(chk)           # already inside an exploration (a rule re-derived by another check)
    with exploring() as st:
        fn(chk)
        seen = list(st["seen"])
    for key in seen:
        with exploring({key: False}):
            fn(Tagged(chk, " [member buffer kept from an earlier call: not (%s)]" % key))
