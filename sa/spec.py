"""Reference side of the algebraic obligations (DESIGN s5.3), generated with sympy from first
principles - never transcribed from the code - plus a self-check of the variational formulas."""
import sympy as sp
from sympy import Integer, Rational, factorial

from . import sym
from .sym import Vec, vdot

t = sp.Symbol("t", real=True)


def ff(n, k):
    """falling factorial n!/(n-k)!  (0 when k > n)"""
    if k > n:
        return Integer(0)
    return factorial(n) / factorial(n - k)


def coeff_atoms(name, base, K):
    """Vec atoms c_0..c_{K-1} = rows base+k of container `name`."""
    return [Vec.atom((name, sp.expand(base + k))) for k in range(K)]


def deriv_at(cs, d, tt):
    """p^(d)(tt) for p(t) = sum c_k t^k with formal vector coefficients."""
    v = Vec()
    for k, c in enumerate(cs):
        if k >= d:
            v = v.add(c.scale(ff(k, d) * sp.sympify(tt) ** (k - d)))
    return v


def energy_form(cs, s, T):
    """integral_0^T |p^(s)|^2 dt as a quadratic form in dot symbols."""
    tau = sp.Symbol("tau_int", real=True)
    ps = deriv_at(cs, s, tau)
    integrand = sp.expand(vdot(ps, ps))
    return sp.expand(sp.integrate(integrand, (tau, 0, T)))


def energy_grad_coeff(cs, s, T, k):
    """d/dc_k of the energy form: 2 sum_b G_kb c_b  as a Vec."""
    tau = sp.Symbol("tau_int", real=True)
    v = Vec()
    for b, cb in enumerate(cs):
        if k >= s and b >= s:
            g = sp.integrate(ff(k, s) * ff(b, s) * tau ** (k + b - 2 * s), (tau, 0, T))
            v = v.add(cb.scale(2 * g))
    return v


def hamiltonian(cs, s, tt):
    """H = -|p^(s)|^2 + 2 sum_{k=1}^{s-1} (-1)^(k+1) p^(s-k).p^(s+k); dE/dT_i = H on segment i."""
    ps = deriv_at(cs, s, tt)
    h = -vdot(ps, ps)
    for k in range(1, s):
        h += 2 * (-1) ** (k + 1) * vdot(deriv_at(cs, s - k, tt), deriv_at(cs, s + k, tt))
    return sp.expand(h)


def boundary_grad(cs, s, m, tt, end):
    """dE/d(p^(m) at a trajectory end): -/+ 2 (-1)^(s-1-m) p^(2s-1-m)."""
    sign = 1 if end else -1
    return deriv_at(cs, 2 * s - 1 - m, tt).scale(sign * 2 * (-1) ** (s - 1 - m))


def inner_point_grad(cs_left, cs_right, s, T_left):
    """dE/dP at an interior knot = 2(-1)^s (p_R^(2s-1)(0) - p_L^(2s-1)(T_L))."""
    return deriv_at(cs_right, 2 * s - 1, 0).add(deriv_at(cs_left, 2 * s - 1, T_left), -1).scale(2 * (-1) ** s)


_CHECKED = {}


def self_check(s):
    """Validate the variational formulas used above (not the code):
    (a) integration-by-parts identity for polynomials of degree 2s-1,
    (b) dE/dT = H and dE/d(boundary) for the dense symbolic single-segment minimiser."""
    if s in _CHECKED:
        return _CHECKED[s]
    K = 2 * s
    T = sp.Symbol("T", positive=True)
    a = sp.symbols("a0:%d" % K, real=True)
    b = sp.symbols("b0:%d" % K, real=True)
    p = sum(a[k] * t ** k for k in range(K))
    q = sum(b[k] * t ** k for k in range(K))
    lhs = sp.integrate(sp.expand(sp.diff(p, t, s) * sp.diff(q, t, s)), (t, 0, T))
    rhs = 0
    for k in range(s):
        term = sp.diff(p, t, s + k) * sp.diff(q, t, s - 1 - k)
        rhs += (-1) ** k * (term.subs(t, T) - term.subs(t, 0))
    ok_a = sp.expand(lhs - rhs) == 0
    # (b) single segment, 1-D: Hermite data x0..x_{s-1} at 0 and y0..y_{s-1} at T
    x = sp.symbols("x0:%d" % s, real=True)
    y = sp.symbols("y0:%d" % s, real=True)
    c = sp.symbols("c0:%d" % K, real=True)
    pc = sum(c[k] * t ** k for k in range(K))
    eqs = []
    for d in range(s):
        eqs.append(sp.diff(pc, t, d).subs(t, 0) - x[d])
        eqs.append(sp.diff(pc, t, d).subs(t, T) - y[d])
    sol = sp.solve(eqs, c, dict=True)[0]
    pcs = pc.subs(sol)
    E = sp.integrate(sp.expand(sp.diff(pcs, t, s) ** 2), (t, 0, T))
    # total derivative w.r.t. T with the end data fixed
    dE_dT = sp.simplify(sp.diff(E, T))
    H = -sp.diff(pcs, t, s) ** 2
    for k in range(1, s):
        H += 2 * (-1) ** (k + 1) * sp.diff(pcs, t, s - k) * sp.diff(pcs, t, s + k)
    ok_b = sp.simplify(dE_dT - H.subs(t, 0)) == 0 and sp.simplify(dE_dT - H.subs(t, T)) == 0
    ok_c = True
    for m in range(s):
        g0 = sp.simplify(sp.diff(E, x[m]) - (-2 * (-1) ** (s - 1 - m) * sp.diff(pcs, t, 2 * s - 1 - m).subs(t, 0)))
        g1 = sp.simplify(sp.diff(E, y[m]) - (2 * (-1) ** (s - 1 - m) * sp.diff(pcs, t, 2 * s - 1 - m).subs(t, T)))
        ok_c = ok_c and g0 == 0 and g1 == 0
    _CHECKED[s] = bool(ok_a and ok_b and ok_c)
    return _CHECKED[s]
