"""Engine E (part 3): definedness of the optimizer's workspace buffers within one evaluation.

A structured forward dataflow over evaluate() (statement-level calls into other optimizer member functions are
followed in place): per Workspace field the state is U (holds whatever an earlier problem left), P (defined on some
paths / in some elements only) or D (wholly defined by this evaluation).  Whole definitions are the idioms the code
uses - direct assignment, setZero/fill, std::fill over [begin, end), a full-range element loop whose trip count is
the size given to the buffer by Workspace::resize, SplineType::update on the spline member, and being handed as a
non-const out-parameter to a spline method (what the callee does with it is C10-R1's business).  A read in state U or
P is reported, except the re-read of exactly the element written earlier in the same block.
"""
from .facts import CHILD_ORDER, pp

ELEM = {"operator[]", "operator()", "row", "col", "segment", "block", "head", "tail", "middleRows", "topRows", "bottomRows",
        "coeffRef", "at", "leftCols", "rightCols", "middleCols", "transpose", "array", "matrix", "noalias"}
SETTERS = {"setZero", "setConstant", "setOnes", "fill", "setIdentity"}
SIZEQ = {"size", "rows", "cols", "empty"}


def norm_size(s, count_member="num_segments_"):
    # the optimizer's segment count and the parameter of Workspace::resize it is handed to denote the same size
    return s.replace("this->", "").replace("this.", "").replace(count_member, "<N>").replace("num_segments", "<N>").replace(" ", "").strip("()")


class WsDef:
    def __init__(self, F, cls, wsrec, spline_cls, sizes):
        self.F, self.cls, self.wsrec, self.spline_cls = F, cls, wsrec, spline_cls
        self.sizes = sizes                     # field -> pp of the first resize argument in Workspace::resize
        self.fields = [x["name"] for x in F.record(wsrec)["fields"]]
        self.state = {x: "U" for x in self.fields}
        self.idx = {x: set() for x in self.fields}
        self.problems = []
        self.defs = {}                         # field -> (node, how, fn) of the whole definition in force
        self.mentions = {x: 0 for x in self.fields}
        self.deferred = {}                     # var id -> lambda node
        self.fn_stack = []
        self.inlined = []
        self.cur_line = None
        self.alias = {}                        # id of a by-reference parameter / local reference -> workspace field it denotes
        self.carrying = set()                  # fields that receive results through out-parameters / accumulation
        self.pending = {}                      # field -> (node, fn) of the latest write nothing has read yet
        self.count_member = "num_segments_"    # the optimizer's segment-count member (callers set the discovered name)

    # ---- helpers ---------------------------------------------------------------------------------------
    def field_of(self, n):
        """Workspace field named by a (possibly nested) member expression or by a reference bound to one, else None."""
        while isinstance(n, dict) and n.get("k") == "mem":
            if n.get("cls") == self.wsrec:
                return n["field"]
            n = n.get("base")
        if isinstance(n, dict) and n.get("k") == "var" and n.get("id") in self.alias:
            return self.alias[n["id"]]
        return None

    def is_direct(self, n):
        """the expression denotes the whole field itself (not a sub-member or element)"""
        return isinstance(n, dict) and ((n.get("k") == "mem" and n.get("cls") == self.wsrec) or (n.get("k") == "var" and n.get("id") in self.alias))

    def strip_elem(self, n):
        """(base expression, partial?, index text, accessor arguments)"""
        partial, idx, args = False, None, []
        while isinstance(n, dict):
            if n.get("k") == "call" and n.get("obj") is not None and n.get("callee", {}).get("name") in ELEM:
                partial = True
                if idx is None:
                    idx = ",".join(pp(a) for a in n.get("args", []))
                args += n.get("args", [])
                n = n["obj"]
            elif n.get("k") == "subscript":
                partial = True
                if idx is None:
                    idx = pp(n["idx"])
                args.append(n["idx"])
                n = n["base"]
            elif n.get("k") in ("cast", "conv") and (n.get("e") or n.get("obj")):
                n = n.get("e") or n.get("obj")
            else:
                break
        if isinstance(n, dict) and n.get("k") == "mem" and n.get("cls") != self.wsrec and self.field_of(n) is not None:
            partial = True                     # a sub-member of a struct-valued field
        return n, partial, idx, args

    def cur(self):
        return self.fn_stack[-1] if self.fn_stack else None

    def read(self, fld, node, idx=None):
        self.mentions[fld] += 1
        self.pending.pop(fld, None)
        st = self.state[fld]
        if st == "D":
            return
        if st == "P" and idx is not None and idx in self.idx[fld]:
            return
        if isinstance(node, dict) and node.get("line") is None and self.cur_line is not None:
            node = dict(node, line=self.cur_line)
        self.problems.append({"field": fld, "node": node, "fn": self.cur(), "state": st,
                              "what": "%s is read %s" % (fld, "before this evaluation has defined it" if st == "U" else "while this evaluation has defined it only on some paths / for some elements")})

    def write(self, fld, node, whole, idx=None, how=""):
        self.mentions[fld] += 1
        if isinstance(node, dict) and node.get("line") is None and self.cur_line is not None:
            node = dict(node, line=self.cur_line)
        self.pending[fld] = (node, self.cur())
        if how.startswith("out-parameter") or how == "accumulation":
            self.carrying.add(fld)
        if whole:
            self.state[fld] = "D"
            self.defs[fld] = (node, how, self.cur())
        elif self.state[fld] != "D":
            self.state[fld] = "P"
            if idx is not None:
                self.idx[fld].add(idx)

    # ---- expressions -----------------------------------------------------------------------------------
    def scan(self, n):
        if isinstance(n, list):
            for x in n:
                self.scan(x)
            return
        if not isinstance(n, dict):
            return
        k = n.get("k")
        if k == "lambda":
            self.scan_lambda(n)
            return
        if k == "var" and n.get("id") in self.deferred:
            lam = self.deferred[n["id"]]
            self.scan_lambda(lam)
            return
        if k == "assign":
            self.scan_assign(n["l"], n["r"], n.get("op", "="), n)
            return
        if k == "call":
            c = n.get("callee", {})
            nm = c.get("name")
            obj = n.get("obj")
            if c.get("op") == "=" and obj is not None and len(n.get("args", [])) == 1:
                self.scan_assign(obj, n["args"][0], "=", n)
                return
            if c.get("op") in ("+=", "-=", "*=", "/=") and obj is not None:
                self.scan(n.get("args", []))
                self.scan(obj)
                base, partial, idx, iargs = self.strip_elem(obj)
                fld = self.field_of(base)
                if fld is not None:
                    self.write(fld, n, False, idx, how="accumulation")
                    self.mentions[fld] -= 1
                return
            if obj is not None and nm in SETTERS:
                base, partial, idx, iargs = self.strip_elem(obj)
                fld = self.field_of(base)
                if fld is not None:
                    self.scan(iargs)
                    self.scan(n.get("args", []))
                    self.write(fld, n, not partial, idx, how=nm)
                    return
            if obj is not None and nm in SIZEQ and self.field_of(obj) is not None and self.is_direct(obj):
                return
            if nm == "fill" and c.get("ns") == "std" and len(n.get("args", [])) == 3:
                a, b = n["args"][0], n["args"][1]
                fa = a.get("k") == "call" and a.get("callee", {}).get("name") == "begin" and self.field_of(a.get("obj"))
                fb = b.get("k") == "call" and b.get("callee", {}).get("name") == "end" and self.field_of(b.get("obj"))
                if fa and fa == fb and self.is_direct(a["obj"]):
                    self.scan(n["args"][2])
                    self.write(fa, n, True, how="std::fill")
                    return
            if obj is not None and nm == "update" and c.get("cls") == self.spline_cls and self.field_of(obj) is not None and self.is_direct(obj):
                self.scan(n.get("args", []))
                self.write(self.field_of(obj), n, True, how="update")
                return
            if c.get("cls") == self.spline_cls and c.get("repo"):
                pm = c.get("pm", [])
                outs = []
                for i, a in enumerate(n.get("args", [])):
                    fld = self.field_of(a) if self.is_direct(a) else None
                    if fld is not None and i < len(pm) and pm[i] == "ref":
                        outs.append(fld)
                    else:
                        self.scan(a)
                if obj is not None:
                    self.scan(obj)
                for fld in outs:
                    self.write(fld, n, True, how="out-parameter of %s::%s" % (self.spline_cls.split("::")[-1], nm))
                return
            # calls into the optimizer's own code (member functions, lambdas): arguments, then the body's accesses
            self.scan(obj)
            self.scan(n.get("args", []))
            pm = c.get("pm", [])
            for i, a in enumerate(n.get("args", [])):
                if self.is_direct(a) and i < len(pm) and pm[i] == "ref":
                    # handed to a callee (cost functor, accumulating helper) as a mutable out-parameter: it comes back modified
                    self.write(self.field_of(a), n, False, how="out-parameter")
                    self.mentions[self.field_of(a)] -= 1
            fid = c.get("fid")
            if fid is not None and c.get("repo"):
                g = self.F.by_fid.get(fid) if hasattr(self.F, "by_fid") else None
                if g is not None and g.get("cls") == self.cls and g.get("body") and fid not in self.inlined:
                    self.inlined.append(fid)
                    self.fn_stack.append(g)
                    saved = dict(self.state)
                    self.stmts(g["body"].get("body", []), loop=True)
                    self.merge_loop(saved)
                    self.fn_stack.pop()
                    self.inlined.pop()
            return
        if k == "mem":
            fld = self.field_of(n)
            if fld is not None:
                self.read(fld, n)
                return
        if k == "var" and n.get("id") in self.alias:
            self.read(self.alias[n["id"]], n)
            return
        base, partial, idx, iargs = (n, False, None, [])
        if k == "subscript":
            base, partial, idx, iargs = self.strip_elem(n)
            fld = self.field_of(base)
            if fld is not None:
                self.scan(iargs)
                self.read(fld, n, idx)
                return
        for key in CHILD_ORDER.get(k, sorted(n.keys())):
            v = n.get(key)
            if isinstance(v, (dict, list)):
                self.scan(v)

    def scan_elem_read(self, n):
        base, partial, idx, iargs = self.strip_elem(n)
        fld = self.field_of(base)
        if fld is not None and partial:
            self.scan(iargs)
            self.read(fld, n, idx)
            return True
        return False

    def scan_assign(self, l, r, op, node):
        base, partial, idx, iargs = self.strip_elem(l)
        fld = self.field_of(base)
        if fld is None:
            self.scan(r)
            self.scan(l)
            return
        self.scan(iargs)
        self.scan(r)
        if op != "=":
            self.read(fld, node, idx)
            self.write(fld, node, False, idx, how="accumulation")
            self.mentions[fld] -= 1
            return
        self.write(fld, node, not partial, idx, how="assignment")

    def scan_lambda(self, lam):
        for sp in lam.get("specs", []) or []:
            b = sp.get("body")
            if b is None:
                continue
            saved = dict(self.state)
            self.stmts(b.get("body", []) if b.get("k") == "block" else [b], loop=True)
            self.merge_loop(saved)

    def merge_loop(self, saved):
        """A body that may run zero or several times: whole definitions inside it do not count afterwards."""
        for fld in self.fields:
            self.idx[fld] = set()
            if saved[fld] != "D" and self.state[fld] != saved[fld]:
                self.state[fld] = "P"
            elif saved[fld] == "D":
                self.state[fld] = "D"

    # ---- statements -----------------------------------------------------------------------------------
    def stmts(self, body, loop=False):
        for s in body:
            self.stmt(s)

    def stmt(self, s):
        if not isinstance(s, dict):
            return
        k = s.get("k")
        if s.get("line") is not None and k not in ("block", "if", "for", "rfor", "while"):
            self.cur_line = s["line"]
        if k == "block":
            self.stmts(s.get("body", []))
        elif k == "omp":
            self.stmt(s.get("body"))
        elif k == "if":
            self.scan(s.get("init"))
            if s.get("constexpr") and s.get("taken"):
                br = s.get(s["taken"])
                if br is not None:
                    self.stmt(br)
                return
            self.scan(s.get("cond"))
            if self.premise_true(s.get("cond")):
                # "at least one segment" is a premise of every evaluation (validated before evaluate() may run): the
                # guarded statements always execute
                self.stmt(s.get("then"))
                return
            before = dict(self.state)
            bidx = {f: set(v) for f, v in self.idx.items()}
            self.stmt(s.get("then"))
            a = dict(self.state)
            self.state = dict(before)
            self.idx = bidx
            if s.get("else") is not None:
                self.stmt(s["else"])
            b = self.state
            self.state = {f: (a[f] if a[f] == b[f] else "P") for f in self.fields}
        elif k in ("for", "rfor", "while"):
            flds = (self.full_range_def(s) + self.recurrence_def(s)) if k == "for" else []
            self.scan(s.get("init"))
            self.scan(s.get("range"))
            self.scan(s.get("cond"))
            saved = dict(self.state)
            for fld in flds:
                self.state[fld[0]] = "D"
                self.defs[fld[0]] = (fld[1], "full-range element loop", self.cur())
                saved[fld[0]] = "D"
                self.mentions[fld[0]] += 1
            body = s.get("body")
            self.stmt(body)
            self.scan(s.get("inc"))
            self.merge_loop(saved)
        elif k == "decl":
            init = s.get("init")
            if isinstance(init, dict) and init.get("k") == "lambda":
                self.deferred[s["id"]] = init
                return
            self.scan(init)
        elif k == "expr":
            e = s.get("e")
            c = e.get("callee", {}) if isinstance(e, dict) and e.get("k") == "call" else {}
            g = self.F.by_fid.get(c.get("fid")) if c.get("repo") and c.get("fid") is not None else None
            if g is not None and g.get("cls") == self.cls and g.get("kind") == "method" and g.get("body") and c.get("fid") not in self.inlined and any(
                    ((a.get("t") or {}).get("n") == self.wsrec) or self.is_direct(a) for a in e.get("args", []) if isinstance(a, dict)):
                # statement-level call that hands the workspace (or some of its buffers, by reference) on: continue the
                # flow inside the callee, its reference parameters standing for the buffers
                self.scan(e.get("obj"))
                pm = c.get("pm", [])
                bound = []
                for i, a in enumerate(e.get("args", [])):
                    if self.is_direct(a) and i < len(pm) and pm[i] in ("ref", "cref") and i < len(g["params"]):
                        self.alias[g["params"][i]["id"]] = self.field_of(a)
                        bound.append(g["params"][i]["id"])
                    else:
                        self.scan(a)
                self.inlined.append(c["fid"])
                self.fn_stack.append(g)
                self.stmts(g["body"].get("body", []))
                self.fn_stack.pop()
                self.inlined.pop()
                return
            flds = self.executor_def(e)
            saved = dict(self.state)
            for fld in flds:
                self.state[fld[0]] = "D"
                self.defs[fld[0]] = (fld[1], "per-index callable run by the executor over the full range", self.cur())
                self.mentions[fld[0]] += 1
            self.scan(e)
            for fld in flds:
                self.state[fld[0]] = "D"
        elif k == "return":
            self.scan(s.get("e"))
        else:
            for key in CHILD_ORDER.get(k, sorted(s.keys())):
                v = s.get(key)
                if isinstance(v, (dict, list)):
                    self.scan(v)

    def full_range_def(self, s):
        """for (int i = 0; i < SIZE; ++i) { B[i] = <no B>; ... } with SIZE the size Workspace::resize gives B."""
        init, cond, inc = s.get("init"), s.get("cond"), s.get("inc")
        if not (isinstance(init, dict) and init.get("k") == "decl" and pp(init.get("init")) == "0"):
            return []
        var = init["id"]
        if not (isinstance(cond, dict) and cond.get("k") == "bin" and cond.get("op") == "<" and cond["l"].get("k") == "var" and cond["l"].get("id") == var):
            return []
        if not (isinstance(inc, dict) and "++" in pp(inc)):
            return []
        body = s.get("body")
        body = body.get("body", []) if isinstance(body, dict) and body.get("k") == "block" else [body]
        return self.element_defs(var, pp(cond["r"]), body)

    def premise_true(self, cond):
        """num_segments_ > 0 in any spelling, on the optimizer's own segment count"""
        c = cond
        while isinstance(c, dict) and c.get("k") in ("cast", "conv", "paren") and c.get("e") is not None:
            c = c["e"]
        if not (isinstance(c, dict) and c.get("k") == "bin"):
            return False
        l, r, op = pp(c["l"]), pp(c["r"]), c.get("op")
        cnt = ("this." + self.count_member, self.count_member)
        return ((l in cnt and ((op == ">" and r == "0") or (op == ">=" and r == "1") or (op == "!=" and r == "0")))
                or (r in cnt and ((op == "<" and l == "0") or (op == "<=" and l == "1") or (op == "!=" and l == "0"))))

    def recurrence_def(self, s):
        """B[0] = ...;  for (int i = 1; i < SIZE; ++i) B[i] = <B only as B[i - 1]>;  element 0 was stored by this evaluation,
        every further element is computed from its predecessor: the whole array is defined."""
        init, cond, inc = s.get("init"), s.get("cond"), s.get("inc")
        if not (isinstance(init, dict) and init.get("k") == "decl" and pp(init.get("init")) == "1"):
            return []
        var = init["id"]
        if not (isinstance(cond, dict) and cond.get("k") == "bin" and cond.get("op") == "<" and cond["l"].get("k") == "var" and cond["l"].get("id") == var):
            return []
        if not (isinstance(inc, dict) and "++" in pp(inc)):
            return []
        body = s.get("body")
        body = body.get("body", []) if isinstance(body, dict) and body.get("k") == "block" else [body]
        vname = init.get("name")
        out = []
        from .facts import walk
        for st in body:
            if not (isinstance(st, dict) and st.get("k") == "expr"):
                continue
            e = st["e"]
            l = r = None
            if e.get("k") == "assign" and e.get("op") == "=":
                l, r = e["l"], e["r"]
            if l is None:
                continue
            base, partial, idx, iargs = self.strip_elem(l)
            fld = self.field_of(base)
            if not (fld is not None and partial and self.is_direct(base) and len(iargs) == 1 and iargs[0].get("k") == "var" and iargs[0].get("id") == var):
                continue
            if not (self.state.get(fld) == "P" and "0" in self.idx.get(fld, set()) and norm_size(pp(cond["r"]), self.count_member) == norm_size(self.sizes.get(fld, "?"), self.count_member)):
                continue
            ok = True
            for x in walk(r):
                if x.get("k") in ("subscript", "call"):
                    b2, p2, i2, a2 = self.strip_elem(x)
                    if p2 and self.field_of(b2) == fld:
                        if not (len(a2) == 1 and pp(a2[0]).replace(" ", "") in ("(%s-1)" % vname, "%s-1" % vname)):
                            ok = False
            if ok:
                out.append((fld, st))
        return out

    def executor_def(self, e):
        """executor(0, SIZE, [&](int i) { ...; B[i] = <no B>; ... }): by the executor contract (C12's trusted base) the
        callable runs once for every index of [0, SIZE)."""
        if not (isinstance(e, dict) and e.get("k") == "call" and e.get("callee", {}).get("op") == "()" and len(e.get("args", [])) == 3):
            return []
        obj = e.get("obj")
        while isinstance(obj, dict) and obj.get("k") in ("cast", "conv"):
            obj = obj.get("e") or obj.get("obj")
        if not (isinstance(obj, dict) and obj.get("k") == "var" and obj.get("vk") == "param"):
            return []
        a0, a1, lam = e["args"]
        if isinstance(lam, dict) and lam.get("k") == "var" and lam.get("id") in self.deferred:
            lam = self.deferred[lam["id"]]
        if pp(a0) != "0" or not (isinstance(lam, dict) and lam.get("k") == "lambda"):
            return []
        out = []
        for sp in lam.get("specs", []) or []:
            ps = sp.get("params", [])
            b = sp.get("body")
            if len(ps) != 1 or b is None:
                return []
            got = self.element_defs(ps[0]["id"], pp(a1), b.get("body", []))
            out = got if not out else [g for g in out if g[0] in {x[0] for x in got}]
        return out

    def element_defs(self, var, bound, body):
        seen = set()
        out = []
        for st in body:
            if isinstance(st, dict) and st.get("k") == "expr":
                e = st["e"]
                l = r = None
                if e.get("k") == "assign" and e.get("op") == "=":
                    l, r = e["l"], e["r"]
                elif e.get("k") == "call" and e.get("callee", {}).get("op") == "=" and e.get("obj") is not None:
                    l, r = e["obj"], e["args"][0]
                if l is not None:
                    base, partial, idx, iargs = self.strip_elem(l)
                    fld = self.field_of(base)
                    if fld is not None and partial and self.is_direct(base) and len(iargs) == 1 and iargs[0].get("k") == "var" and iargs[0].get("id") == var \
                            and fld not in seen and fld not in self.fields_in(r) and norm_size(bound, self.count_member) == norm_size(self.sizes.get(fld, "?"), self.count_member):
                        out.append((fld, st))
            seen |= self.fields_in(st)
        return out

    def fields_in(self, n):
        from .facts import walk
        out = set()
        for x in walk(n):
            if x.get("k") == "mem" and x.get("cls") == self.wsrec:
                out.add(x["field"])
            elif x.get("k") == "var" and x.get("id") in self.alias:
                out.add(self.alias[x["id"]])
        return out
