"""C05 - gradient propagation is the exact adjoint of the spline construction map (DESIGN s6 C05).

Oracle: reverse-mode differentiation of the code's own forward summaries (closure rows of C01, block
rows of C02), which C01/C02 tie to the mathematics.
R1 local pull-back tables = (dF/d(P_i,P_i+1,x_i,x_i+1))^T      R2 explicit-duration term = sum_k g_k . dF_k/dh
R3 transposed (block) Thomas solve with the caches of the forward pass
R4 system-derivative tables (d row/dh_L, d row/dh_R, d row/dP)     R5 boundary-state gradients
R7 outputs are assigned / zeroed before accumulation and are homogeneous of degree 1 in the upstream gradient.
(R6, the aggregated Lagrangian on small instances, is not built: DESIGN s2.2 / s10 fallback.)
"""
import sympy as sp
from sympy import Integer

from ..facts import Broken, pp, loc, walk
from .. import sym, spec, blocks, regions, history
from ..sym import Interp, Unsupported, Vec, SmallMat, BlockVec, Container, Struct
from ..model import spline_model
from ..blocks import BlockRun, CASES
from .common import facts_for, alg_classes, SPLINES
from . import c01, c02
from .c02 import norm_vec, sub_vec, vec_zero, strip_tag

STATE = ["p", "v", "a", "j"]


def run_adjoint(F, M, kind, size=None, resolver=None):
    f = F.func1(M.cls, "propagateGradInternal")
    I = Interp(F, M.cls)
    I.case = dict(CASES[kind])
    if size is not None:
        I.case["size"] = size
    if resolver is not None:
        I.size_resolver = resolver
    if history.active():
        I.path_oracle = history.oracle
    I.field_assumptions[M.m_count] = {"positive": True}
    env = {}
    for p in f["params"]:
        env[p["id"]] = I.make_value(p["name"], p["ty"])
    I.run_body(f, env)
    return f, I, env


def expand_dots(e, fn):
    """Rewrite every bilinear atom <a|b> with both sides expanded by fn(Vec)->Vec."""
    e = sp.sympify(e)
    rep = {}
    for s_, (a, b) in sym.dots_in(e).items():
        rep[s_] = sym.vdot(fn(Vec.atom(a)), fn(Vec.atom(b)))
    return sp.expand(e.xreplace(rep)) if rep else sp.expand(e)


def rebind_effect(e, old, new):
    """the same effect with the loop variable renamed (for fusing loops over the same range)"""
    def sub(x):
        if isinstance(x, Vec):
            out = Vec()
            for a, c in x.t.items():
                a2 = (a[0],) + tuple(sp.expand(sp.sympify(i_).xreplace({old: new})) if not isinstance(i_, str) else i_ for i_ in a[1:])
                out = out.add(Vec({a2: sp.sympify(c).xreplace({old: new})}))
            return out
        if isinstance(x, sp.Basic):
            return x.xreplace({old: new})
        return x
    e2 = sym.Effect(e.target, tuple(sub(sp.sympify(k)) if not isinstance(k, str) else k for k in e.key), e.op, sub(e.value), e.guards, e.line, sub(e.delta) if e.delta is not None else None)
    for attr in ("seq",):
        if hasattr(e, attr):
            setattr(e2, attr, getattr(e, attr))
    return e2


def increment_of(e):
    """signed increment of an effect: its recorded delta, or - for a read-modify-write through a local
    (acc = A[k]; acc += ...; A[k] = acc) - the stored value minus the slot's own value at iteration start"""
    d = e.delta
    if d is None and e.op == "=":
        if isinstance(e.value, sp.Basic):
            own = [a for a in e.value.atoms(sp.Indexed) if str(a.base).split("#")[0] == e.target and len(a.indices) == len(e.key)
                   and all(sym.is_zero(i_ - k_) for i_, k_ in zip(a.indices, e.key))]
            if len(own) == 1 and sym.is_zero(sp.diff(sp.expand(e.value), own[0]) - 1):
                d = sp.expand(e.value - own[0])
        elif isinstance(e.value, Vec):
            own = [a for a in e.value.t if str(a[0]).split("#")[0] == e.target and len(a) - 1 == len(e.key) and all(sym.is_zero(sp.sympify(i_) - k_) for i_, k_ in zip(a[1:], e.key))]
            if len(own) == 1 and sym.is_zero(e.value.t[own[0]] - 1):
                d = e.value.add(Vec.atom(own[0]), -1)
    return d


def total_delta(effs):
    """sum of the signed increments of accumulating effects (Vec or scalar)"""
    tot = None
    for e in effs:
        d = increment_of(e)
        if d is None:
            raise Broken("effect on %s%s is not an accumulation with a known increment" % (e.target, e.key))
        tot = d if tot is None else (tot.add(d) if isinstance(d, Vec) else tot + d)
    return tot


def group(effs):
    out = {}
    for e in effs:
        key = (e.target,) + tuple(sp.expand(k) if not isinstance(k, str) else k for k in e.key)
        out.setdefault(key, []).append(e)
    return out


def point_slot(M, names, idx, var, kind, n, which):
    """storage slot of the gradient w.r.t. waypoint `idx` in the given iteration kind of loop variable var"""
    first_idx = sp.expand(idx.subs(var, which["first_val"]))
    last_idx = sp.expand(idx.subs(var, which["last_val"]))
    if kind in ("first", "single") and first_idx == 0:
        return (names["start"] + ".p",)
    if kind in ("last", "single") and sym.is_zero(last_idx - n):
        return (names["end"] + ".p",)
    return (names["inner"], sp.expand(idx - 1))


def run(chk):
    F = facts_for(chk)
    for short in SPLINES:
        for cls in alg_classes(F, short, ("update", "propagateGrad")):
            M = spline_model(F, cls)
            check_class(chk, F, M, short)
    chk.floor("C05-R1", 60)
    chk.floor("C05-R2", 12)
    chk.floor("C05-R3", 10)
    chk.floor("C05-R4", 30)
    chk.floor("C05-R5", 12)
    chk.floor("C05-R7", 20)
    chk.not_decided = ["rounding", "singular pivots", "R6 (aggregated Lagrangian over whole trajectories) is not checked: the local tables, the transposed solve and the "
                       "system-derivative tables are each compared with the derivative of the forward summaries, their composition is the textbook adjoint identity (DESIGN s5.4)"]
    chk.trusted += ["adjoint (Lagrangian) identity: dObj/dtheta = direct term - lambda^T dE/dtheta with A^T lambda = g (DESIGN s5.4)",
                    "forward summaries are the ones verified by C01 (closure) and C02 (system rows, Thomas caches)"]


def check_class(chk, F, M, short, zero_rows=()):
    """once per outcome of every history-dependent size guard in the solver / adjoint (sa/history.py)"""
    history.for_each_outcome(chk, lambda c_: check_class_once(c_, F, M, short, zero_rows))


def check_class_once(chk, F, M, short, zero_rows=()):
    """zero_rows: rows c_k of the upstream coefficient gradient assumed identically zero (used by C06-R7: the energy
    partials never populate rows k < s); residuals are compared modulo those rows."""
    cls = M.cls
    s, K = M.s, M.K
    n = sp.Symbol(M.m_count, integer=True, positive=True)
    I0, Lc, rows = c01.closure_rows(F, M)
    ci = Lc.var
    roles = c01.deriv_roles(M, rows, ci)
    rows_n = {k: norm_vec(v) for k, v in rows.items()}
    cubic = short == "CubicSplineND"
    f = F.func1(cls, "propagateGradInternal")
    chk.saw(f)
    pnames = [p["name"] for p in f["params"]]
    gC, gT, inner, gtimes, startg, endg = pnames
    names = {"start": startg, "end": endg, "inner": inner}
    order_of_arr = {}
    for d, (arr,) in roles.items():
        if d >= 1:
            order_of_arr[arr.split("#")[0]] = d

    # index aliasing that depends on the size is decided per kind of run: a run whose symbolic iteration is not at once the
    # first and the last block has at least two blocks (N >= 3); the one-block run is N = 2 exactly
    m3 = sp.Symbol("n_minus_3", integer=True, nonnegative=True)

    def resolver_for(kind):
        val = Integer(2) if kind == "single" else m3 + 3
        return lambda e: sp.expand(sp.sympify(e).subs({s_: regions.size_value(s_, val, M.m_count) for s_ in sp.sympify(e).free_symbols if regions.size_value(s_, val, M.m_count) is not None}))
    runs = {k: run_adjoint(F, M, k, resolver=resolver_for(k)) for k in ("middle", "first", "last", "single")}
    # ------------------------------------------------------------------------------------- loops
    def loops_of(I):
        seg = [L for L in I.loops if any(e.target == gtimes for e in L.effects) and any(gC in str(e.delta) for e in L.effects if e.delta is not None)]
        if len(seg) != 1:
            raise Broken("per-segment pull-back loop not identified")
        rest = [L for L in I.loops if L is not seg[0]]
        sysl = [L for L in rest if any(e.target == gtimes for e in L.effects)]
        if len(sysl) != 1:
            raise Broken("system-derivative loop not identified")
        Lsys = sysl[0]
        # loop fission: a later pass over the same index range that only accumulates into the gradient outputs (no
        # solver workspace) is the second half of the system-derivative loop; the rules see the two fused
        outs_ = (inner, startg + ".", endg + ".", gtimes)
        for B in list(rest):
            if B is Lsys or B.inner or Lsys.inner:
                continue
            same = (sym.is_zero(sp.sympify(B.lo) - sp.sympify(Lsys.lo)) and B.hi is not None and Lsys.hi is not None and sym.is_zero(sp.sympify(B.hi) - sp.sympify(Lsys.hi))
                    and B.cond_op == Lsys.cond_op and B.step == Lsys.step)
            if same and B.effects and all(e.target == inner or e.target == gtimes or e.target.startswith(startg + ".") or e.target.startswith(endg + ".") for e in B.effects) and not B.carried and not Lsys.carried:
                fused = sym.LoopSummary(Lsys.var, Lsys.lo, Lsys.cond, Lsys.step, Lsys.line)
                fused.hi, fused.cond_op = Lsys.hi, Lsys.cond_op
                fused.effects = list(Lsys.effects) + [rebind_effect(e, B.var, Lsys.var) for e in B.effects]
                fused.locals, fused.inner, fused.carried = dict(Lsys.locals), [], {}
                for attr in ("pos", "name", "is_comp"):
                    if hasattr(Lsys, attr):
                        setattr(fused, attr, getattr(Lsys, attr))
                rest = [L for L in rest if L is not B]
                Lsys = fused
        return seg[0], Lsys, [L for L in rest if L is not sysl[0] and L is not Lsys]

    ex_s = M.expand_scalar

    def ex_v(v):
        return norm_vec(M.expand_vec(v))

    for kind, (ff, I, env) in runs.items():
        Lseg, Lsys, Lsolve = loops_of(I)
        iv = Lseg.var
        where = loc(f, {"line": Lseg.line})
        which = {"first_val": Lseg.lo, "last_val": Lseg.hi - 1}
        g = [Vec.atom((gC, sp.expand(K * iv + k))) for k in range(K)]

        def dead(a):
            if not (zero_rows and a[0] == gC):
                return False
            e_ = sp.sympify(a[1])
            return int(e_.subs({x: 0 for x in e_.free_symbols})) % K in zero_rows

        def drop_v(v):
            return Vec({a: c for a, c in v.t.items() if not dead(a)}) if zero_rows else v

        def drop_s(e_):
            if not zero_rows:
                return e_
            e_ = sp.sympify(e_)
            return e_.xreplace({d: Integer(0) for d, (a, b) in sym.dots_in(e_).items() if dead(a) or dead(b)})
        eff = group([e for e in Lseg.effects if e.target != gtimes])
        # internal gradient storage: the non-output rows container written here
        store = {k[0] for k in eff if k[0] not in (inner, startg + ".p", endg + ".p")}
        if len(store) != 1:
            raise Broken("knot-derivative gradient storage not unique: %s" % store)
        gd = next(iter(store))
        # ---- R1 ------------------------------------------------------------------------------
        atoms = sorted({a for r in rows_n.values() for a in r.t}, key=str)
        seen_slots = set()
        for A in atoms:
            Ai = (A[0],) + tuple(sp.expand(x.subs(ci, iv)) for x in A[1:])
            want = Vec()
            for k in range(K):
                want = want.add(g[k].scale(ex_s(sp.sympify(rows_n[k].coeff(A)).subs(ci, iv))))
            if Ai[0] == M.m_points:
                slot = point_slot(M, names, Ai[1], iv, kind, n, which)
            elif Ai[0] in order_of_arr:
                d = order_of_arr[Ai[0]]
                if cubic:
                    slot = (gd, sp.expand(Ai[1]))
                else:
                    slot = (gd, sp.expand(Ai[1]), Integer(d - 1))
            else:
                raise Broken("closure reads an unexpected atom %s" % (A,))
            seen_slots.add(slot)
            got = total_delta(eff.get(slot, [])) if slot in eff else Vec()
            got = Vec({a: ex_s(c) for a, c in got.t.items()})
            d_ = drop_v(got.add(want, -1))
            chk.ob("C05-R1", "%s [%s segment] pull-back onto %s" % (cls, kind, sym.atom_str(Ai)), vec_zero(d_), where,
                   "code - (dF/d%s)^T g = %r" % (sym.atom_str(Ai), d_.clean()), construct="%s/pullback/%s/%s" % (cls, kind, sym.atom_str(A)))
        extra = [k for k in eff if k not in seen_slots]
        chk.ob("C05-R1", "%s [%s segment] no other slot receives a local contribution" % (cls, kind), not extra, where, "unexpected targets %s" % extra, construct="%s/pullback/%s/extra" % (cls, kind))
        chk.ob("C05-R1", "%s [%s segment] loop covers every segment" % (cls, kind), Lseg.lo == 0 and sym.is_zero(Lseg.hi - n) and Lseg.step == 1, where, "", construct="%s/pullback/%s/range" % (cls, kind))
        # ---- R2 ------------------------------------------------------------------------------
        te = [e for e in Lseg.effects if e.target == gtimes]
        ok_key = all(sym.is_zero(e.key[0] - iv) for e in te)
        got = expand_dots(ex_s(total_delta(te)), ex_v)
        h = M.dur(iv)
        want = Integer(0)
        for k in range(K):
            rk = Vec({(a[0],) + tuple(sp.expand(x.subs(ci, iv)) for x in a[1:]): ex_s(sp.sympify(c).subs(ci, iv)) for a, c in rows_n[k].t.items()})
            dk = Vec({a: sp.diff(c, h) for a, c in rk.t.items()})
            want += sym.vdot(g[k], dk)
        d_ = sp.expand(drop_s(sp.expand(sp.simplify(got - sp.expand(want)))))
        chk.ob("C05-R2", "%s [%s segment] explicit duration term = sum_k <g_k | dF_k/dh_i>" % (cls, kind), d_ == 0 and ok_key, where,
               "code - reference = %s" % sp.sstr(d_)[:300], construct="%s/dFdh/%s" % (cls, kind))
        # ---- R4 / R5 / R3 per class type ---------------------------------------------------------
        if cubic:
            check_cubic_system(chk, F, M, kind, f, I, env, Lsys, Lsolve, gd, names, gtimes, n, rows_n, ci, roles, ex_s, ex_v)
        else:
            check_block_system(chk, F, M, kind, f, I, env, Lsys, Lsolve, gd, names, gtimes, n, ex_s, ex_v, order_of_arr, first_run=loops_of(runs["first"][1])[2])
        # ---- R7 (once per class) --------------------------------------------------------------------
        if kind == "middle":
            check_r7(chk, F, M, f, I, env, gd, names, gtimes, gC, gT, cubic)
    # N = 1: no interior system; boundary gradients are the direct closure terms only
    if not cubic:
        ff, I1, env1 = run_adjoint(F, M, "single", size=lambda c: bool(c.subs(n, 1)) if sp.sympify(c).subs(n, 1) in (sp.true, sp.false) else None)
        st = I1.effects
        for side, idx in (("start", Integer(0)), ("end", n)):
            for j in range(s - 1):
                fld = names[side] + "." + STATE[j + 1]
                last = [e for e in st if e.target == fld][-1]
                tgd = [a for a in last.value.t]
                ok = len(tgd) == 1 and sym.is_zero(last.value.coeff(tgd[0]) - 1) and sym.is_zero(sp.sympify(tgd[0][1]).subs(n, 1) - idx.subs(n, 1)) and sym.is_zero(tgd[0][2] - j)
                chk.ob("C05-R5", "%s N=1: d/d(%s.%s) is the direct closure term" % (cls, side, STATE[j + 1]), ok, loc(f), repr(last.value), construct="%s/N1/%s.%s" % (cls, side, STATE[j + 1]))
        check_boundary_two_segments(chk, F, M, f, n, gd, names)


# ---------------------------------------------------------------------------------------------------


def check_boundary_two_segments(chk, F, M, f, n, gd, names):
    """N = 2: one block, which is the first and the last at once, so the rows of the multiplier the start correction
    reads are the rows the end correction reads.  The routine is replayed with the sizes of N = 2 (index aliasing and
    size tests decided for that size) and the boundary gradients are compared with direct term - block^T lambda."""
    cls = M.cls
    b = M.s - 1

    def at2(e):
        e = sp.sympify(e)
        return e.subs({s_: regions.size_value(s_, 2, M.m_count) for s_ in e.free_symbols if regions.size_value(s_, 2, M.m_count) is not None})

    def size2(c):
        try:
            r = sp.simplify(at2(c))
        except Exception:
            return None
        return True if r == sp.true else False if r == sp.false else None
    try:
        ff, I2, env2 = run_adjoint(F, M, "single", size=size2, resolver=lambda e: sp.expand(at2(e)))
    except Unsupported as ex:
        raise Broken("adjoint not analysable for N = 2: %s" % ex)
    Bm = BlockRun(F, M, "middle")
    st = I2.effects
    def sub2(v):
        out = Vec()
        for a, c in v.t.items():
            a2 = (a[0],) + tuple(sp.expand(at2(x)) if not isinstance(x, str) else x for x in a[1:])
            out = out.add(Vec({a2: at2(c)}))
        return out
    for side, cache, gidx in (("start", Bm.lower_cache, Integer(0)), ("end", Bm.upper_cache, Integer(2))):
        for j in range(b):
            fld = names[side] + "." + STATE[j + 1]
            es = [e for e in st if e.target == fld]
            if not es or not isinstance(es[-1].value, Vec):
                raise Broken("boundary gradient %s not assigned on the N = 2 path" % fld)
            last = es[-1]
            got = sub2(last.value)
            others = [a for a in got.t if str(a[0]).split("#")[0] != gd]
            lam_tags = sorted({a[0] for a in others}, key=str)
            gd_tag = [a for a in got.t if str(a[0]).split("#")[0] == gd]
            want = Vec()
            if gd_tag:
                want = want.add(Vec.atom((gd_tag[0][0], gidx, Integer(j))))
            ctags = sorted({str(ix.base) for c in got.t.values() for ix in sp.sympify(c).atoms(sp.Indexed) if str(ix.base).split("#")[0] == cache})
            Cm = Bm.cache_mat(cache, Integer(0), ctags[0] if ctags else None)
            ok = len(lam_tags) == 1 and len(ctags) <= 1
            if ok:
                for a in range(b):
                    want = want.add(Vec.atom((lam_tags[0], Integer(a))).scale(-Cm.e[a][j]))
                d_ = got.add(want, -1)
                ok = vec_zero(d_)
            chk.ob("C05-R5", "%s N=2 (one block, first and last at once): d/d(%s.%s) = direct term - (%s block)^T lambda" % (cls, side, STATE[j + 1], "lower" if side == "start" else "upper"),
                   bool(ok), loc(f, {"line": last.line}), ("multiplier generations read: %s; " % lam_tags) + repr(got.add(want, -1).clean())[:260], construct="%s/N2/%s.%s" % (cls, side, STATE[j + 1]))


def check_block_system(chk, F, M, kind, f, I, env, Lsys, Lsolve, gd, names, gtimes, n, ex_s, ex_v, order_of_arr, first_run=None):
    cls = M.cls
    b = M.s - 1
    Bm = BlockRun(F, M, "middle")
    bi = Bm.i
    outs = Bm.outs
    iv = Lsys.var
    where = loc(f, {"line": Lsys.line})
    lam_name = None
    for e in Lsys.effects:
        if isinstance(e.delta, Vec):
            for a in e.delta.t:
                lam_name = a[0]
    if lam_name is None:
        raise Broken("multiplier atoms not found")
    lam = [Vec.atom((lam_name, sp.expand(b * iv + a))) for a in range(b)]
    # block equation E_a (middle block of the forward pass), block index bi -> iv
    def X(j, idx):
        return Vec.atom((outs[j], sp.expand(idx)))
    r_mid = []
    for a in range(b):
        v = Bm.rhs_final[a]
        r_mid.append(Vec({k: c for k, c in v.t.items() if str(k[0]).split("#")[0] != Bm.rhs_name}))
    E = []
    for a in range(b):
        v = Vec()
        for j in range(b):
            v = v.add(X(j, bi).scale(ex_s(Bm.L.e[a][j]))).add(X(j, bi + 1).scale(ex_s(Bm.D0.e[a][j]))).add(X(j, bi + 2).scale(ex_s(Bm.U.e[a][j])))
        v = v.add(ex_v(r_mid[a]), -1)
        E.append(sub_vec(v, bi, iv))
    hL, hR = M.dur(iv), M.dur(iv + 1)
    eff = group(Lsys.effects)
    which = {"first_val": Lsys.lo, "last_val": Lsys.hi - 1}
    # durations
    for nm, hh, key in (("left", hL, iv), ("right", hR, iv + 1)):
        te = eff.get((gtimes, sp.expand(key)), [])
        got = expand_dots(ex_s(total_delta(te)), ex_v) if te else Integer(0)
        want = Integer(0)
        for a in range(b):
            dE = Vec({k: sp.diff(c, hh) for k, c in E[a].t.items()})
            want -= sym.vdot(lam[a], dE)
        d_ = sp.expand(sp.simplify(got - expand_dots(want, norm_vec)))
        chk.ob("C05-R4", "%s [%s block] d/dh of the %s duration = -lambda^T dRow/dh" % (cls, kind, nm), d_ == 0, where, "code - reference = %s" % sp.sstr(d_)[:300],
               construct="%s/sysderiv/%s/h-%s" % (cls, kind, nm))
    # waypoints
    used = set()
    for off in (0, 1, 2):
        idx = iv + off
        A = (M.m_points, sp.expand(idx))
        want = Vec()
        for a in range(b):
            want = want.add(lam[a].scale(-E[a].coeff(A)))
        slot = point_slot(M, names, idx, iv, kind, n, which)
        used.add(slot)
        te = eff.get(slot, [])
        got = total_delta(te) if te else Vec()
        got = Vec({a_: ex_s(c_) for a_, c_ in got.t.items()})
        d_ = got.add(want, -1)
        chk.ob("C05-R4", "%s [%s block] d/dP_%s = -lambda^T dRow/dP" % (cls, kind, ["prev", "curr", "next"][off]), vec_zero(d_), where, repr(d_.clean())[:300],
               construct="%s/sysderiv/%s/P%d" % (cls, kind, off))
    extra = [k for k in eff if k not in used and k[0] != gtimes]
    chk.ob("C05-R4", "%s [%s block] no other slot is written by the system-derivative loop" % (cls, kind), not extra, where, str(extra), construct="%s/sysderiv/%s/extra" % (cls, kind))
    chk.ob("C05-R4", "%s [%s block] loop covers all N-1 blocks" % (cls, kind), Lsys.lo == 0 and sym.is_zero(Lsys.hi - (n - 1)) and Lsys.step == 1, where, "%s..%s" % (Lsys.lo, Lsys.hi),
           construct="%s/sysderiv/%s/range" % (cls, kind))
    if kind != "middle":
        return
    # ---- R5 boundary gradients -----------------------------------------------------------------------
    st = I.effects
    nb = n - 1
    for side, row_blk, cache, lam_base, gidx in (("start", Integer(0), Bm.lower_cache, Integer(0), Integer(0)), ("end", nb - 1, Bm.upper_cache, b * (nb - 1), n)):
        Cm = Bm.cache_mat(cache, row_blk)
        for j in range(b):
            fld = names[side] + "." + STATE[j + 1]
            last = [e for e in st if e.target == fld][-1]
            lam_tag = [a[0] for a in last.value.t if str(a[0]).split("#")[0] == lam_name.split("#")[0]]
            gd_tag = [a for a in last.value.t if str(a[0]).split("#")[0] == gd]
            want = Vec()
            if gd_tag:
                want = want.add(Vec.atom((gd_tag[0][0], sp.expand(gidx), Integer(j))))
            for a in range(b):
                want = want.add(Vec.atom((lam_tag[0] if lam_tag else lam_name, sp.expand(lam_base + a))).scale(-Cm.e[a][j]))
            d_ = last.value.add(want, -1)
            chk.ob("C05-R5", "%s d/d(%s.%s) = direct term - (%s block)^T lambda" % (cls, side, STATE[j + 1], "first lower" if side == "start" else "last upper"), vec_zero(d_), loc(f, {"line": last.line}),
                   repr(d_.clean())[:300], construct="%s/boundary/%s.%s" % (cls, side, STATE[j + 1]))
    # ---- R3 transposed solve ---------------------------------------------------------------------------
    lam_base_name = lam_name.split("#")[0]
    copyl = [L for L in Lsolve if all(e.op == "=" for e in L.effects) and any(e.target == lam_base_name for e in L.effects) and L.step == 1 and not any(lam_base_name in str(a[0]) for e in L.effects for a in e.value.t)]
    okc = len(copyl) == 1
    if okc:
        Lc = copyl[0]
        v = Lc.var
        for a in range(b):
            ee = [e for e in Lc.effects if sym.is_zero(e.key[0] - (b * v + a))]
            okc = okc and len(ee) == 1 and len(ee[0].value.t) == 1
            if okc:
                (at, cf), = ee[0].value.t.items()
                okc = str(at[0]).split("#")[0] == gd and sym.is_zero(at[1] - (v + 1)) and sym.is_zero(at[2] - a) and sym.is_zero(cf - 1)
        okc = okc and Lc.lo == 0 and sym.is_zero(Lc.hi - nb)
    chk.ob("C05-R3", "%s adjoint right-hand side: block i <- knot-derivative gradients of knot i+1, all blocks" % cls, bool(okc), loc(f), "", construct=cls + "/tsolve/rhs")
    sig = Bm.sigma
    # ---- forward / backward sweeps of the transposed solve, read off the loops as written: a loop over v that writes the
    # rows of block beta = v + c (any c).  Required content:
    #   forward   y_beta = D'^-T_beta (g_beta - U^T_{beta-1} y_{beta-1})  for beta = 1 .. nb-1,   y_0 = D'^-T_0 g_0
    #   backward  lambda_beta = y_beta - (L_{beta+1} D'^-1_beta)^T lambda_{beta+1}  for beta = nb-2 .. 0
    # The first block may be solved by a statement of its own before the sweep, or by the sweep itself starting at
    # beta = 0 (its U term then sits behind a test that is false for the first iteration only).
    def block_offset(L, effs):
        cs = set()
        for a in range(b):
            ks = [sp.expand((e.key[0] - a) / b - L.var) for e in effs if sp.expand((e.key[0] - a) / b - L.var).is_Integer]
            cs |= set(ks)
        return next(iter(cs)) if len(cs) == 1 else None

    def last_of(L):
        if L.hi is None:
            return None
        return {"<": L.hi - 1, "<=": L.hi, ">=": L.hi, ">": L.hi + 1}.get(L.cond_op)

    def fw_value(L, a, c):
        ee = [e for e in L.effects if e.target == lam_base_name and sym.is_zero(e.key[0] - (b * (L.var + c) + a))]
        return ee[-1].value if ee else None

    def fw_want(val, beta, a, with_prev):
        tag = [x[0] for x in val.t][0]
        Dm = Bm.cache_mat(Bm.dinv_cache, beta)
        Um = Bm.cache_mat(Bm.upper_cache, beta - 1)
        want = Vec()
        for k in range(b):
            want = want.add(Vec.atom((tag, sp.expand(b * beta + k))).scale(Dm.e[k][a]))
            if with_prev:
                for l in range(b):
                    want = want.add(Vec.atom((tag, sp.expand(b * (beta - 1) + l))).scale(-Dm.e[k][a] * Um.e[l][k]))
        return want
    fw = [L for L in Lsolve if L.step == 1 and L not in copyl and any(e.target == lam_base_name for e in L.effects)]
    if len(fw) != 1:
        raise Broken("transposed solve of %s: forward sweep not identified (%d candidate loops)" % (cls, len(fw)))
    Lf = fw[0]
    cF = block_offset(Lf, [e for e in Lf.effects if e.target == lam_base_name])
    lastF = last_of(Lf)
    if cF is None or lastF is None:
        raise Broken("transposed solve of %s: the forward sweep does not write whole blocks at a fixed offset of its index" % cls)
    beta = Lf.var + cF
    okf = True
    for a in range(b):
        val = fw_value(Lf, a, cF)
        okf = okf and val is not None and vec_zero(val.add(fw_want(val, beta, a, True), -1))
    lo_b, hi_b = sp.expand(Lf.lo + cF), sp.expand(lastF + cF)
    merged = sym.is_zero(lo_b)
    okf = okf and (merged or sym.is_zero(lo_b - 1)) and sym.is_zero(hi_b - (nb - 1))
    # first block
    ok0 = True
    if not merged:
        before = Lf.pos if getattr(Lf, "pos", None) is not None else None
        for a in range(b):
            # the first block is solved before the forward sweep; what happens to those rows afterwards is not this rule's business
            ee = [e for e in st if e.target == lam_base_name and len(e.key) == 1 and not isinstance(e.key[0], str) and sym.is_zero(e.key[0] - a) and e.op == "="
                  and (before is None or getattr(e, "seq", None) is None or e.seq < before)]
            if not ee:
                ok0 = False
                break
            val = ee[-1].value
            ok0 = ok0 and vec_zero(val.add(fw_want(val, Integer(0), a, False), -1))
    else:
        # the sweep starts at block 0: its first iteration (interpreted on its own) must be the first-block formula
        if first_run is None:
            raise Broken("transposed solve of %s: the sweep starts at block 0 but the first-iteration run is not available" % cls)
        L1 = [L for L in first_run if L.step == 1 and L.line == Lf.line and any(e.target == lam_base_name for e in L.effects)]
        if len(L1) != 1:
            raise Broken("transposed solve of %s: forward sweep not found in the first-iteration run" % cls)
        for a in range(b):
            val = fw_value(L1[0], a, cF)
            ok0 = ok0 and val is not None and vec_zero(val.add(fw_want(val, L1[0].var + cF, a, False), -1))
    chk.ob("C05-R3", "%s transposed solve, first block: y_0 = D'^-T_0 g_0" % cls, bool(ok0), loc(f), "solved %s" % ("by the first iteration of the sweep" if merged else "before the sweep"), construct=cls + "/tsolve/first")
    chk.ob("C05-R3", "%s transposed solve, forward: y_{i+1} = D'^-T_{i+1} (g_{i+1} - U_i^T y_i), i = 0..N-3" % cls, bool(okf), loc(f), "blocks %s .. %s" % (lo_b, hi_b), construct=cls + "/tsolve/forward")
    bw = [L for L in Lsolve if L.step == -1 and any(e.target == lam_base_name for e in L.effects)]
    if len(bw) != 1:
        raise Broken("transposed solve of %s: backward sweep not identified (%d candidate loops)" % (cls, len(bw)))
    Lb = bw[0]
    cB = block_offset(Lb, [e for e in Lb.effects if e.target == lam_base_name])
    lastB = last_of(Lb)
    if cB is None or lastB is None:
        raise Broken("transposed solve of %s: the backward sweep does not write whole blocks at a fixed offset of its index" % cls)
    beta = Lb.var + cB
    Am = Bm.cache_mat(Bm.aux_cache, beta)
    okb = True
    for a in range(b):
        ee = [e for e in Lb.effects if e.target == lam_base_name and sym.is_zero(e.key[0] - (b * beta + a))]
        if not ee:
            okb = False
            break
        val = ee[-1].value
        tag = [x[0] for x in val.t][0]
        want = Vec.atom((tag, sp.expand(b * beta + a)))
        for k in range(b):
            want = want.add(Vec.atom((tag, sp.expand(b * (beta + 1) + k))).scale(-Am.e[a][k]))
        okb = okb and vec_zero(val.add(want, -1))
    okb = okb and sym.is_zero(sp.expand(Lb.lo + cB) - (nb - 2)) and sym.is_zero(sp.expand(lastB + cB))
    chk.ob("C05-R3", "%s transposed solve, backward: lambda_i = y_i - (L_{i+1} D'^-1_i)^T lambda_{i+1}, i = N-3..0" % cls, bool(okb), loc(f), "blocks %s down to %s" % (sp.expand(Lb.lo + cB), sp.expand(lastB + cB)),
           construct=cls + "/tsolve/backward")


def check_cubic_system(chk, F, M, kind, f, I, env, Lsys, Lsolve, gd, names, gtimes, n, rows_n, ci, roles, ex_s, ex_v):
    cls = M.cls
    kv = Lsys.var
    where = loc(f, {"line": Lsys.line})
    arr = roles[2][0].split("#")[0]
    h = M.h
    lam_name = None
    for e in Lsys.effects:
        if isinstance(e.delta, Vec):
            for a in e.delta.t:
                lam_name = a[0]
    lam = lambda idx: Vec.atom((lam_name, sp.expand(idx)))
    Mv = lambda idx: Vec.atom((arr, sp.expand(idx)))
    P = lambda idx: Vec.atom((M.m_points, sp.expand(idx)))
    # the tridiagonal system exactly as the forward code assembles it (extracted by C02's machinery)
    CR = c02.cubic_rows(F, M)
    row = CR["interior"]
    row0, rown = CR["row0"], CR["rown"]
    v0 = Vec.atom((M.m_bc + ".start_velocity",))
    vn = Vec.atom((M.m_bc + ".end_velocity",))
    # these literal forms are cross-checked against the code's own system by C02 (rows == continuity); here they
    # must agree with what the forward code assembled: compare with C02's extraction
    # rows touched by duration h_k: k and k+1
    def rows_for(kind):
        if kind == "single":
            return [(Integer(0), row0.add(Vec()), None), (n, rown, None)], {n: 1}
        if kind == "first":
            return [(Integer(0), row0, None), (Integer(1), row(Integer(1)), None)], {}
        if kind == "last":
            return [(n - 1, row(n - 1), None), (n, rown, None)], {}
        return [(kv, row(kv), None), (kv + 1, row(kv + 1), None)], {}
    rws, sub = rows_for(kind)
    kval = {"first": Integer(0), "single": Integer(0), "last": n - 1, "middle": kv}[kind]
    nsub = {kv: kval}
    if kind == "single":
        nsub[n] = Integer(1)

    def sub_all(v):
        out = Vec()
        for a, c in v.t.items():
            a2 = (str(a[0]).split("#")[0],) + tuple(sp.expand(sp.sympify(x).subs(nsub)) for x in a[1:])
            c2 = sp.sympify(c)
            rep2 = {ix: ix.base[tuple(sp.expand(sp.sympify(x).subs(nsub)) for x in ix.indices)] for ix in c2.atoms(sp.Indexed)}
            out = out.add(Vec({a2: c2.xreplace(rep2)}))
        return out

    rws = [(sp.expand(sp.sympify(ridx).subs(nsub)), sub_all(rv), None) for ridx, rv, _ in rws]
    lam_s = lambda idx: Vec.atom((lam_name.split("#")[0], sp.expand(sp.sympify(idx).subs(nsub))))
    eff = group(Lsys.effects)
    te = eff.get((gtimes, sp.expand(kv)), [])
    got = expand_dots(ex_s(total_delta(te)), ex_v) if te else Integer(0)
    hk = h[sp.expand(sp.sympify(kval).subs(nsub))]
    want = Integer(0)
    for ridx, rv, _ in rws:
        dE = Vec({a: sp.diff(c, hk) for a, c in rv.t.items()})
        want -= sym.vdot(lam_s(ridx), dE)
    d_ = _rename_cmp(got, want, nsub)
    chk.ob("C05-R4", "%s [%s segment] d/dh_k = -sum over the two rows containing h_k of lambda_r . dRow_r/dh_k" % (cls, kind), d_ == 0, where, "code - reference = %s" % sp.sstr(d_)[:300],
           construct="%s/sysderiv/%s/h" % (cls, kind))
    which = {"first_val": Lsys.lo, "last_val": Lsys.hi - 1}
    used = set()
    for off in (0, 1):
        idx = kv + off
        A = (M.m_points, sp.expand(sp.sympify(idx).subs(nsub)))
        want_v = Vec()
        for ridx, rv, _ in rws:
            # only the dependence through this segment's divided difference (P_{k+1}-P_k)/h_k belongs to segment k
            cf = sum((t_ for t_ in sp.Add.make_args(sp.expand(rv.coeff(A))) if t_.has(hk)), Integer(0))
            want_v = want_v.add(lam_s(ridx).scale(-cf))
        slot = point_slot(M, names, idx, kv, kind, n, which)
        used.add(slot)
        te = eff.get(slot, [])
        got_v = total_delta(te) if te else Vec()
        got_v = Vec({a_: ex_s(c_) for a_, c_ in got_v.t.items()})
        d2 = _vec_cmp(got_v, want_v, nsub)
        chk.ob("C05-R4", "%s [%s segment] d/dP_%s from the two rows containing it via h_k" % (cls, kind, ["k", "k+1"][off]), d2, where, "", construct="%s/sysderiv/%s/P%d" % (cls, kind, off))
    extra = [k for k in eff if k not in used and k[0] != gtimes]
    chk.ob("C05-R4", "%s [%s segment] no other slot written by the system-derivative loop" % (cls, kind), not extra, where, str(extra), construct="%s/sysderiv/%s/extra" % (cls, kind))
    chk.ob("C05-R4", "%s [%s segment] loop covers all segments" % (cls, kind), Lsys.lo == 0 and sym.is_zero(Lsys.hi - n) and Lsys.step == 1, where, "", construct="%s/sysderiv/%s/range" % (cls, kind))
    if kind != "middle":
        return
    st = I.effects
    for side, ridx, rv, bcv in (("start", Integer(0), row0, v0), ("end", n, rown, vn)):
        fld = names[side] + ".v"
        last = [e for e in st if e.target == fld][-1]
        (bca, _), = bcv.t.items()
        want_v = lam(ridx).scale(-rv.coeff(bca))
        tag = [a[0] for a in last.value.t][0]
        want_v = Vec({(tag,) + a[1:]: c for a, c in want_v.t.items()})
        chk.ob("C05-R5", "%s d/d(%s velocity) = -lambda_row . dRow/dv" % (cls, side), vec_zero(last.value.add(want_v, -1)), loc(f, {"line": last.line}), repr(last.value), construct="%s/boundary/%s.v" % (cls, side))
    # ---- R3: symmetric tridiagonal -> same Thomas sweeps on the multipliers ------------------------------
    lam_base = lam_name.split("#")[0]
    x0 = [e for e in st if e.target == lam_base and e.op == "*=" and len(e.key) == 1 and not isinstance(e.key[0], str) and e.key[0] == 0]
    ok0 = bool(x0)
    if ok0:
        val = x0[-1].value
        (a0, c0), = val.t.items()
        ok0 = len(c0.atoms(sp.Indexed)) == 1 and sym.is_zero(list(c0.atoms(sp.Indexed))[0].indices[0])
    chk.ob("C05-R3", "%s multiplier sweep: first row scaled by the cached pivot inverse" % cls, bool(ok0), loc(f), "", construct=cls + "/tsolve/first")
    fw = [L for L in Lsolve if L.step == 1]
    okf = len(fw) == 1
    if okf:
        Lf = fw[0]
        v = Lf.var
        e = [x for x in Lf.effects if x.target == lam_base][-1]
        tag = [a[0] for a in e.value.t][0]
        invs = [x for c in e.value.t.values() for x in sp.sympify(c).atoms(sp.Indexed) if not str(x.base).startswith(M.m_durations) and "time_powers" not in str(x.base)]
        okf = len(set(invs)) == 1
        if okf:
            inv = invs[0]
            want = Vec.atom((tag, sp.expand(v))).add(Vec.atom((tag, sp.expand(v - 1))).scale(h[v - 1]), -1).scale(inv)
            okf = vec_zero(Vec({a: ex_s(c) for a, c in e.value.t.items()}).add(want, -1)) and sym.is_zero(inv.indices[0] - v) and Lf.lo == 1
    chk.ob("C05-R3", "%s multiplier sweep forward: x_i = (x_i - h_{i-1} x_{i-1}) * pivot_inv_i (symmetric matrix: lower_i = upper_{i-1} = h_{i-1})" % cls, bool(okf), loc(f), "", construct=cls + "/tsolve/forward")
    bw = [L for L in Lsolve if L.step == -1]
    okb = len(bw) == 1
    if okb:
        Lb = bw[0]
        v = Lb.var
        e = [x for x in Lb.effects if x.target == lam_base][-1]
        tag = [a[0] for a in e.value.t][0]
        cps = [x for c in e.value.t.values() for x in sp.sympify(c).atoms(sp.Indexed)]
        okb = len(set(cps)) == 1 and sym.is_zero(cps[0].indices[0] - v) and vec_zero(e.value.add(Vec.atom((tag, sp.expand(v))).add(Vec.atom((tag, sp.expand(v + 1))).scale(cps[0]), -1), -1)) and Lb.hi == 0
    chk.ob("C05-R3", "%s multiplier sweep backward: x_i -= c'_i x_{i+1} down to row 0" % cls, bool(okb), loc(f), "", construct=cls + "/tsolve/backward")


def _canon_atoms(e, nsub):
    """rename bilinear atoms after substituting size symbols in their indices"""
    e = sp.sympify(e)
    rep = {}
    for s_, (a, b) in sym.dots_in(e).items():
        a2 = (a[0],) + tuple(sp.expand(sp.sympify(x).subs(nsub)) for x in a[1:])
        b2 = (b[0],) + tuple(sp.expand(sp.sympify(x).subs(nsub)) for x in b[1:])
        rep[s_] = sym.dot_symbol(a2, b2)
    e = e.xreplace(rep)
    # indexed duration symbols
    rep2 = {ix: ix.base[tuple(sp.expand(sp.sympify(x).subs(nsub)) for x in ix.indices)] for ix in e.atoms(sp.Indexed)}
    return e.xreplace(rep2)


def _rename_cmp(got, want, nsub):
    return sp.simplify(sp.expand(_canon_atoms(got, nsub)) - sp.expand(_canon_atoms(want, nsub)))


def _vec_cmp(a, b, nsub):
    def canon(v):
        out = Vec()
        for at, c in v.t.items():
            at2 = (str(at[0]).split("#")[0],) + tuple(sp.expand(sp.sympify(x).subs(nsub)) for x in at[1:])
            c2 = sp.sympify(c)
            rep2 = {ix: ix.base[tuple(sp.expand(sp.sympify(x).subs(nsub)) for x in ix.indices)] for ix in c2.atoms(sp.Indexed)}
            out = out.add(Vec({at2: c2.xreplace(rep2)}))
        return out
    return vec_zero(canon(a).add(canon(b), -1))


def check_r7(chk, F, M, f, I, env, gd, names, gtimes, gC, gT, cubic):
    cls = M.cls
    st = I.effects
    where = loc(f)
    # outputs initialised before any accumulation
    first_t = next((e for e in st if e.target == gtimes), None)
    chk.ob("C05-R7", "%s duration gradient starts as the upstream partial" % cls, first_t is not None and first_t.op == "=" and first_t.value[:2] == ("copy", gT), where,
           str(first_t.value if first_t else None), construct=cls + "/init/times")
    for side in ("start", "end"):
        flds = sorted({e.target for e in st if e.target.startswith(names[side] + ".")})
        for fld in flds:
            e0 = next(e for e in st if e.target == fld)
            chk.ob("C05-R7", "%s %s reset to zero before accumulation" % (cls, fld), e0.op == "=" and isinstance(e0.value, Vec) and not e0.value.t, where, repr(e0.value), construct="%s/init/%s" % (cls, fld))
    for nm in (names["inner"], gd):
        ops = [e.op for e in st if e.target == nm][:2]
        chk.ob("C05-R7", "%s %s resized and zeroed before accumulation" % (cls, nm), ops == ["resize", "setZero"], where, str(ops), construct="%s/init/%s" % (cls, nm))
    # linearity, control-flow side: nothing is skipped or selected depending on the *values* of the upstream gradient (a
    # tolerance test such as Eigen's isZero() drops small but non-zero contributions: the map is then not linear)
    def all_loops(ls):
        for L_ in ls:
            yield L_
            yield from all_loops(L_.inner)
    dep = []
    for L_ in all_loops(I.loops):
        for txt, cnd in L_.locals.get("_skip_guards", []):
            if any(nm_ in str(cnd) for nm_ in (gC, gT)):
                dep.append((L_.line, txt))
    for e_ in list(I.effects) + [x_ for L_ in all_loops(I.loops) for x_ in L_.effects]:
        for gtxt, pol in (e_.guards or []):
            if any(nm_ in gtxt for nm_ in (gC, gT)) and (e_.line, gtxt) not in dep:
                dep.append((e_.line, gtxt))
    chk.ob("C05-R7", "%s control flow does not depend on the values of the upstream gradient" % cls, not dep, loc(f, {"line": dep[0][0]}) if dep else where,
           "work is skipped when %s" % dep[0][1] if dep else "", construct=cls + "/linear/control-flow")
    # linearity: every vector increment consists of upstream / multiplier atoms only, every scalar increment is bilinear with exactly one such atom
    glike = {gC, gd}
    lam_names = set()
    for L in I.loops:
        for e in L.effects:
            if e.target not in (gtimes, names["inner"]) and not e.target.startswith(names["start"]) and not e.target.startswith(names["end"]) and e.target != gd:
                lam_names.add(e.target)
    glike |= lam_names
    bad = []
    ninc = 0
    for L in I.loops:
        for e in L.effects:
            val = increment_of(e) if increment_of(e) is not None else e.value
            if isinstance(val, Vec):
                ninc += 1
                for a in val.t:
                    if str(a[0]).split("#")[0] not in glike:
                        bad.append((e.target, sym.atom_str(a)))
            elif isinstance(val, sp.Basic) and e.target == gtimes:
                ninc += 1
                expr = sp.expand(val)
                for term in sp.Add.make_args(expr):
                    ds = [s_ for s_ in term.free_symbols if s_ in sym._DOTS]
                    if len(ds) != 1:
                        bad.append((e.target, str(term)[:60]))
                        continue
                    a, b_ = sym._DOTS[ds[0]]
                    ng = sum(1 for x in (a, b_) if str(x[0]).split("#")[0] in glike)
                    if ng != 1:
                        bad.append((e.target, str(ds[0])))
    for e in st:
        if isinstance(e.value, Vec) and (e.target.startswith(names["start"]) or e.target.startswith(names["end"])):
            for a in e.value.t:
                if str(a[0]).split("#")[0] not in glike:
                    bad.append((e.target, sym.atom_str(a)))
    chk.ob("C05-R7", "%s every output increment is homogeneous of degree 1 in the upstream gradient (%d increments)" % (cls, ninc), not bad, where, str(bad[:6]), construct=cls + "/linear")
