"""C14 - behaviour under time shift, translation, scaling and time reversal (DESIGN s6 C14).

Necessary conditions checked directly on the summaries; sufficiency comes from C02 (uniqueness of the minimiser).
R1 the start time reaches only the first knot and the time getters; knot times reach only the trajectory hand-over;
R2 waypoints enter every formula in difference form (coefficient sum 0), except row c_0 (sum 1); energy and energy
   gradients never read a c_0 row;
R4 units: with weight(duration)=+1, weight(waypoint)=0, weight(d-th knot derivative)=-d every closure row c_k is
   weighted-homogeneous of weight -k, every system row is homogeneous, the energy has weight -(2s-1);
R5 mirror symmetry of the assembled blocks: U(h) = R S L(h) S, D(h_R,h_L) = R S D(h_L,h_R) S, and of the cubic system.
(R3, degree-1 homogeneity in the data, holds by construction of the abstract domain: every summarised row is a formal
 linear combination of data vectors and every energy term a bilinear atom.)
"""
import itertools

import sympy as sp
from sympy import Integer

from ..facts import Broken, pp, loc, walk
from ..effects import Effects, callee
from .. import sym, spec, blocks, history
from ..sym import Interp, Vec
from ..model import spline_model
from ..blocks import BlockRun
from .common import facts_for, alg_classes, full_classes, SPLINES, is_this_mem
from . import c01, c02
from .c02 import norm_vec, sub_vec


def hdeg(expr, hs):
    """degree of homogeneity of a scalar in the duration symbols hs (None if not homogeneous)"""
    lam = sp.Symbol("lam_", positive=True)
    e = sp.sympify(expr)
    if e == 0:
        return "zero"
    sc = sp.simplify(e.xreplace({h: lam * h for h in hs}) / e)
    if sc.free_symbols - {lam}:
        return None
    p = sp.simplify(sp.log(sc) / sp.log(lam)) if sc != 1 else Integer(0)
    try:
        p = sp.nsimplify(p)
    except Exception:
        return None
    return p if p.is_Integer else None


def run(chk):
    F = facts_for(chk)
    E = Effects(F)
    # ---- R1 who reads the start time / the knots ----------------------------------------------------------
    for short in SPLINES:
        for cls in full_classes(F, short, ("update", "propagateGrad")):
            M = spline_model(F, cls)
            kfn = None
            for g in M.sequence:
                if any(p == ("this", M.m_knots) for p, h, nd in E.function_writes_local(g)) and g["fid"] != M.handover[0]["fid"]:
                    kfn = g
            allowed_start = {kfn["name"] if kfn else None, "getStartTime", "getDuration"}
            allowed_knots = {kfn["name"] if kfn else None, M.handover[0]["name"], "getEndTime", "getDuration", "getCumulativeTimes"}
            # sinks: everything that computes coefficients, solver caches, energies or gradients
            sink_roots = [M.solve_fn] + [g for g in M.sequence if g["fid"] not in (kfn["fid"] if kfn else -1, M.handover[0]["fid"]) and g is not M.solve_fn]
            for f in F.funcs(cls):
                if f["name"].startswith("getEnergy") or f["name"].startswith("propagateGrad") or f["name"] == "computeBasisFunctions":
                    sink_roots.append(f)
            sinks = {}
            for r in sink_roots:
                for g in F.reachable(r, stop=lambda h: h.get("cls") != cls):
                    sinks[g["fid"]] = g
            for member, what in ((M.m_start, "start time"), (M.m_knots, "knot times")):
                for fid, g in sorted(sinks.items()):
                    reads = [n for n in walk(g.get("body")) if n.get("k") == "mem" and is_this_mem(n, member)]
                    chk.ob("C14-R1", "%s::%s (computes coefficients / energy / gradients) does not read the %s" % (cls, g["name"], what), not reads, loc(g, reads[0] if reads else None),
                           "the %s must only reach the knot array and the time getters" % what, construct="%s/%s/%s" % (cls, member, g["name"]))
            # the knot routine writes only the knot array; the hand-over passes it to the trajectory as breakpoints (C11-R3)
            if kfn is not None:
                w = {p[1] for p, h, nd in E.function_writes(kfn) if p[0] == "this" and len(p) >= 2}
                chk.ob("C14-R1", "%s knot routine writes only the knot array" % cls, w == {M.m_knots}, loc(kfn), str(sorted(w)), construct="%s/knot-routine-writes" % cls)
    # time shift, content side: every knot is the start time plus a prefix sum of durations, so shifting the start time
    # shifts every breakpoint handed to the trajectory by the same amount (the rule itself is C01-R3's)
    for short in SPLINES:
        for cls in alg_classes(F, short, ("update", "propagateGrad")):
            M = spline_model(F, cls)
            kr = c01.knot_rule(F, E, M)
            chk.ob("C14-R1", "%s: knot k = start time + (durations 0..k-1), for every k in [0, N]" % cls, kr["size"] and kr["first"] and kr["prefix"], loc(kr["fn"]), kr["det"], construct=cls + "/knots/shift")
    chk.floor("C14-R1", 100)
    if any(not o["ok"] for o in chk.obs if o["rule"] == "C14-R1"):
        # the algebraic rules below assume that the durations are the only way time enters the numeric routines; with that
        # broken they would be run on expressions in differences of knot times (and the violation is already definite)
        chk.note("R2-R7 skipped: C14-R1 found a numeric routine reading the knot times (or a knot routine of another shape)")
        return
    # ---- R6 sufficiency premise: the invariances follow from R2-R5 *because* the spline is the unique minimiser of its
    # data; that is C02's system / elimination obligations, re-derived here per class (a solver that drops the end state
    # for N = 2 is no longer mirror symmetric although every block still is)
    from .. import core
    for short in SPLINES:
        for cls in alg_classes(F, short, ("update", "propagateGrad")):
            sub = core.Check("C02", chk.tier, chk.root)
            c02.check_class(sub, F, short, cls)
            rel = [o for o in sub.obs if o["rule"] in ("C02-R2", "C02-R3")]
            bad = [o for o in rel if not o["ok"]]
            chk.ob("C14-R6", "%s is the minimiser of its data for every N (system rows incl. the N = 1 / N = 2 end cases, exact elimination), so necessary conditions R2-R5 are sufficient" % cls,
                   len(rel) >= 6 and not bad, bad[0]["where"] if bad else "", "%d obligations of C02-R2/R3; first failing: %s" % (len(rel), bad[0]["instance"][:160] if bad else "-"), construct=cls + "/minimiser-premise")
    chk.floor("C14-R6", 4)
    # ---- R7 premise of the gradient clauses: the gradients the property speaks about (energy gradients propagated to
    # waypoints, durations and boundary states) transform like the function they differentiate only if propagation is
    # the exact adjoint of the construction map; that is C05's local-table / system-derivative / boundary obligations,
    # re-derived here per instantiation (a sign slip in one arm of the duration term keeps the trajectory and the energy
    # invariant but not the propagated gradient)
    from . import c05
    for short in SPLINES:
        for cls in alg_classes(F, short, ("update", "propagateGrad")):
            sub = core.Check("C05", chk.tier, chk.root)
            c05.check_class(sub, F, spline_model(F, cls), short)
            rel = [o for o in sub.obs if o["rule"] in ("C05-R2", "C05-R3", "C05-R4", "C05-R5")]
            bad = [o for o in rel if not o["ok"]]
            chk.ob("C14-R7", "%s: propagated gradients are the exact adjoint, so they inherit the invariances of the function they differentiate" % cls,
                   len(rel) >= 10 and not bad, bad[0]["where"] if bad else "", "%d obligations of C05-R2..R5; first failing: %s" % (len(rel), bad[0]["instance"][:160] if bad else "-"), construct=cls + "/adjoint-premise")
    chk.floor("C14-R7", 4)
    # ---- algebraic rules -------------------------------------------------------------------------------------
    for short in SPLINES:
        for cls in alg_classes(F, short, ("update", "propagateGrad")):
            def per_class(chk, short=short, cls=cls):
                M = spline_model(F, cls)
                s, K = M.s, M.K
                I0, Lc, rows = c01.closure_rows(F, M)
                i = Lc.var
                roles = c01.deriv_roles(M, rows, i)
                where = loc(M.solve_fn, {"line": Lc.line})
                wt = {M.m_points: 0}
                for d, (arr,) in roles.items():
                    if d >= 1:
                        wt[arr.split("#")[0]] = -d
                hs = [M.dur(i)]
                for k in range(K):
                    r = norm_vec(rows[k])
                    psum = sum((c for a, c in r.t.items() if a[0] == M.m_points), Integer(0))
                    want = 1 if k == 0 else 0
                    chk.ob("C14-R2", "%s closure row c_%d: waypoint coefficients sum to %d (translation)" % (cls, k, want), sym.is_zero(psum - want), where, "sum = %s" % sp.simplify(psum),
                           construct="%s/translation/c%d" % (cls, k))
                    bad = []
                    for a, c in r.t.items():
                        if a[0] not in wt:
                            bad.append("unknown atom %s" % (a,))
                            continue
                        dg = hdeg(c, hs)
                        if dg is None or dg == "zero" or dg + wt[a[0]] != -k:
                            bad.append("%s: duration degree %s + weight %s != %d" % (sym.atom_str(a), dg, wt[a[0]], -k))
                    chk.ob("C14-R4", "%s closure row c_%d has duration weight %d" % (cls, k, -k), not bad, where, "; ".join(bad[:3]), construct="%s/units/c%d" % (cls, k))
                # energy: weight -(2s-1), no c_0 .. c_{s-1} rows
                f = F.func1(cls, "getEnergy")
                I = Interp(F, cls)
                I.run_body(f, {})
                L = I.loops[0]
                acc = [e for e in L.effects if e.target.startswith("$")][0]
                inc = M.expand_scalar(acc.delta)
                terms, rest = sym.collect_dots(sp.expand(inc))
                bad = []
                lowrows = set()
                for (a, b), c in terms.items():
                    ka, kb = sp.expand(a[1] - K * L.var), sp.expand(b[1] - K * L.var)
                    dg = hdeg(c, [M.dur(L.var)])
                    if dg is None or dg - ka - kb != -(2 * s - 1):
                        bad.append("<c_%s|c_%s>: %s" % (ka, kb, dg))
                    lowrows |= {int(ka), int(kb)}
                chk.ob("C14-R4", "%s energy has duration weight -(2s-1) = %d" % (cls, -(2 * s - 1)), not bad and rest == 0, loc(f), "; ".join(bad[:3]), construct="%s/units/energy" % cls)
                chk.ob("C14-R2", "%s energy never reads a c_0 row (translation invariance)" % cls, 0 not in lowrows, loc(f), "rows used: %s" % sorted(lowrows), construct="%s/translation/energy" % cls)
                for gname in ("getEnergyGradTimes", "getEnergyGradInnerPoints", "getEnergyGradBoundary", "getEnergyPartialGradByTimes"):
                    gs = [g for g in F.funcs(cls, gname) if len(g["params"]) <= 1]
                    for g in gs[:1]:
                        used = set()
                        for n in walk(g["body"]):
                            if n.get("k") == "call" and callee(n).get("name") == "row" and is_this_mem(n.get("obj"), M.m_coeffs):
                                used.add(pp(n["args"][0]))
                        # residue of every row index modulo K, with locals read through (k * K + 3, left_row + K, ...)
                        STATICS[cls] = {s_["name"]: s_.get("v") for s_ in F.record(cls)["statics"]}
                        zero_rows = []
                        for n in walk(g["body"]):
                            if n.get("k") == "call" and callee(n).get("name") == "row" and is_this_mem(n.get("obj"), M.m_coeffs):
                                r_ = row_residue(n["args"][0], g, K)
                                if r_ is None:
                                    raise Broken("%s::%s: coefficient row index %s is not of the form K * (integer expression) + constant" % (cls, gname, pp(n["args"][0])))
                                if r_ == 0:
                                    zero_rows.append(pp(n["args"][0]))
                        chk.ob("C14-R2", "%s::%s never reads a c_0 row" % (cls, gname), not zero_rows, loc(g), "rows %s" % sorted(used), construct="%s/translation/%s" % (cls, gname))
                # system rows
                if short == "CubicSplineND":
                    CR = c02.cubic_rows(F, M)
                    m = sp.Symbol("m", integer=True, positive=True)
                    rowm = CR["interior"](m)
                    psum = sum((c for a, c in rowm.t.items() if a[0] == M.m_points), Integer(0))
                    chk.ob("C14-R2", "%s system row: waypoint coefficients sum to 0" % cls, sym.is_zero(psum), loc(M.solve_fn), str(sp.simplify(psum)), construct="%s/translation/system" % cls)
                    hsm = [M.dur(m - 1), M.dur(m)]
                    wts = set()
                    ok = True
                    for a, c in rowm.t.items():
                        dg = hdeg(c, hsm)
                        w_ = wt.get(a[0], wt.get(CR["arr"]))
                        if a[0] == CR["arr"]:
                            w_ = -2
                        if dg is None:
                            ok = False
                        else:
                            wts.add(dg + w_)
                    chk.ob("C14-R4", "%s system row is homogeneous in the duration weights" % cls, ok and len(wts) == 1, loc(M.solve_fn), "weights %s" % wts, construct="%s/units/system" % cls)
                    # mirror: lower_i(h) = upper_{i-1}(h)  and diagonal symmetric
                    iv = CR["var"]
                    lo, up = CR["lower"], CR["upper"]
                    okm = sym.is_zero(lo - up.subs(iv, iv - 1))
                    chk.ob("C14-R5", "%s tridiagonal matrix is symmetric (lower_i = upper_{i-1})" % cls, okm, loc(M.solve_fn), "lower %s upper %s" % (lo, up), construct="%s/mirror/offdiag" % cls)
                    diag = rowm.coeff((CR["arr"], sp.expand(m)))
                    swapped = diag.xreplace({M.dur(m - 1): M.dur(m), M.dur(m): M.dur(m - 1)})
                    chk.ob("C14-R5", "%s diagonal entry is symmetric in the two adjacent durations" % cls, sym.is_zero(diag - swapped), loc(M.solve_fn), str(diag), construct="%s/mirror/diag" % cls)
                    # first and last rows mirror each other
                    n = sp.Symbol(M.m_count, integer=True, positive=True)
                    a0 = CR["row0"].coeff((CR["arr"], Integer(0)))
                    c0 = CR["row0"].coeff((CR["arr"], Integer(1)))
                    an = CR["rown"].coeff((CR["arr"], n))
                    bn = CR["rown"].coeff((CR["arr"], sp.expand(n - 1)))
                    x = sp.Symbol("x_h", positive=True)
                    okf = sym.is_zero(a0.subs(M.dur(0), x) - an.subs(M.dur(n - 1), x)) and sym.is_zero(c0.subs(M.dur(0), x) - bn.subs(M.dur(n - 1), x))
                    chk.ob("C14-R5", "%s first and last rows are mirror images" % cls, okf, loc(M.solve_fn), "(%s, %s) vs (%s, %s)" % (a0, c0, an, bn), construct="%s/mirror/ends" % cls)
                else:
                    B = BlockRun(F, M, "middle")
                    b = s - 1
                    bi = B.i
                    hL, hR = M.dur(bi), M.dur(bi + 1)
                    Lm = sp.Matrix(b, b, lambda r, c: M.expand_scalar(B.L.e[r][c]))
                    Um = sp.Matrix(b, b, lambda r, c: M.expand_scalar(B.U.e[r][c]))
                    Dm = sp.Matrix(b, b, lambda r, c: M.expand_scalar(B.D0.e[r][c]))
                    # translation: rhs rows in difference form
                    for a in range(b):
                        v = B.rhs_final[a]
                        plain = Vec({k: c for k, c in v.t.items() if str(k[0]).split("#")[0] != B.rhs_name})
                        pv = norm_vec(M.expand_vec(plain))
                        psum = sum((M.expand_scalar(c) for at, c in pv.t.items() if at[0] == M.m_points), Integer(0))
                        chk.ob("C14-R2", "%s system right-hand side row %d: waypoint coefficients sum to 0" % (cls, a), sym.is_zero(psum), loc(B.fn), str(sp.simplify(psum)), construct="%s/translation/rhs%d" % (cls, a))
                        # units: unknown j has weight -(j+1)
                        wts = set()
                        ok = True
                        for j in range(b):
                            for mat in (Lm, Dm, Um):
                                if mat[a, j] != 0:
                                    dg = hdeg(mat[a, j], [hL, hR])
                                    if dg is None:
                                        ok = False
                                    else:
                                        wts.add(dg - (j + 1))
                        for at, c in pv.t.items():
                            dg = hdeg(M.expand_scalar(c), [hL, hR])
                            if dg is None:
                                ok = False
                            else:
                                wts.add(dg + 0)
                        chk.ob("C14-R4", "%s system row %d is homogeneous in the duration weights" % (cls, a), ok and len(wts) == 1, loc(B.fn), "weights %s" % sorted(wts), construct="%s/units/system%d" % (cls, a))
                    # mirror symmetry
                    x = sp.Symbol("x_h", positive=True)
                    S_ = sp.diag(*[(-1) ** (j + 1) for j in range(b)])   # unknown j is the derivative of order j+1: odd orders change sign under time reversal
                    found = None
                    for signs in itertools.product((1, -1), repeat=b):
                        R_ = sp.diag(*signs)
                        okU = (Um.subs(hR, x) - R_ * S_ * Lm.subs(hL, x) * S_).applyfunc(sp.simplify) == sp.zeros(b, b)
                        Dsw = Dm.xreplace({hL: hR, hR: hL})
                        okD = (Dsw - R_ * S_ * Dm * S_).applyfunc(sp.simplify) == sp.zeros(b, b)
                        if okU and okD:
                            found = signs
                            break
                    chk.ob("C14-R5", "%s blocks are mirror images: U(h) = R S L(h) S and D(h_R,h_L) = R S D(h_L,h_R) S" % cls, found is not None, loc(B.fn),
                           "S = diag%s, R = diag%s" % (tuple((-1) ** (j + 1) for j in range(b)), found), construct="%s/mirror/blocks" % cls)
                    if found is not None:
                        # right-hand side under reversal: swap h_L <-> h_R and P_{m-1} <-> P_{m+1}
                        okr = True
                        for a in range(b):
                            v = B.rhs_final[a]
                            plain = norm_vec(M.expand_vec(Vec({k: c for k, c in v.t.items() if str(k[0]).split("#")[0] != B.rhs_name})))
                            mir = Vec()
                            for at, c in plain.t.items():
                                off = sp.expand(at[1] - bi)
                                at2 = (at[0], sp.expand(bi + 2 - off))
                                mir = mir.add(Vec({at2: M.expand_scalar(c).xreplace({hL: hR, hR: hL})}))
                            plain_e = Vec({at: M.expand_scalar(c) for at, c in plain.t.items()})
                            okr = okr and all(sym.is_zero(c) for c in mir.add(plain_e.scale(found[a] * (-1) ** (a + 1)), -1).t.values())
                        chk.ob("C14-R5", "%s right-hand side rows are mirror images under reversal (r_mirrored = R S r)" % cls, okr, loc(B.fn), "", construct="%s/mirror/rhs" % cls)
            history.for_each_outcome(chk, per_class)
    # raw-storage views of the coefficient matrix in the energy / energy-gradient functions, in *every* instantiated DIM
    # (the storage order depends on it): a view that reaches a c_0 row brings the absolute waypoint positions in
    from .. import rawview
    for short in SPLINES:
        for cls in full_classes(F, short, ("update", "propagateGrad")):
            M_ = spline_model(F, cls) if cls in {c_ for c_ in alg_classes(F, short, ("update", "propagateGrad"))} else None
            rec_ = F.record(cls)
            st_ = {s_["name"]: s_.get("v") for s_ in rec_["statics"]}
            if "COEFF_NUM" not in st_:
                continue
            K_ = int(st_["COEFF_NUM"])
            for gname in ("getEnergy", "getEnergyGradTimes", "getEnergyGradInnerPoints", "getEnergyGradBoundary", "getEnergyPartialGradByTimes", "getEnergyPartialGradByCoeffs"):
                for g in F.funcs(cls, gname):
                    if not any(rawview.is_map_ctor(n) or rawview.is_eigen_data_call(n) for n in walk(g.get("body"))):
                        continue
                    vs = rawview.resolve_views(F, g)       # not resolvable: analysis-broken
                    for (_n, obj, a_, b_, rows_) in vs:
                        if "coeff" not in obj:
                            continue
                        residues = {(a_ + b_ * r_) % K_ for r_ in range(K_)}
                        chk.ob("C14-R2", "%s::%s raw view of the coefficient rows never reaches a c_0 row" % (cls, gname), 0 not in residues, loc(g, _n),
                               "view rows %d + %d r: residues modulo %d = %s" % (a_, b_, K_, sorted(residues)), construct="%s/translation/%s/raw-view" % (cls, gname))
    chk.floor("C14-R2", 30)
    chk.floor("C14-R4", 25)
    chk.floor("C14-R5", 6)
    chk.not_decided = ["the invariances themselves are consequences of these necessary conditions together with C02 (uniqueness of the minimiser); rounding (powers of two give exact relations) is not analysed"]


def is_lhs(f, node):
    """member access `node` occurs only as the target of an assignment / initialiser in f"""
    for n in walk(f.get("body")):
        if n.get("k") == "assign" and n["l"] is node:
            return True
        if n.get("k") == "call" and callee(n).get("op") == "=" and n.get("obj") is node:
            return True
    return False


STATICS = {}


def row_residue(node, f, K):
    """(row index) mod K for an index built from literals, + - *, the function's integer locals (read through their single
    initialiser) and loop variables (free integers); None when the index is not K * (integer expression) + constant."""
    decls = {n["id"]: n for n in walk(f["body"]) if n.get("k") == "decl"}
    statics = dict(STATICS.get(f.get("cls"), {}))
    assigned = {strip_var(n.get("l")) for n in walk(f["body"]) if n.get("k") == "assign"} | {strip_var(n.get("e")) for n in walk(f["body"]) if n.get("k") == "un" and n.get("op") in ("++", "--")}

    def ev(n, depth=0):
        while isinstance(n, dict) and n.get("k") in ("cast", "paren", "conv", "copy") and n.get("e") is not None:
            n = n["e"]
        if not isinstance(n, dict) or depth > 30:
            return None
        k = n.get("k")
        if k == "lit":
            try:
                return Integer(int(str(n.get("v"))))
            except ValueError:
                return None
        if k == "bin" and n.get("op") in ("+", "-", "*"):
            a, b = ev(n["l"], depth + 1), ev(n["r"], depth + 1)
            if a is None or b is None:
                return None
            return {"+": a + b, "-": a - b, "*": a * b}[n["op"]]
        if n.get("v") is not None and k != "lit":
            try:
                return Integer(int(str(n["v"])))          # a compile-time constant of the class (COEFF_NUM, ORDER)
            except ValueError:
                pass
        if k in ("var", "mem", "static", "declref") and statics.get(n.get("name") or n.get("field")) is not None:
            try:
                return Integer(int(str(statics[n.get("name") or n.get("field")])))
            except ValueError:
                pass
        if k == "var":
            d = decls.get(n.get("id"))
            # a local integer that is initialised and never assigned again (declared const or not) is its initialiser
            if d is not None and d.get("init") is not None and n.get("id") not in assigned and (d.get("ty") or {}).get("c") == "int" and not (d.get("ty") or {}).get("ref"):
                return ev(d["init"], depth + 1)
            return sp.Symbol("v%s_%s" % (n.get("id"), n.get("name")), integer=True)
        if k == "mem":
            return sp.Symbol("m_" + str(n.get("field")), integer=True)
        return None
    e = ev(node)
    if e is None:
        return None
    e = sp.expand(e)
    const = e.as_coeff_Add()[0]
    rest = sp.expand(e - const)
    if rest != 0 and not all(sp.sympify(c_).is_Integer and c_ % K == 0 for c_ in sp.Poly(rest, *sorted(rest.free_symbols, key=str)).coeffs()):
        return None
    return int(const) % K


def strip_var(n):
    while isinstance(n, dict) and n.get("k") in ("cast", "paren", "conv", "copy") and n.get("e") is not None:
        n = n["e"]
    return n.get("id") if isinstance(n, dict) and n.get("k") == "var" else None


def row_offset(txt, K):
    """constant offset of a row index text like '((i * 6) + 3)' modulo K, or None"""
    import re
    m = re.search(r"\+ (\d+)\)$", txt.strip())
    if m:
        return int(m.group(1)) % K
    if re.fullmatch(r"\d+", txt.strip()):
        return int(txt) % K
    return None
