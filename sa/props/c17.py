"""C17 - time maps are smooth increasing bijections onto positive durations (DESIGN s6 C17).

The closed forms of toTime / toTau / backward are extracted branch by branch from the AST and the
rules are calculus on those forms (exact arithmetic, all real tau, all T > 0):
R1 toTime is continuous and C1 at the switch; backward = gradT * d toTime/d tau with the same switch;
R2 toTau o toTime = id and toTime o toTau = id, the branch conditions correspond;
R3 positivity of the duration and of the derivative on each branch (sign domain on polynomial coefficients);
R4 the identity map passes values and gradients through.
"""
import sympy as sp
from sympy import Integer, Rational

from ..facts import Broken, pp, loc
from .. import sym
from ..sym import Interp, Unsupported
from .common import facts_for


def paths(F, cls, f):
    """[(conds [(sympy relational, decision)], return value)] for a branching scalar function."""
    results = []
    script_stack = [[]]
    while script_stack:
        script = script_stack.pop()
        taken = []

        def oracle(stmt, c, interp, script=script, taken=taken):
            k = len(taken)
            if k < len(script):
                d = script[k]
            else:
                d = True
                script_stack.append(script[:k] + [False])
            taken.append((c, d))
            return d

        I = Interp(F, cls, branch_oracle=oracle)
        env = {}
        syms = []
        for p in f["params"]:
            s = sp.Symbol(p["name"], real=True)
            env[p["id"]] = s
            syms.append(s)
        ret = I.run_body(f, env)
        script[:] = [d for _, d in taken]
        results.append((list(taken), ret, syms))
    return results


def pieces(F, cls, f):
    """Flatten to [(condition (sympy boolean), value)] with the ternary operator expanded."""
    out = []
    for conds, ret, syms in paths(F, cls, f):
        base = sp.true
        for c, d in conds:
            base = sp.And(base, c if d else sp.Not(c))
        if isinstance(ret, sp.Piecewise):
            prev = sp.true
            for val, cond in ret.args:
                out.append((sp.And(base, prev, cond), val))
                prev = sp.And(prev, sp.Not(cond))
        else:
            out.append((base, ret))
    return out, syms


def boundary_points(cond, var):
    pts = set()
    for rel in cond.atoms(sp.core.relational.Relational):
        sol = sp.solve(sp.Eq(rel.lhs - rel.rhs, 0), var)
        for s in sol:
            if s.is_real:
                pts.add(s)
    return pts


def region_value(pcs, var, lo, hi):
    """The piece that applies on the open interval (lo, hi): conditions are classified at an interior point."""
    if lo == -sp.oo and hi == sp.oo:
        probe = Integer(0)
    elif lo == -sp.oo:
        probe = hi - 1
    elif hi == sp.oo:
        probe = lo + 1
    else:
        probe = (lo + hi) / 2
    hits = [v for c, v in pcs if c.subs(var, probe) == sp.true]
    if len(hits) != 1:
        raise Broken("pieces do not partition the line at %s: %s" % (probe, pcs))
    return hits[0]


def exact(e):
    """binary floating literals of the source (0.5, 1.0, ...) as exact rationals"""
    return sp.nsimplify(e, rational=True)


def sign_on_halfline(e, u, strict=True, open_end=False):
    """Is e > 0 (>= 0 when not strict) for every u >= 0 (u > 0 with open_end)?  True / False are decided exactly:
    by sympy's sign assumptions, or - for a ratio of polynomials in u - by counting real roots (Sturm sequences) and
    evaluating the sign between them.  None: not decided."""
    e = exact(sp.together(sp.expand(e)))
    if (e.is_positive if strict else e.is_nonnegative):
        return True
    if e.is_negative:
        return False
    num, den = sp.fraction(sp.together(e))
    try:
        Pn, Pd = sp.Poly(sp.expand(num), u), sp.Poly(sp.expand(den), u)
    except sp.PolynomialError:
        return None
    if (Pn.free_symbols | Pd.free_symbols) - {u} or not all(c.is_Rational for c in Pn.all_coeffs() + Pd.all_coeffs()):
        return None
    if Pd.count_roots(0, sp.oo) > 0:
        return None             # a pole on the half-line: the expression is not a function there
    cuts = sorted(set(r for r in sp.real_roots(Pn) if r >= 0), key=lambda r: sp.N(r, 50))
    if strict:
        inner = [r for r in cuts if r > 0 or not open_end]
        if inner:
            return False        # the value is exactly zero there
    pts = []
    ends = [sp.Integer(0)] + cuts + [None]
    for lo, hi in zip(ends[:-1], ends[1:]):
        if hi is None:
            pts.append(lo + 1)
        elif hi != lo:
            pts.append((lo + hi) / 2)
    for x in pts:
        v = sp.N((num / den).subs(u, x), 60)
        if v < 0:
            return False
    return True


def pos_on(expr, var, side, b, strict=True, open_end=False):
    """expr > 0 (>= 0) for var on one side of b: substitute var = b +/- u, u >= 0.  Undecided is analysis-broken."""
    u = sp.Symbol("u", nonnegative=True)
    e = sp.expand(expr.subs(var, b + u if side > 0 else b - u))
    r = sign_on_halfline(e, u, strict=strict, open_end=open_end)
    if r is None:
        raise Broken("sign of %s for %s %s %s not decided" % (expr, var, ">=" if side > 0 else "<=", b))
    return r


def identically_zero(e, syms):
    """e == 0 as a function of the non-negative symbols syms?  True when simplification proves it; False when evaluation
    at an exact sample point (60 digits) gives a non-zero value, which refutes the identity; otherwise undecided."""
    e = exact(e)
    if sp.simplify(e) == 0:
        return True
    for k in (Rational(1, 3), Rational(2, 1), Rational(7, 5)):
        try:
            v = sp.N(e.subs({s_: k for s_ in syms}), 60)
        except Exception:
            continue
        if v.is_number and v.is_finite and abs(v) > sp.Float("1e-40"):
            return False
    raise Broken("identity %s = 0 not decided" % e)


def multi_piece_inverse(chk, ta, T, tb, left, right, tau, b, where):
    """C17-R2 for an inverse with any finite number of pieces on T > 0 (DESIGN s13.9): on every interval between
    consecutive switch points the piece v must satisfy toTime(v(T)) = T (with toTime's branch chosen by the side of its
    switch v(T) lies on).  A piece is refuted by an exact sample point of the interval where the residual, relative to
    the distance of T from toTime(switch) (the scale of tau there), exceeds 1e-9 - a truncated series is, an identity
    that merely does not simplify is not; a piece that is neither refuted nor proved ends analysis-broken."""
    pts = sorted(p_ for p_ in tb if p_.is_positive)
    if not pts:
        raise Broken("toTau: no switch point on T > 0")
    Tsw = left.subs(tau, b)
    edges = [Integer(0)] + pts + [sp.oo]
    for lo, hi in zip(edges, edges[1:]):
        v = region_value(ta, T, lo, hi)
        samples = [lo + Rational(1, 1000), lo + 1, 2 * lo + 10] if hi == sp.oo else [lo + (hi - lo) * Rational(k, 1000) for k in (1, 250, 500, 750, 999)]
        refuted, side = None, None
        for t0 in samples:
            tv = sp.N(v.subs(T, t0), 60)
            if not (tv.is_number and tv.is_real and tv.is_finite):
                refuted = "toTau(%s) = %s is not a finite real" % (t0, tv)
                break
            this_side = right if tv >= sp.N(b, 60) else left
            side = side or this_side
            res = abs(sp.N(this_side.subs(tau, tv), 60) - t0)
            scale = abs(sp.N(t0 - Tsw, 60))
            if scale > 0 and res / scale > sp.Float("1e-9"):
                refuted = "at T = %s: toTime(toTau(T)) - T = %s (%s relative to |T - %s|)" % (t0, sp.N(res, 6), sp.N(res / scale, 6), Tsw)
                break
        inst = "toTime(toTau(T)) = T for T in (%s, %s)" % (lo, hi)
        if refuted:
            chk.ob("C17-R2", inst, False, where, "piece %s: %s" % (v, refuted), construct="QuadInvTimeMap/inverse/piece(%s,%s)" % (lo, hi))
            continue
        Tp = sp.Symbol("Tp", positive=True)
        if sp.simplify(exact(side.subs(tau, v)).subs(T, Tp) - Tp) != 0:
            raise Broken("toTau: piece %s on (%s, %s) neither refuted nor proved an inverse of toTime" % (v, lo, hi))
        chk.ob("C17-R2", inst, True, where, "piece %s" % v, construct="QuadInvTimeMap/inverse/piece(%s,%s)" % (lo, hi))


def sqrt_simplify(e, assume_nonneg):
    """Simplify sqrt(polynomial^2-like) under var = b +/- u, u >= 0 (already substituted)."""
    def fix(x):
        if x.is_Pow and x.exp == Rational(1, 2):
            arg = sp.factor(sp.together(sp.expand(x.base)))
            num, den = sp.fraction(arg)
            rn, rd = sp.sqrt(sp.factor(num)), sp.sqrt(sp.factor(den))
            return sp.simplify(rn / rd)
        return x
    e2 = e.replace(lambda x: x.is_Pow and x.exp == Rational(1, 2), fix)
    return sp.simplify(e2)


def run(chk):
    F = facts_for(chk)
    cls = "SplineTrajectory::QuadInvTimeMap"
    fs = {nm: F.func1(cls, nm) for nm in ("toTime", "toTau", "backward")}
    for g in fs.values():
        chk.saw(g)
    tt, (tau,) = pieces(F, cls, fs["toTime"])
    ta, (T,) = pieces(F, cls, fs["toTau"])
    bw, (btau, bT, bg) = pieces(F, cls, fs["backward"])
    chk.note("toTime pieces: %s" % [(str(c), str(v)) for c, v in tt])
    chk.note("toTau pieces: %s" % [(str(c), str(v)) for c, v in ta])
    chk.note("backward pieces: %s" % [(str(c), str(v)) for c, v in bw])
    # switch points
    bpts = set()
    for c, v in tt:
        bpts |= boundary_points(c, tau)
    where = loc(fs["toTime"])
    if len(bpts) != 1:
        # more than one switch: decide what can be decided piece by piece before giving up.  A piece on which toTime is
        # constant (a clamp) is neither strictly increasing nor invertible - a violation whatever the other pieces do.
        pts = sorted(bpts, key=lambda x: float(sp.N(x, 60)))
        ends = [-sp.oo] + pts + [sp.oo]
        flat = []
        for lo, hi in zip(ends[:-1], ends[1:]):
            val = region_value(tt, tau, lo, hi)
            if sp.simplify(sp.diff(val, tau)) == 0:
                flat.append((lo, hi, val))
        for lo, hi, val in flat:
            chk.ob("C17-R3", "d toTime/d tau > 0 on (%s, %s)" % (sp.N(lo, 8), sp.N(hi, 8)), False, where, "toTime is the constant %s there: not strictly increasing, not injective, and backward no longer equals its derivative" % val,
                   construct="QuadInvTimeMap/toTime/increasing/flat-piece")
        if flat:
            return
        raise Broken("toTime: expected exactly one switch point, got %s" % bpts)
    b = next(iter(bpts))
    left = region_value(tt, tau, -sp.oo, b)
    right = region_value(tt, tau, b, sp.oo)
    chk.ob("C17-R1", "toTime continuous at the switch tau=%s" % b, sp.simplify(left.subs(tau, b) - right.subs(tau, b)) == 0, where,
           "left %s -> %s, right %s -> %s" % (left, left.subs(tau, b), right, right.subs(tau, b)), construct="QuadInvTimeMap/toTime/C0")
    dl, dr = sp.diff(left, tau), sp.diff(right, tau)
    chk.ob("C17-R1", "toTime continuously differentiable at the switch", sp.simplify(dl.subs(tau, b) - dr.subs(tau, b)) == 0, where,
           "left slope %s, right slope %s" % (sp.simplify(dl.subs(tau, b)), sp.simplify(dr.subs(tau, b))), construct="QuadInvTimeMap/toTime/C1")
    # the value exactly at the switch: whichever branch owns it gives the common value
    at = [v for c, v in tt if c.subs(tau, b) == sp.true]
    chk.ob("C17-R1", "toTime defined at the switch", len(at) == 1 and sp.simplify(at[0].subs(tau, b) - left.subs(tau, b)) == 0, where, str(at), construct="QuadInvTimeMap/toTime/at-switch")
    # backward
    bb = set()
    for c, v in bw:
        bb |= boundary_points(c, btau)
    okb = True
    details = []
    for lo, hi, ref in ((-sp.oo, b, dl), (b, sp.oo, dr)):
        if bb - {b}:
            okb = False
            details.append("backward switches at %s, toTime at %s" % (bb, b))
            break
        val = region_value(bw, btau, lo, hi)
        d = sp.simplify(val - bg * ref.subs(tau, btau))
        details.append("on (%s,%s): backward - gradT*dT/dtau = %s" % (lo, hi, d))
        okb = okb and d == 0
    chk.ob("C17-R1", "backward = gradT * d toTime / d tau on both sides of the same switch", okb, loc(fs["backward"]), "; ".join(details), construct="QuadInvTimeMap/backward")
    atb = [v for c, v in bw if c.subs(btau, b) == sp.true]
    chk.ob("C17-R1", "backward at the switch equals the common slope", len(atb) == 1 and sp.simplify(atb[0].subs(btau, b) - bg * dl.subs(tau, b)) == 0, loc(fs["backward"]), str(atb),
           construct="QuadInvTimeMap/backward/at-switch")
    # ---- R3 positivity / monotonicity ---------------------------------------------
    chk.ob("C17-R3", "toTime > 0 for tau right of the switch", pos_on(right, tau, +1, b), where, str(right), construct="QuadInvTimeMap/toTime/positive-right")
    chk.ob("C17-R3", "toTime > 0 for tau left of the switch", pos_on(left, tau, -1, b), where, str(left), construct="QuadInvTimeMap/toTime/positive-left")
    chk.ob("C17-R3", "d toTime/d tau > 0 right of the switch", pos_on(dr, tau, +1, b), where, str(dr), construct="QuadInvTimeMap/toTime/increasing-right")
    chk.ob("C17-R3", "d toTime/d tau > 0 left of the switch", pos_on(dl, tau, -1, b), where, str(sp.simplify(dl)), construct="QuadInvTimeMap/toTime/increasing-left")
    # ---- R2 inverse ------------------------------------------------------------------
    tb = set()
    for c, v in ta:
        tb |= boundary_points(c, T)
    if len(tb) != 1:
        multi_piece_inverse(chk, ta, T, tb, left, right, tau, b, loc(fs["toTau"]))
    else:
        Tb = next(iter(tb))
        chk.ob("C17-R2", "toTau switches at T = toTime(switch)", sp.simplify(Tb - left.subs(tau, b)) == 0, loc(fs["toTau"]), "T switch %s, toTime(%s) = %s" % (Tb, b, left.subs(tau, b)),
               construct="QuadInvTimeMap/toTau/switch")
        a_lo = region_value(ta, T, 0, Tb)
        a_hi = region_value(ta, T, Tb, sp.oo)
        u = sp.Symbol("u", nonnegative=True)
        # tau = b + u  -> T = right(tau) >= Tb -> toTau upper branch
        comp_r = sqrt_simplify(a_hi.subs(T, right.subs(tau, b + u)), u)
        chk.ob("C17-R2", "toTau(toTime(tau)) = tau right of the switch", identically_zero(comp_r - (b + u), [u]), loc(fs["toTau"]), "composition with tau=b+u: %s" % comp_r,
               construct="QuadInvTimeMap/inverse/right")
        chk.ob("C17-R2", "toTime maps the right side into toTau's upper branch", pos_on(right - Tb, tau, +1, b, strict=False), where, str(sp.expand(right - Tb)),
               construct="QuadInvTimeMap/inverse/right-branch")
        comp_l = sqrt_simplify(a_lo.subs(T, left.subs(tau, b - u)), u)
        chk.ob("C17-R2", "toTau(toTime(tau)) = tau left of the switch", identically_zero(comp_l - (b - u), [u]), loc(fs["toTau"]), "composition with tau=b-u: %s" % comp_l,
               construct="QuadInvTimeMap/inverse/left")
        chk.ob("C17-R2", "toTime maps the left side into toTau's lower branch", pos_on(Tb - left, tau, -1, b, strict=False), where, str(sp.simplify(Tb - left)),
               construct="QuadInvTimeMap/inverse/left-branch")
        # toTime(toTau(T)) = T on both T-branches (T = Tb + w, and T = Tb/(1+w) for the lower one)
        w = sp.Symbol("w", nonnegative=True)
        tau_hi = a_hi.subs(T, Tb + w)
        val_hi = sp.simplify(right.subs(tau, tau_hi) - (Tb + w))
        chk.ob("C17-R2", "toTime(toTau(T)) = T for T above the switch", identically_zero(val_hi, [w]), loc(fs["toTau"]), "residual %s" % val_hi, construct="QuadInvTimeMap/inverse/T-high")
        Tl = Tb / (1 + w)
        tau_lo = a_lo.subs(T, Tl)
        val_lo = sp.simplify(left.subs(tau, tau_lo) - Tl)
        chk.ob("C17-R2", "toTime(toTau(T)) = T for 0 < T below the switch", identically_zero(val_lo, [w]), loc(fs["toTau"]), "residual %s" % val_lo, construct="QuadInvTimeMap/inverse/T-low")
        # toTau lands on the matching side: a_hi(T>=Tb) >= b ; a_lo(T<=Tb) <= b
        chk.ob("C17-R2", "toTau maps T above the switch to tau right of it", sqrt_nonneg(tau_hi - b, w), loc(fs["toTau"]), str(tau_hi), construct="QuadInvTimeMap/inverse/T-high-side")
        chk.ob("C17-R2", "toTau maps T below the switch to tau left of it", sqrt_nonneg(b - tau_lo, w), loc(fs["toTau"]), str(tau_lo), construct="QuadInvTimeMap/inverse/T-low-side")
    # ---- R4 identity map -----------------------------------------------------------------
    icls = "SplineTrajectory::IdentityTimeMap"
    for nm, idx in (("toTime", 0), ("toTau", 0), ("backward", 2)):
        g = F.func1(icls, nm)
        chk.saw(g)
        pcs, syms = pieces(F, icls, g)
        ok = len(pcs) == 1 and sp.simplify(pcs[0][1] - syms[idx]) == 0
        chk.ob("C17-R4", "IdentityTimeMap::%s passes its %s through" % (nm, "gradient" if nm == "backward" else "argument"), ok, loc(g), str(pcs), construct="IdentityTimeMap/" + nm)
    chk.floor("C17-R1", 5)
    # the two-piece formulation states 9 obligations; the piece-by-piece one states one per interval of T > 0
    chk.floor("C17-R2", 9 if len(tb) == 1 else len([p_ for p_ in tb if p_.is_positive]) + 1)
    chk.floor("C17-R3", 4)
    chk.floor("C17-R4", 3)
    chk.not_decided = ["monotonicity between adjacent floating-point numbers", "accuracy of the inverse near |tau| = 1e6 (rounding)"]
    chk.trusted.append("sympy calculus (diff, simplify, exact real-root counting) on the extracted closed forms; identities refuted only by exact evaluation at a sample point")


def sqrt_nonneg(e, w):
    """e >= 0 for w >= 0 where e = a*sqrt(ratio of polynomials in w) + c: decided by squaring monotonically.
    Anything else is undecided (analysis-broken), never a verdict."""
    def dec(x):
        r_ = sign_on_halfline(x, w, strict=False)
        if r_ is None:
            raise Broken("sign of %s for %s >= 0 not decided" % (x, w))
        return r_
    e = sp.simplify(exact(e))
    roots = [x for x in e.atoms(sp.Pow) if x.exp == Rational(1, 2)]
    if not roots:
        return dec(e)
    if len(roots) != 1:
        raise Broken("sign of %s not decided (several radicals)" % e)
    r = roots[0]
    a = sp.simplify(e.coeff(r))
    c = sp.simplify(e - a * r)
    if not (a.is_number and c.is_number):
        raise Broken("sign of %s not decided (radical with non-constant factor)" % e)
    # a*sqrt(q) + c >= 0
    q = r.base
    if a > 0:
        if c >= 0:
            return True
        # sqrt(q) >= -c/a  <=>  q - (c/a)^2 >= 0
        return dec(q - (c / a) ** 2)
    else:
        if c < 0:
            return False
        # c >= |a| sqrt(q)  <=> (c/a)^2 - q >= 0
        return dec((c / a) ** 2 - q)
