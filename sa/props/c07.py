"""C07 - the optimizer gradient is the exact gradient of the cost it returns (DESIGN s6 C07).

User functors and maps are opaque symbols with named partials (gp, gv, ga, gj, gs, gt; backward, backwardGrad);
assumption: they return the true partials and depend on time only through the global time argument.
R1 quadrature derivative: dC block, the three dT terms, the explicit-time buffer and its suffix accumulation;
R2 assembly order of evaluate();   R3 energy and waypoint-cost gradients reach every gradient field;
R4 back-substitution pairing (shared with C09-R2, re-stated here);   R5 grad_out zeroed to x's size.
"""
import sympy as sp
from sympy import Integer

from ..facts import Broken, pp, loc, walk
from ..effects import callee
from .. import preds, sym, spec
from ..preds import Scope, canon
from ..sym import Interp, Vec
from .common import facts_for, optimizer_classes, optimizer_spline_order, strip_copy
from .c08 import integral_summary, find_loops, GNAMES
from . import c09

STATE = ["p", "v", "a", "j"]


def run(chk):
    F = facts_for(chk)
    for cls in optimizer_classes(F):
        order, spl = optimizer_spline_order(F, cls)
        Kc = {3: 4, 5: 6, 7: 8}[order]
        for f in F.funcs(cls, "calculateIntegralCost"):
            check_quadrature(chk, F, cls, f, Kc)
        from ..effects import Effects
        from . import evalctx
        ctx = evalctx.context(F, Effects(F), cls)
        for k_, f in enumerate([g for g in F.funcs(cls, "evaluate") if len(g["params"]) == 7]):
            check_assembly(chk, F, cls, f, order, spl, ctx, k_ == 0)
    # ---- R6 premise: evaluate() obtains the gradient with respect to waypoints, durations and boundary states from the
    # spline's propagateGrad / energy gradients; it is the gradient of the returned cost for every dimension and order only
    # if that propagation is the exact adjoint of the construction map - C05's obligations, re-derived per spline
    # instantiation of the witness set (both arms of the septic class)
    from .. import core
    from ..model import spline_model
    from .common import alg_classes, SPLINES
    from . import c05
    for short in SPLINES:
        for scls in alg_classes(F, short, ("update", "propagateGrad")):
            sub = core.Check("C05", chk.tier, chk.root)
            c05.check_class(sub, F, spline_model(F, scls), short)
            rel = [o for o in sub.obs if o["rule"] in ("C05-R1", "C05-R2", "C05-R3", "C05-R4", "C05-R5")]
            bad = [o for o in rel if not o["ok"]]
            chk.ob("C07-R6", "%s::propagateGrad is the exact adjoint of the construction map (what evaluate() chains through)" % scls, len(rel) >= 10 and not bad, bad[0]["where"] if bad else "",
                   "%d obligations of C05-R1..R5; first failing: %s" % (len(rel), bad[0]["instance"][:160] if bad else "-"), construct=scls + "/adjoint-premise")
    chk.floor("C07-R6", 4)
    chk.floor("C07-R1", 60)
    chk.floor("C07-R2", 40)
    chk.floor("C07-R3", 60)
    chk.floor("C07-R5", 8)
    chk.not_decided = ["correctness of the user functors' own partials", "rounding",
                       "a running cost that depends on the segment-local time other than through the global time (outside the documented protocol)"]
    chk.trusted += ["chain rule; the spline map's adjoint is C05; the sample states are the derivatives verified in C08-R2/R3",
                    "back-substitution pairing of decision-vector slots is verified in C09-R2"]


def data_skips(I):
    """texts of the `if (c) continue;` guards and effect guards of an interpreted routine whose condition reads data
    (anything but integer index / size symbols and boolean flags)"""
    def is_data(c):
        try:
            c = sp.sympify(c)
        except Exception:
            return True
        if c.atoms(sp.Indexed):
            return True
        return any(not (x.is_integer or x.is_Boolean or getattr(x, "is_bool", False)) and isinstance(x, sp.Symbol) and not isinstance(c, sp.Symbol) for x in c.free_symbols)
    out = []
    stack = list(I.loops)
    seen = set()
    while stack:
        L = stack.pop()
        if id(L) in seen:
            continue
        seen.add(id(L))
        for txt, c in L.locals.get("_skip_guards", []):
            if is_data(c):
                out.append(txt)
        stack.extend(L.inner)
    return sorted(set(out))


def check_quadrature(chk, F, cls, f, Kc):
    chk.saw(f)
    inst = f["full"].split("calculateIntegralCost")[1][:50]
    info = integral_summary(F, cls, f)
    I = info["I"]
    ws, gdC, gdT, cost = info["params"][:4]
    Lseg, Lk, Lstart, Lcost, Lsuffix = find_loops(info)
    i, k = Lseg.var, Lk.var
    # no sample is left out on the value of the running cost, of its partials or of the sampled state: what is skipped
    # would be the gradient terms of a sample whose cost term happens to vanish (or the reverse)
    skips = data_skips(I)
    chk.ob("C07-R1", "%s%s: no quadrature sample or accumulation is skipped on a data value" % (cls, inst), not skips, loc(f),
           "skipped when: %s" % "; ".join(skips[:3]) if skips else "every guard in the routine tests indices / sizes / flags only", construct="%s/integral%s/no-data-skip" % (cls, inst))
    R_ = info["roles"]
    n = sp.Symbol(R_["n"], integer=True, positive=True)
    Ks = sp.Symbol(R_["Ks"], integer=True, positive=True)
    T = sp.Indexed(sp.IndexedBase(R_["T"], real=True), i)
    expl_arr = R_["expl"] or "?"
    cv, gt = sp.Symbol("cval", real=True), sp.Symbol("gt", real=True)
    where = loc(f, {"line": Lseg.line})
    sample = info["sample"]
    alpha = k / Ks
    # trapezoid weight of this sample, as verified by C08-R4: recover it from the cost accumulator
    cost_acc = next(e for e in Lk.effects if e.target.startswith("$") and e.op == "+=" and e.delta is not None and not sym.dots_in(e.delta) and sp.diff(e.delta, cv) != 0 and sp.simplify(sp.diff(e.delta, cv)).has(T))
    w = sp.diff(cost_acc.delta, cv)          # = w_trap * T / K
    g = [Vec.atom((nm,)) for nm in GNAMES]
    states = sample[3:8]                       # p v a j s
    cname = next(iter({a[0] for v in states for a in v.t}))
    cs = spec.coeff_atoms(cname, Kc * i, Kc)
    tloc = alpha * T
    deriv = [spec.deriv_at(cs, d, tloc) for d in range(6)]
    # ---- dC: row r of the block = w * sum_d b_d[r] g_d  ------------------------------------------------
    # the matrix accumulator is block-valued (r rows): carried state is not scalar, read its effects on gdC rows
    rows = {}
    for e in Lseg.effects:
        if e.target == gdC:
            r = sp.expand(e.key[0] - Kc * i)
            if r.is_Integer:
                rows[int(r)] = e
    okrows = set(rows) == set(range(Kc))
    chk.ob("C07-R1", "%s%s dC increment goes to rows [iK, iK+K) of segment i" % (cls, inst), okrows and all(e.op == "+=" for e in rows.values()), where, str(sorted(rows)), construct="%s/quad%s/dC-rows" % (cls, inst))
    for r in range(Kc):
        if r not in rows:
            continue
        want = Vec()
        for d in range(5):
            bd = sp.diff(sp.Symbol("t_") ** r, sp.Symbol("t_"), d).subs(sp.Symbol("t_"), tloc)
            want = want.add(g[d].scale(bd * w))
        got = rows[r].delta
        ok = isinstance(got, Vec) and all(pw_diff(c, 0) == 0 for c in got.add(want, -1).t.values())
        chk.ob("C07-R1", "%s%s dCost/dc_%d sample term = w * sum_d (d^d/dt^d t^%d) g_d" % (cls, inst, r, r), ok, where, "", construct="%s/quad%s/dC/%d" % (cls, inst, r))
    # ---- dT ----------------------------------------------------------------------------------------------
    tacc = [e for e in Lk.effects if e.target.startswith("$") and e.op == "+=" and e is not cost_acc and e.delta is not None]
    gdt_name = None
    for e in Lseg.effects:
        if e.target == gdT and e.op == "+=":
            syms = [s_ for s_ in sp.sympify(e.delta).free_symbols if s_.name.startswith("$")]
            if len(syms) == 1:
                gdt_name = syms[0].name
    expl = [e for e in Lseg.effects if e.target == expl_arr and e.op == "+="]
    expl_name = None
    if expl:
        syms = [s_ for s_ in sp.sympify(expl[0].delta).free_symbols if s_.name.startswith("$")]
        expl_name = syms[0].name if len(syms) == 1 else None
    got_T = sum((e.delta for e in tacc if e.target == gdt_name), Integer(0))
    drift = sum((sym.vdot(g[d], deriv[d + 1]) for d in range(5)), Integer(0))
    want_T = cv * w / T + alpha * w * drift + gt * alpha * w
    d_ = pw_diff(got_T, want_T)
    chk.ob("C07-R1", "%s%s dT sample term = f*w_k/K + alpha*w*(gp.v + gv.a + ga.j + gj.s + gs.c) + alpha*w*gt" % (cls, inst), d_ == 0 and gdt_name is not None, where,
           "code - chain rule = %s" % sp.sstr(d_)[:300], construct="%s/quad%s/dT" % (cls, inst))
    got_E = sum((e.delta for e in tacc if e.target == expl_name), Integer(0))
    chk.ob("C07-R1", "%s%s explicit-time buffer sample term = w * gt" % (cls, inst), expl_name is not None and pw_diff(got_E, gt * w) == 0, where, str(got_E)[:200], construct="%s/quad%s/explicit" % (cls, inst))
    # accumulators start at zero and are flushed to slot i
    okf = True
    for nm in (gdt_name, expl_name):
        car = Lk.carried.get(nm[1:]) if nm else None
        okf = okf and car is not None and car[1] == 0
    flush = [e for e in Lseg.effects if e.target == gdT and e.op == "+="]
    okf = okf and len(flush) == 1 and sym.is_zero(flush[0].key[0] - i) and len(expl) == 1 and sym.is_zero(expl[0].key[0] - i)
    chk.ob("C07-R1", "%s%s per-segment accumulators start at 0 and are added to slot i of dT / of the explicit-time buffer" % (cls, inst), okf, where, "", construct="%s/quad%s/flush" % (cls, inst))
    st = I.effects
    okz = any(e.target == expl_arr and e.op == "setZero" for e in st)
    chk.ob("C07-R1", "%s%s explicit-time buffer is zeroed before the quadrature" % (cls, inst), okz, loc(f), "", construct="%s/quad%s/explicit-zero" % (cls, inst))
    # suffix accumulation: dS_i/dT_j = 1 for j < i, i.e. dT[k] += sum of e[m] over m = k+1 .. N-1 for k = 0 .. N-2.
    # Read off the loop as it is written: a descending index iv, an accumulator acc += e[iv + a], a write
    # dT[iv + b] += (acc after the update | acc before the update); any spelling of these offsets is fine as long as
    # the sums and the range of k come out right.  A loop of another shape is not understood (analysis-broken).
    oks = Lsuffix is not None
    det = ""
    if oks:
        iv = Lsuffix.var
        acc = next(iter(Lsuffix.carried.items()), None)
        ea = [e for e in Lsuffix.effects if e.target.startswith("$")]
        eg = [e for e in Lsuffix.effects if e.target == gdT]
        if not (acc is not None and len(Lsuffix.carried) == 1 and len(ea) == 1 and ea[0].op == "+=" and len(eg) == 1 and eg[0].op == "+=" and Lsuffix.step == -1 and Lsuffix.cond_op in (">", ">=") and Lsuffix.hi is not None):
            raise Broken("suffix loop of the explicit-time terms has an unexpected shape (accumulators %s, stores %s)" % (list(Lsuffix.carried), [e.target for e in Lsuffix.effects]))
        ex = list(sp.sympify(ea[0].delta).atoms(sp.Indexed))
        if not (len(ex) == 1 and str(ex[0].base).split("#")[0] == expl_arr and sym.is_zero(ea[0].delta - ex[0])):
            raise Broken("suffix loop accumulates %s, not one element of the explicit-time buffer" % ea[0].delta)
        a_off = sp.expand(ex[0].indices[0] - iv)
        b_off = sp.expand(eg[0].key[0] - iv)
        last = Lsuffix.hi + 1 if Lsuffix.cond_op == ">" else Lsuffix.hi
        after = sym.is_zero(eg[0].delta - (acc[1][0] + ex[0]))
        before = sym.is_zero(eg[0].delta - acc[1][0])
        if not (a_off.is_Integer and b_off.is_Integer and (after or before)):
            raise Broken("suffix loop adds %s to dT[%s]: not the running sum" % (eg[0].delta, eg[0].key[0]))
        oks = (acc[1][1] == 0 and sym.is_zero(a_off - (b_off + (1 if after else 0))) and sym.is_zero(Lsuffix.lo + a_off - (n - 1)) and sym.is_zero(last + b_off))
        det = "acc += e[%s]; dT[%s] += acc (%s the update); %s from %s down to %s" % (ex[0].indices[0], eg[0].key[0], "after" if after else "before", iv, Lsuffix.lo, last)
    chk.ob("C07-R1", "%s%s explicit-time terms of segment i are added to the durations of all earlier segments (suffix sum, segment i itself excluded)" % (cls, inst), bool(oks), loc(f), det,
           construct="%s/quad%s/suffix" % (cls, inst))


def pw_diff(a, b):
    """expand(a - b) with every Piecewise sub-expression abstracted to a symbol (both sides share the weight factor);
    avoids simplify() on large mismatching expressions."""
    a, b = sp.sympify(a), sp.sympify(b)
    pws = sorted(set(a.atoms(sp.Piecewise)) | set(b.atoms(sp.Piecewise)), key=str)
    rep = {pw: sp.Symbol("W%d_" % k, real=True) for k, pw in enumerate(pws)}
    return sp.expand(a.xreplace(rep) - b.xreplace(rep))


def check_liveness(chk, F, cls, f):
    """R2, shape-independent part: a buffer that receives gradient data (as the mutable out-parameter of a cost functor,
    the quadrature or a spline gradient routine, or by accumulation) must be read again before evaluate() returns -
    otherwise that contribution never reaches grad_out."""
    from ..wsdef import WsDef
    inst = f["full"].split("evaluate")[1][:60]
    wsrec = cls + "::Workspace"
    from .common import workspace_spline_field
    spline_cls = workspace_spline_field(F, wsrec)[1]
    W = WsDef(F, cls, wsrec, spline_cls, {})
    try:
        from .c16 import discover_roles
        from ..effects import Effects as _Eff
        W.count_member = discover_roles(F, _Eff(F), cls)[1]["COUNT"]
    except Broken:
        pass
    W.fn_stack.append(f)
    W.stmts(f["body"]["body"])
    if len(W.carrying) < 4:
        raise Broken("%s%s: fewer than four gradient-carrying workspace buffers recognised (%s)" % (cls, inst, sorted(W.carrying)))
    for fld in sorted(W.carrying):
        dead = W.pending.get(fld)
        chk.ob("C07-R2", "%s%s what is accumulated into %s is used before evaluate returns" % (cls, inst, fld), dead is None, loc(dead[1], dead[0]) if dead else loc(f),
               ("the value written by '%s' is never read afterwards" % pp(dead[0])[:80]) if dead else "", construct="%s/live%s/%s" % (cls, inst, fld))


def check_assembly(chk, F, cls, f, order, spl, ctx, first):
    """R2 / R3 / R5 on the algebraic summary of evaluate() (evalsum / evalrules): what reaches the spline, what is
    propagated, how the gradient struct is completed and what is written to grad_out - per flag assignment and per
    sign of the energy weight - instead of the order and spelling of evaluate()'s statements."""
    from .. import evalrules
    chk.saw(f)
    check_liveness(chk, F, cls, f)
    inst = f["full"].split("evaluate")[1][:60]
    c2 = dict(ctx, void="VoidWaypointsCost" in f["full"])
    V, npaths = evalrules.analyse_cached(F, cls, f, c2, full=(first or chk.tier == "thorough"))
    where = loc(f)
    R = [("C07-R2", "decode-times", "the spline is built from durations toTime(x_i)"),
         ("C07-R2", "decode-waypoints", "the spline is built from the waypoints decoded from x (reference elsewhere)"),
         ("C07-R2", "decode-bc", "the spline is built from the boundary state decoded from x (reference elsewhere)"),
         ("C07-R2", "decode-before-update", "the spline is updated after the whole decision vector has been decoded, and the decoded inputs are not touched afterwards"),
         ("C07-R2", "update-once", "the workspace spline is updated exactly once per evaluation"),
         ("C07-R2", "propagate-inputs", "what is propagated through the spline: dC = quadrature's, dT = time functor's + quadrature's, both zeroed first and complete before propagation"),
         ("C07-R2", "time-buffer", "the time functor sees the decoded durations and a zeroed gradient buffer"),
         ("C07-R3", "G-fields", "every boundary gradient = propagated + rho * energy gradient (rho > 0) + waypoint-cost row (end points)"),
         ("C07-R3", "G-times", "duration gradient = propagated + rho * energy gradient (rho > 0), nothing else"),
         ("C07-R3", "G-inner", "inner-point gradient = propagated + waypoint-cost rows 1..N-1 + rho * energy gradient (rho > 0), nothing else"),
         ("C07-R3", "wp-buffer", "the waypoint functor sees the decoded waypoints and a zeroed gradient buffer, read only after the call"),
         ("C07-R3", "energy-source", "energy and energy gradient come from the workspace spline, once, when the weight is positive"),
         ("C07-R4", "encode-times", "time slots: backward(x_i, T_i, completed dCost/dT_i)"),
         ("C07-R4", "encode-spatial", "spatial slots: backwardGrad(x slice, completed gradient of that waypoint, its index)"),
         ("C07-R4", "encode-blocks", "derivative blocks: completed gradient of the flagged boundary derivative, canonical order"),
         ("C07-R5", "encode-zero", "grad_out is sized to x and zeroed before any slot is written")]
    for rule, rid, text in R:
        okv, detv = V.v[rid]
        chk.ob(rule, "%s%s %s" % (cls, inst, text), okv, where, detv or "%d paths" % npaths, construct="%s/asm%s/%s" % (cls, inst, rid))
