"""C07 - the optimizer gradient is the exact gradient of the cost it returns (DESIGN s6 C07).

User functors and maps are opaque symbols with named partials (gp, gv, ga, gj, gs, gt; backward, backwardGrad);
assumption: they return the true partials and depend on time only through the global time argument.
R1 quadrature derivative: dC block, the three dT terms, the explicit-time buffer and its suffix accumulation;
R2 assembly order of evaluate();   R3 energy and waypoint-cost gradients reach every gradient field;
R4 back-substitution pairing (shared with C09-R2, re-stated here);   R5 grad_out zeroed to x's size.
"""
import sympy as sp
from sympy import Integer

from ..facts import Broken, pp, loc, walk
from ..effects import callee
from .. import preds, sym, spec
from ..preds import Scope, canon
from ..sym import Interp, Vec
from .common import facts_for, optimizer_classes, optimizer_spline_order, strip_copy
from .c08 import integral_summary, find_loops, GNAMES
from . import c09

STATE = ["p", "v", "a", "j"]


def run(chk):
    F = facts_for(chk)
    for cls in optimizer_classes(F):
        order, spl = optimizer_spline_order(F, cls)
        Kc = {3: 4, 5: 6, 7: 8}[order]
        for f in F.funcs(cls, "calculateIntegralCost"):
            check_quadrature(chk, F, cls, f, Kc)
        for f in [g for g in F.funcs(cls, "evaluate") if len(g["params"]) == 7]:
            check_assembly(chk, F, cls, f, order, spl)
    chk.floor("C07-R1", 60)
    chk.floor("C07-R2", 40)
    chk.floor("C07-R3", 60)
    chk.floor("C07-R5", 8)
    chk.not_decided = ["correctness of the user functors' own partials", "rounding",
                       "a running cost that depends on the segment-local time other than through the global time (outside the documented protocol)"]
    chk.trusted += ["chain rule; the spline map's adjoint is C05; the sample states are the derivatives verified in C08-R2/R3",
                    "back-substitution pairing of decision-vector slots is verified in C09-R2"]


def check_quadrature(chk, F, cls, f, Kc):
    chk.saw(f)
    inst = f["full"].split("calculateIntegralCost")[1][:50]
    info = integral_summary(F, cls, f)
    I = info["I"]
    ws, gdC, gdT, cost = info["params"][:4]
    Lseg, Lk, Lstart, Lcost, Lsuffix = find_loops(info)
    i, k = Lseg.var, Lk.var
    n = sp.Symbol("num_segments_", integer=True, positive=True)
    Ks = sp.Symbol("integral_num_steps_", integer=True, positive=True)
    T = sp.Indexed(sp.IndexedBase(ws + ".cache_times", real=True), i)
    cv, gt = sp.Symbol("cval", real=True), sp.Symbol("gt", real=True)
    where = loc(f, {"line": Lseg.line})
    sample = info["sample"]
    alpha = k / Ks
    # trapezoid weight of this sample, as verified by C08-R4: recover it from the cost accumulator
    cost_acc = next(e for e in Lk.effects if e.target.startswith("$") and e.op == "+=" and e.delta is not None and not sym.dots_in(e.delta) and sp.diff(e.delta, cv) != 0 and sp.simplify(sp.diff(e.delta, cv)).has(T))
    w = sp.diff(cost_acc.delta, cv)          # = w_trap * T / K
    g = [Vec.atom((nm,)) for nm in GNAMES]
    states = sample[3:8]                       # p v a j s
    cname = next(iter({a[0] for v in states for a in v.t}))
    cs = spec.coeff_atoms(cname, Kc * i, Kc)
    tloc = alpha * T
    deriv = [spec.deriv_at(cs, d, tloc) for d in range(6)]
    # ---- dC: row r of the block = w * sum_d b_d[r] g_d  ------------------------------------------------
    # the matrix accumulator is block-valued (r rows): carried state is not scalar, read its effects on gdC rows
    rows = {}
    for e in Lseg.effects:
        if e.target == gdC:
            r = sp.expand(e.key[0] - Kc * i)
            if r.is_Integer:
                rows[int(r)] = e
    okrows = set(rows) == set(range(Kc))
    chk.ob("C07-R1", "%s%s dC increment goes to rows [iK, iK+K) of segment i" % (cls, inst), okrows and all(e.op == "+=" for e in rows.values()), where, str(sorted(rows)), construct="%s/quad%s/dC-rows" % (cls, inst))
    for r in range(Kc):
        if r not in rows:
            continue
        want = Vec()
        for d in range(5):
            bd = sp.diff(sp.Symbol("t_") ** r, sp.Symbol("t_"), d).subs(sp.Symbol("t_"), tloc)
            want = want.add(g[d].scale(bd * w))
        got = rows[r].delta
        ok = isinstance(got, Vec) and all(pw_diff(c, 0) == 0 for c in got.add(want, -1).t.values())
        chk.ob("C07-R1", "%s%s dCost/dc_%d sample term = w * sum_d (d^d/dt^d t^%d) g_d" % (cls, inst, r, r), ok, where, "", construct="%s/quad%s/dC/%d" % (cls, inst, r))
    # ---- dT ----------------------------------------------------------------------------------------------
    tacc = [e for e in Lk.effects if e.target.startswith("$") and e.op == "+=" and e is not cost_acc and e.delta is not None]
    gdt_name = None
    for e in Lseg.effects:
        if e.target == gdT and e.op == "+=":
            syms = [s_ for s_ in sp.sympify(e.delta).free_symbols if s_.name.startswith("$")]
            if len(syms) == 1:
                gdt_name = syms[0].name
    expl = [e for e in Lseg.effects if e.target.endswith("explicit_time_grad_buffer") and e.op == "+="]
    expl_name = None
    if expl:
        syms = [s_ for s_ in sp.sympify(expl[0].delta).free_symbols if s_.name.startswith("$")]
        expl_name = syms[0].name if len(syms) == 1 else None
    got_T = sum((e.delta for e in tacc if e.target == gdt_name), Integer(0))
    drift = sum((sym.vdot(g[d], deriv[d + 1]) for d in range(5)), Integer(0))
    want_T = cv * w / T + alpha * w * drift + gt * alpha * w
    d_ = pw_diff(got_T, want_T)
    chk.ob("C07-R1", "%s%s dT sample term = f*w_k/K + alpha*w*(gp.v + gv.a + ga.j + gj.s + gs.c) + alpha*w*gt" % (cls, inst), d_ == 0 and gdt_name is not None, where,
           "code - chain rule = %s" % sp.sstr(d_)[:300], construct="%s/quad%s/dT" % (cls, inst))
    got_E = sum((e.delta for e in tacc if e.target == expl_name), Integer(0))
    chk.ob("C07-R1", "%s%s explicit-time buffer sample term = w * gt" % (cls, inst), expl_name is not None and pw_diff(got_E, gt * w) == 0, where, str(got_E)[:200], construct="%s/quad%s/explicit" % (cls, inst))
    # accumulators start at zero and are flushed to slot i
    okf = True
    for nm in (gdt_name, expl_name):
        car = Lk.carried.get(nm[1:]) if nm else None
        okf = okf and car is not None and car[1] == 0
    flush = [e for e in Lseg.effects if e.target == gdT and e.op == "+="]
    okf = okf and len(flush) == 1 and sym.is_zero(flush[0].key[0] - i) and len(expl) == 1 and sym.is_zero(expl[0].key[0] - i)
    chk.ob("C07-R1", "%s%s per-segment accumulators start at 0 and are added to slot i of dT / of the explicit-time buffer" % (cls, inst), okf, where, "", construct="%s/quad%s/flush" % (cls, inst))
    st = I.effects
    okz = any(e.target.endswith("explicit_time_grad_buffer") and e.op == "setZero" for e in st)
    chk.ob("C07-R1", "%s%s explicit-time buffer is zeroed before the quadrature" % (cls, inst), okz, loc(f), "", construct="%s/quad%s/explicit-zero" % (cls, inst))
    # suffix accumulation: dS_i/dT_j = 1 for j < i
    oks = Lsuffix is not None
    det = ""
    if oks:
        iv = Lsuffix.var
        acc = next(iter(Lsuffix.carried.items()), None)
        ea = [e for e in Lsuffix.effects if e.target.startswith("$")]
        eg = [e for e in Lsuffix.effects if e.target == gdT]
        oks = acc is not None and acc[1][1] == 0 and len(ea) == 1 and ea[0].op == "+=" and len(eg) == 1 and eg[0].op == "+="
        if oks:
            ex = list(sp.sympify(ea[0].delta).atoms(sp.Indexed))
            oks = (len(ex) == 1 and str(ex[0].base).split("#")[0].endswith("explicit_time_grad_buffer") and sym.is_zero(ex[0].indices[0] - iv) and sym.is_zero(ea[0].delta - ex[0])
                   and sym.is_zero(eg[0].key[0] - (iv - 1)) and sym.is_zero(eg[0].delta - (acc[1][0] + ex[0]))
                   and sym.is_zero(Lsuffix.lo - (n - 1)) and Lsuffix.hi == 0 and Lsuffix.cond_op == ">" and Lsuffix.step == -1)
            det = "acc += e[%s]; dT[%s] += acc; i from %s while i %s %s" % (iv, eg[0].key[0], Lsuffix.lo, Lsuffix.cond_op, Lsuffix.hi)
    chk.ob("C07-R1", "%s%s explicit-time terms of segment i are added to the durations of all earlier segments (suffix sum, segment i itself excluded)" % (cls, inst), bool(oks), loc(f), det,
           construct="%s/quad%s/suffix" % (cls, inst))


def pw_diff(a, b):
    """expand(a - b) with every Piecewise sub-expression abstracted to a symbol (both sides share the weight factor);
    avoids simplify() on large mismatching expressions."""
    a, b = sp.sympify(a), sp.sympify(b)
    pws = sorted(set(a.atoms(sp.Piecewise)) | set(b.atoms(sp.Piecewise)), key=str)
    rep = {pw: sp.Symbol("W%d_" % k, real=True) for k, pw in enumerate(pws)}
    return sp.expand(a.xreplace(rep) - b.xreplace(rep))


def check_liveness(chk, F, cls, f):
    """R2, shape-independent part: a buffer that receives gradient data (as the mutable out-parameter of a cost functor,
    the quadrature or a spline gradient routine, or by accumulation) must be read again before evaluate() returns -
    otherwise that contribution never reaches grad_out."""
    from ..wsdef import WsDef
    inst = f["full"].split("evaluate")[1][:60]
    wsrec = cls + "::Workspace"
    spline_cls = next(x["ty"]["n"] for x in F.record(wsrec)["fields"] if x["name"] == "spline")
    W = WsDef(F, cls, wsrec, spline_cls, {})
    W.fn_stack.append(f)
    W.stmts(f["body"]["body"])
    if len(W.carrying) < 4:
        raise Broken("%s%s: fewer than four gradient-carrying workspace buffers recognised (%s)" % (cls, inst, sorted(W.carrying)))
    for fld in sorted(W.carrying):
        dead = W.pending.get(fld)
        chk.ob("C07-R2", "%s%s what is accumulated into %s is used before evaluate returns" % (cls, inst, fld), dead is None, loc(dead[1], dead[0]) if dead else loc(f),
               ("the value written by '%s' is never read afterwards" % pp(dead[0])[:80]) if dead else "", construct="%s/live%s/%s" % (cls, inst, fld))


def check_assembly(chk, F, cls, f, order, spl):
    chk.saw(f)
    check_liveness(chk, F, cls, f)
    inst = f["full"].split("evaluate")[1][:60]
    void = "VoidWaypointsCost" in f["full"]
    sc = Scope(f)
    body = f["body"]["body"]
    for n in walk(f["body"]):
        if n.get("k") == "decl" and n.get("bind") == "alias":
            sc.bind_opaque(n["id"], "WS")
        elif n.get("k") == "decl" and n["ty"].get("c") in ("int",) and n.get("init") is not None:
            sc.bind_local(n)
    # flatten top-level statements (if-constexpr taken branches are inlined, runtime ifs keep their guard)
    flat = []

    def rec(s, guard):
        k = s.get("k")
        if k == "block":
            for x in s["body"]:
                rec(x, guard)
        elif k == "if":
            if s.get("constexpr") and s.get("taken"):
                br = s["then"] if s["taken"] == "then" else s.get("else")
                if br is not None:
                    rec(br, guard)
            else:
                g2 = canon(s["cond"], sc)
                rec(s["then"], guard + [g2])
                if s.get("else") is not None:
                    rec(s["else"], guard + ["!" + g2])
        else:
            flat.append((s, tuple(guard)))
    for s in body:
        rec(s, [])

    def txt(s):
        if s.get("k") == "expr":
            try:
                return canon(s["e"], sc)
            except Exception:
                return pp(s["e"])
        if s.get("k") == "decl" and s.get("init") is not None:
            try:
                return "%" + s["name"] + " = " + canon(s["init"], sc)
            except Exception:
                return "%" + s["name"]
        return s.get("k")
    texts = [(txt(s), g) for s, g in flat]

    def index_of(pred):
        idx = [k for k, (t, g) in enumerate(texts) if isinstance(t, str) and pred(t)]
        return idx
    marks = {
        "decode durations": index_of(lambda t: False),
        "spline update": index_of(lambda t: t.startswith("WS.spline.update(")),
        "time cost": index_of(lambda t: "$p2[WS.cache_times" in t),
        "add time-cost gradient": index_of(lambda t: t.startswith("(WS.cache_gdT += WS.user_gdT_buffer")),
        "integral": index_of(lambda t: t.startswith("this.calculateIntegralCost(")),
        "propagate": index_of(lambda t: t.startswith("WS.spline.propagateGrad(")),
        "energy gradient": index_of(lambda t: t.startswith("WS.spline.getEnergyGrad(")),
    }
    fors = [k for k, (s, g) in enumerate(flat) if s.get("k") == "for"]
    rfors = [k for k, (s, g) in enumerate(flat) if s.get("k") == "rfor"]
    trav = [k for k, (t, g) in enumerate(texts) if isinstance(t, str) and "[lambda" in t or (flat[k][0].get("k") == "expr" and flat[k][0]["e"].get("k") == "call" and callee(flat[k][0]["e"]).get("lid"))]
    where = loc(f)
    def one(name):
        return len(marks[name]) == 1
    # this rule reads evaluate() as a sequence of recognisable phases; when the phases cannot be found (a step moved into
    # a helper, a loop split or merged) the rule has no opinion: analysis-broken, not a violation
    missing = [nm for nm in ("spline update", "time cost", "integral", "propagate", "energy gradient") if len(marks[nm]) == 0]
    if missing or len(fors) != 2 or len(rfors) != 2:
        raise Broken("%s%s: the assembly phases of evaluate() are not recognisable (missing %s; %d index loops, %d layout loops at top level)" % (cls, inst, missing, len(fors), len(rfors)))
    for nm in ("spline update", "time cost", "integral", "propagate", "energy gradient"):
        chk.ob("C07-R2", "%s%s step '%s' occurs exactly once" % (cls, inst, nm), one(nm), where, str(marks[nm]), construct="%s/order%s/%s" % (cls, inst, nm))
    if not all(one(nm) for nm in ("spline update", "time cost", "integral", "propagate", "energy gradient")):
        return
    upd, tc, integ, prop, eg = (marks[nm][0] for nm in ("spline update", "time cost", "integral", "propagate", "energy gradient"))
    dec_t, back_t = fors
    dec_s, back_s = rfors
    seq = [("decode durations", dec_t), ("decode waypoints", dec_s), ("spline update", upd), ("time cost", tc), ("integral cost and its dC/dT", integ), ("propagate through the spline", prop),
           ("energy gradient", eg), ("time back-substitution", back_t), ("spatial back-substitution", back_s)]
    for (a, ia), (b, ib) in zip(seq, seq[1:]):
        chk.ob("C07-R2", "%s%s '%s' precedes '%s'" % (cls, inst, a, b), ia < ib, where, "%d < %d" % (ia, ib), construct="%s/order%s/%s<%s" % (cls, inst, a[:12], b[:12]))
    # decode of the boundary blocks happens before the update; their gradient write-back after the energy terms
    calls_l = [k for k, (s, g) in enumerate(flat) if s.get("k") == "expr" and s["e"].get("k") == "call" and callee(s["e"]).get("lid")]
    if len(calls_l) != 2:
        raise Broken("%s%s: the two boundary-block traversals of evaluate() are not recognisable at top level (%d found)" % (cls, inst, len(calls_l)))
    chk.ob("C07-R2", "%s%s boundary blocks are decoded before the spline update and written back after all gradient terms" % (cls, inst),
           len(calls_l) == 2 and calls_l[0] < upd and calls_l[1] > eg and calls_l[1] > back_s, where, str(calls_l), construct="%s/order%s/blocks" % (cls, inst))
    # arguments of the three central calls
    u = flat[upd][0]["e"]
    ua = [canon(a, sc) for a in u["args"]]
    # the boundary state passed is the local copy that the decode traversal filled (C09-R2/R4), not the reference
    okargs = ua[:3] == ["WS.cache_times", "WS.cache_waypoints", "this.start_time_"] and len(ua) == 4 and ua[3].startswith("%")
    chk.ob("C07-R2", "%s%s the workspace spline is updated from the decoded durations, waypoints, start time and boundary state" % (cls, inst), okargs, loc(f, u), str([canon(a, sc) for a in u["args"]]),
           construct="%s/order%s/update-args" % (cls, inst))
    ic = flat[integ][0]["e"]
    a = [canon(x, sc) for x in ic["args"][:4]]
    chk.ob("C07-R2", "%s%s the quadrature accumulates into the workspace's dC / dT buffers and the returned cost" % (cls, inst), a[:3] == ["WS", "WS.cache_gdC", "WS.cache_gdT"], loc(f, ic), str(a),
           construct="%s/order%s/integral-args" % (cls, inst))
    pc = flat[prop][0]["e"]
    a = [canon(x, sc) for x in pc["args"]]
    chk.ob("C07-R2", "%s%s propagation maps (dC, dT) to the gradient struct" % (cls, inst), a == ["WS.cache_gdC", "WS.cache_gdT", "WS.grads"], loc(f, pc), str(a), construct="%s/order%s/propagate-args" % (cls, inst))
    # buffers zeroed before use
    for nm, before in (("WS.user_gdT_buffer.setZero()", tc), ("WS.cache_gdT.setZero()", tc), ("WS.cache_gdC.setZero()", integ)):
        idx = [k for k, (t, g) in enumerate(texts) if t == nm]
        chk.ob("C07-R5", "%s%s %s before it is accumulated into" % (cls, inst, nm), len(idx) == 1 and idx[0] < before, where, str(idx), construct="%s/zero%s/%s" % (cls, inst, nm))
    z = [k for k, (t, g) in enumerate(texts) if isinstance(t, str) and t.startswith("$p1.setZero(")]
    okz = len(z) == 1 and texts[z[0]][0] == "$p1.setZero($p0.size())" and z[0] < back_t
    chk.ob("C07-R5", "%s%s grad_out is zeroed to the size of x before any slot is written" % (cls, inst), okz, where, str([texts[k][0] for k in z]), construct="%s/zero%s/grad_out" % (cls, inst))
    # ---- R3 energy accumulation -------------------------------------------------------------------------
    rho = "this.rho_energy_"
    guard_e = ("(%s > 0)" % rho,)
    guard_e2 = ("(0 < %s)" % rho,)
    fields = ["times", "inner_points", "start.p", "start.v", "end.p", "end.v"]
    if order >= 5:
        fields += ["start.a", "end.a"]
    if order >= 7:
        fields += ["start.j", "end.j"]
    for fld in fields:
        wants_e = ("(WS.grads.%s += (%s * WS.energy_grads.%s))" % (fld, rho, fld), "(WS.grads.%s += (WS.energy_grads.%s * %s))" % (fld, fld, rho))
        idx = [k for k, (t, g) in enumerate(texts) if t in wants_e and (g[:1] in (guard_e, guard_e2))]
        ok = len(idx) == 1 and eg < idx[0] < back_t
        if fld == "inner_points" and ok:
            ok = texts[idx[0]][1][1:] in (("(%n_inner > 0)",), ("(0 < %n_inner)",)) or len(texts[idx[0]][1]) == 2
        chk.ob("C07-R3", "%s%s energy gradient of %s is added with weight rho (only when rho > 0)" % (cls, inst, fld), ok, where, str(idx), construct="%s/energy%s/%s" % (cls, inst, fld))
    extra = [t for t, g in texts if isinstance(t, str) and "WS.energy_grads." in t and not any(
        t in ("(WS.grads.%s += (%s * WS.energy_grads.%s))" % (fl, rho, fl), "(WS.grads.%s += (WS.energy_grads.%s * %s))" % (fl, fl, rho)) for fl in fields)]
    chk.ob("C07-R3", "%s%s no other use of the energy gradient" % (cls, inst), not extra, where, str(extra), construct="%s/energy%s/extra" % (cls, inst))
    egc = flat[eg][0]["e"]
    chk.ob("C07-R3", "%s%s the energy gradient is the workspace spline's, written to the energy-gradient struct" % (cls, inst), [canon(x, sc) for x in egc["args"]] == ["WS.energy_grads"], loc(f, egc), "",
           construct="%s/energy%s/source" % (cls, inst))
    # waypoint-cost rows
    if not void:
        N = "this.num_segments_"
        wants = {"start.p": "(WS.grads.start.p += WS.discrete_grad_q_buffer.row(0).transpose())",
                 "end.p": "(WS.grads.end.p += WS.discrete_grad_q_buffer.row(%s).transpose())" % N}
        for fld, w in wants.items():
            idx = [k for k, (t, g) in enumerate(texts) if t == w]
            chk.ob("C07-R3", "%s%s waypoint-cost gradient row of the %s point is added" % (cls, inst, fld[:-2]), len(idx) == 1 and prop < idx[0] < back_t, where, str(idx), construct="%s/wp%s/%s" % (cls, inst, fld))
        inner = [k for k, (t, g) in enumerate(texts) if isinstance(t, str) and t.startswith("(WS.grads.inner_points += WS.discrete_grad_q_buffer.block(1,0,")]
        oki = len(inner) == 1 and prop < inner[0] < back_t
        if oki:
            t = texts[inner[0]][0]
            oki = "max(0,(%s - 1))" % N in t.replace(" ", "").replace("(this.num_segments_-1)", "(this.num_segments_ - 1)") or "n_inner" in t or "(this.num_segments_ - 1)" in t
        chk.ob("C07-R3", "%s%s waypoint-cost gradient rows 1..N-1 are added to the inner-point gradient" % (cls, inst), oki, where, texts[inner[0]][0] if inner else "", construct="%s/wp%s/inner" % (cls, inst))
        zb = [k for k, (t, g) in enumerate(texts) if t == "WS.discrete_grad_q_buffer.setZero()"]
        wc = [k for k, (t, g) in enumerate(texts) if isinstance(t, str) and "$p3[WS.cache_waypoints,WS.discrete_grad_q_buffer]" in t]
        chk.ob("C07-R3", "%s%s waypoint-cost gradient buffer is zeroed before the functor fills it" % (cls, inst), len(zb) == 1 and len(wc) == 1 and zb[0] < wc[0], where, "", construct="%s/wp%s/zero" % (cls, inst))
