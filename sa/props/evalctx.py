"""Context shared by the rules stated on the summary of evaluate() (C07, C08, C09): the roles discovered from the code
(layout entry fields, derivative-offset / total members, reference members, flags member, energy weight member)."""
import hashlib
import json
import os

from ..facts import Broken, walk
from ..effects import Effects, callee
from .. import core
from .common import optimizer_spline_order, is_this_mem, strip_copy, write_rhs

NEED = {"start_v": 3, "end_v": 3, "start_a": 5, "end_a": 5, "start_j": 7, "end_j": 7}
ORDERED = ["start_v", "start_a", "start_j", "end_v", "end_a", "end_j"]


def rho_member(F, E, cls):
    """the scalar member that multiplies the spline's energy in evaluate(): set by the public energy-weight setter"""
    fs = [f for f in F.funcs(cls) if f["name"].lower().startswith("setenergyweight")]
    for f in fs:
        for path, how, node in E.function_writes_local(f):
            if path[0] == "this" and len(path) == 2:
                return path[1]
    raise Broken("energy-weight member not found in " + cls)


def context(F, E, cls, roles=None, members=None):
    from . import c09, c12, c16
    rec = F.record(cls)
    order, spl = optimizer_spline_order(F, cls)
    dim = rec["targs"][0]
    dirty, rebuild, ins, outs = c12.layout_roles(F, E, cls)
    flags_member = next(x["name"] for x in rec["fields"] if "OptimizationFlags" in x["ty"].get("n", ""))
    _, rl = c16.discover_roles(F, E, cls)
    count_member = rl["COUNT"]
    expected_flags = [fl for fl in ORDERED if order >= NEED[fl]]
    if roles is None or members is None:
        key = hashlib.sha256(("ctx3" + cls).encode()).hexdigest()[:16]
        path = (F.path or "/nonexistent") + ".ctx." + key + ".json"
        if F.path and os.path.exists(path):
            d = json.load(open(path))
            roles, members = d["roles"], d["members"]
        else:
            sub = core.Check("C09", "quick", None)
            roles, members = c09.check_builder(sub, F, cls, rebuild, flags_member, dim, expected_flags, dirty, count_member)
            if F.path:
                try:
                    json.dump({"roles": roles, "members": members}, open(path, "w"))
                except Exception:
                    pass
    return {"roles": roles, "members": members, "rl": rl, "flags_member": flags_member, "dim": dim, "expected_flags": expected_flags, "count_member": count_member,
            "rho_member": rho_member(F, E, cls), "dirty": dirty, "order": order}
