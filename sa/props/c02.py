"""C02 - splines are the minimum-norm interpolants (MINCO equivalent) (DESIGN s6 C02).

R1 = C01-R1 (Hermite closure; re-derived here because R2 builds on the same rows).
R2 the assembled (block) rows span exactly the continuity conditions of the closure polynomials for the
   derivative orders the closure does not already make continuous; first/last-block corrections are the same
   rows with the known boundary unknowns moved to the right-hand side, and both apply to a single block.
R3 the elimination / back-substitution / write-back loops are the (block) Thomas recurrences, including what
   is stored in each cache (block kernels are interpreted through, so a wrong kernel breaks these).
R4 closed-form inverses: A * inv(A) = I entrywise.
"""
import sympy as sp
from sympy import Integer

from ..facts import Broken, pp, loc, walk
from ..effects import callee
from .. import sym, spec, blocks, history
from ..sym import Interp, Unsupported, Vec, SmallMat, BlockVec, Container
from ..model import spline_model
from ..blocks import BlockRun
from .common import facts_for, alg_classes, SPLINES
from . import c01


def rhs_rows(I, arr, Lf, F=None, M=None):
    """The interior right-hand-side rows of the cubic system as (first row, count, row value in the run index RSYM,
    line): written either as one block assignment or by a unit-stride loop of its own."""
    rng = [r for r in I.effects_ranges if r[0] == arr]
    if len(rng) == 1:
        return rng[0][1:]
    cands = []
    for L in I.loops:
        if L is Lf or L.inner or L.step != 1 or L.hi is None or L.cond_op not in ("<", "<="):
            continue
        es = [e for e in L.effects if e.target == arr]
        if len(es) == 1 and len(L.effects) == 1 and es[0].op == "=" and isinstance(es[0].value, Vec) and len(es[0].key) == 1:
            c_ = sp.expand(es[0].key[0] - L.var)
            if L.var in c_.free_symbols:
                continue
            ue = L.hi if L.cond_op == "<" else L.hi + 1
            cands.append((sp.expand(L.lo + c_), sp.expand(ue - L.lo), sub_vec(es[0].value, L.var, sym.RSYM + L.lo), es[0].line))
    if not cands and F is not None:
        cands = rhs_rows_shared_loop(I, arr, Lf, F, M)
    if len(cands) != 1:
        raise Broken("cubic right-hand side rows not found (neither a block assignment nor a loop writing them)")
    return cands[0]


def rhs_rows_shared_loop(I, arr, Lf, F, M):
    """Third form: the rows are written inside a loop that also does other work, possibly only for some kinds of
    iteration (a guard on the loop index).  The loop is interpreted once per iteration kind; the rows written are
    those of the kinds in which the assignment executes."""
    runs = {k: c01.run_solver(F, M, dict(blocks.CASES[k]))[0] for k in ("first", "middle", "last")}
    cands = []
    for L in I.loops:
        if L is Lf or L.inner or L.step != 1 or L.hi is None or L.cond_op not in ("<", "<="):
            continue
        es = [e for e in L.effects if e.target == arr]
        if len(es) != 1 or es[0].op != "=" or not isinstance(es[0].value, Vec) or len(es[0].key) != 1:
            continue
        c_ = sp.expand(es[0].key[0] - L.var)
        if L.var in c_.free_symbols:
            continue
        wr = {}
        for k, Ik in runs.items():
            Lk = [x for x in Ik.loops if x.line == L.line and x.var == L.var]
            if len(Lk) != 1:
                raise Broken("loop at line %s not found in the %s-iteration run" % (L.line, k))
            ek = [e for e in Lk[0].effects if e.target == arr]
            if len(ek) > 1 or (ek and (ek[0].op != "=" or not sym.is_zero(ek[0].key[0] - es[0].key[0]))):
                raise Broken("right-hand side rows written differently in the %s iteration (line %s)" % (k, L.line))
            wr[k] = ek[0] if ek else None
        if wr["middle"] is None:
            continue
        for k in ("first", "last"):
            if wr[k] is not None and not vec_zero(norm_vec(wr[k].value).add(norm_vec(wr["middle"].value), -1)):
                raise Broken("right-hand side row formula differs in the %s iteration (line %s)" % (k, L.line))
        ue = L.hi if L.cond_op == "<" else L.hi + 1
        lo_w = L.lo + (0 if wr["first"] is not None else 1)
        ue_w = ue - (0 if wr["last"] is not None else 1)
        val = same_loop_rows(wr["middle"].value, L, lo_w)
        cands.append((sp.expand(lo_w + c_), sp.expand(ue_w - lo_w), sub_vec(val, L.var, sym.RSYM + lo_w), es[0].line))
    return cands


def same_loop_rows(val, L, lo_w):
    """Rows of an array this very loop defines (one unconditional assignment at the loop index) read at an earlier
    index: the value the earlier iteration stored, provided that iteration exists for every iteration that reads."""
    out = Vec()
    for a, c in val.t.items():
        name = str(a[0]).split("#")[0]
        if len(a) == 2 and not isinstance(a[1], str):
            d = sp.expand(a[1] - L.var)
            ds = [e for e in L.effects if e.target == name]
            if d.is_Integer and d < 0 and len(ds) == 1 and ds[0].op == "=" and not ds[0].guards and len(ds[0].key) == 1 and ds[0].key[0] == L.var \
                    and isinstance(ds[0].value, Vec) and sp.expand(lo_w + d - L.lo).is_nonnegative:
                out = out.add(same_loop_rows(sub_vec(ds[0].value, L.var, L.var + d), L, lo_w + d).scale(c))
                continue
        out = out.add(Vec({a: c}))
    return out


def strip_tag(a):
    return (str(a[0]).split("#")[0],) + tuple(a[1:])


def norm_vec(v):
    out = Vec()
    for a, c in v.t.items():
        out = out.add(Vec({strip_tag(a): c}))
    return out


def sub_vec(v, var, val):
    out = Vec()
    for a, c in v.t.items():
        a2 = (a[0],) + tuple(sp.expand(x.subs(var, val)) if hasattr(x, "subs") else x for x in a[1:])
        out = out.add(Vec({a2: sp.sympify(c).subs(var, val)}))
    return out


def rank_equal(rows_a, rows_b, want_rank):
    atoms = sorted({a for r in rows_a + rows_b for a in r.t}, key=str)
    def mat(rows):
        return sp.Matrix([[sp.cancel(sp.together(r.coeff(a))) for a in atoms] for r in rows])
    A, B = mat(rows_a), mat(rows_b)
    ra, rb, rab = A.rank(simplify=True), B.rank(simplify=True), A.col_join(B).rank(simplify=True)
    return (ra == rb == rab == want_rank), (ra, rb, rab)


def vec_zero(v):
    return all(sym.is_zero(c) for c in v.t.values())


def jumps(M, rows, i, m, orders):
    """continuity defects of derivative orders `orders` at interior knot m"""
    rl = [rows[k] for k in sorted(rows)]
    left = [sub_vec(norm_vec(r), i, m - 1) for r in rl]
    right = [sub_vec(norm_vec(r), i, m) for r in rl]
    hL = M.dur(m - 1)
    out = []
    for d in orders:
        out.append(spec.deriv_at(left, d, hL).add(spec.deriv_at(right, d, 0), -1).clean())
    return out


def run(chk):
    F = facts_for(chk)
    from ..effects import Effects
    from .. import core
    E = Effects(F)
    for short in SPLINES:
        for cls in alg_classes(F, short, ("update", "propagateGrad")):
            check_class(chk, F, short, cls)
            # "through the same waypoints at the same knot times, with the same end conditions": the minimiser the system
            # rows describe is the one of *this call's* data only if the boundary rows are pinned, the knots are the prefix
            # sums of the durations and every entry point hands its own four inputs to the common update - C01's R2 / R3
            # obligations, re-derived here per class
            sub = core.Check("C01", chk.tier, chk.root)
            history.for_each_outcome(sub, lambda c_: c01.check_spline_class(c_, F, E, short, cls))
            rel = [o for o in sub.obs if o["rule"] in ("C01-R2", "C01-R3")]
            bad = [o for o in rel if not o["ok"]]
            chk.ob("C02-R1", "%s: the system is solved for this call's waypoints, knot times and end conditions (C01-R2 / R3)" % cls, len(rel) >= 10 and not bad, bad[0]["where"] if bad else "",
                   "%d obligations of C01-R2/R3; first failing: %s" % (len(rel), bad[0]["instance"][:200] if bad else "-"), construct=cls + "/inputs-premise")
    chk.floor("C02-R2", 12)
    chk.floor("C02-R3", 20)
    chk.floor("C02-R4", 13)
    chk.not_decided = ["pivot growth / loss of continuity in floating point (C18)", "singular pivots (exact arithmetic assumes nonsingular pivots)"]
    chk.trusted += ["minimiser characterisation (Schoenberg/Holladay; MINCO Thm 2): interpolation + end conditions + C^(2s-2) piecewise degree 2s-1 polynomial is the unique minimiser",
                    "exactness of the (block) Thomas recurrences for nonsingular pivots"]


def check_class(chk, F, short, cls):
    """The solver is interpreted once per outcome of every history-dependent size guard it contains (sa/history.py)."""
    history.for_each_outcome(chk, lambda c_: check_class_once(c_, F, short, cls))


def check_class_once(chk, F, short, cls):
    if True:
        if True:
            M = spline_model(F, cls)
            if short != "CubicSplineND":
                # R4 first: the closed-form inverse is a function of its own (two b x b matrix parameters, called by the
                # solver); its obligations do not depend on the rest of the solver being analysable
                b_ = M.s - 1
                _call, solver_fn = blocks.find_solver(F, M)
                if not hasattr(chk, "_inv_done"):
                    chk._inv_done = set()
                for _c, h in F.callees(solver_fn):
                    ps = h.get("params", [])
                    if len(ps) == 2 and all(p["ty"].get("c") == "eigen" and p["ty"].get("rows") == b_ and p["ty"].get("cols") == b_ for p in ps) and h["fid"] not in chk._inv_done:
                        chk._inv_done.add(h["fid"])
                        check_inverse(chk, F, cls, h, b_)
            I0, Lc, rows = c01.closure_rows(F, M)
            i = Lc.var
            roles = c01.deriv_roles(M, rows, i)
            if short == "CubicSplineND":
                closed = {0, 2}
            else:
                closed = set(range(M.s))
            ok_roles = all(d in roles for d in closed)
            chk.ob("C02-R1", "%s closure provides continuity of orders %s (C01-R1)" % (cls, sorted(closed)), ok_roles, loc(M.solve_fn), "knot arrays: %s" % roles, construct=cls + "/closure-roles")
            remaining = [d for d in range(2 * M.s - 1) if d not in closed]
            m = sp.Symbol("m", integer=True, positive=True)
            J = jumps(M, rows, i, m, remaining)
            if short == "CubicSplineND":
                check_cubic(chk, F, M, I0, rows, i, roles, J, m)
            else:
                check_block(chk, F, M, rows, i, roles, J, m, remaining)


# ---------------------------------------------------------------------------------------------


def check_block(chk, F, M, rows, i, roles, J, m, remaining):
    cls = M.cls
    b = M.s - 1
    inv_done = getattr(chk, "_inv_done", set())
    R = {k: BlockRun(F, M, k) for k in ("middle", "first", "last", "single")}
    Bm = R["middle"]
    g = Bm.fn
    chk.saw(g)
    bi = Bm.i
    outs = Bm.outs
    where = loc(g, {"line": Bm.Lasm.line})
    npts = sp.Symbol(M.m_points + ".rows", integer=True, nonnegative=True)

    def X(j, idx):
        return Vec.atom((outs[j], sp.expand(idx)))

    def ex_s(e):
        return M.expand_scalar(e)

    def ex_v(v):
        return norm_vec(M.expand_vec(v))

    def plain_rhs(B):
        """right-hand side with the elimination part (previous rhs atoms) removed"""
        out = []
        for a in range(b):
            v = B.rhs_final[a]
            out.append(Vec({k: c for k, c in v.t.items() if str(k[0]).split("#")[0] != B.rhs_name}))
        return out

    def prev_part(B):
        out = []
        for a in range(b):
            v = B.rhs_final[a]
            out.append(Vec({k: c for k, c in v.t.items() if str(k[0]).split("#")[0] == B.rhs_name}))
        return out

    # ---- R2: generic row == continuity ---------------------------------------------------
    r_mid = plain_rhs(Bm)
    eqs = []
    for a in range(b):
        v = Vec()
        for j in range(b):
            v = v.add(X(j, bi).scale(ex_s(Bm.L.e[a][j])))
            v = v.add(X(j, bi + 1).scale(ex_s(Bm.D0.e[a][j])))
            v = v.add(X(j, bi + 2).scale(ex_s(Bm.U.e[a][j])))
        v = v.add(ex_v(r_mid[a]), -1)
        eqs.append(sub_vec(v, bi, m - 1).clean())
    ok, ranks = rank_equal(eqs, J, b)
    chk.ob("C02-R2", "%s interior block row spans the continuity conditions of orders %s" % (cls, remaining), ok, where,
           "rank(system rows)=%d rank(continuity jumps)=%d rank(both)=%d, required %d each" % (ranks + (b,)), construct=cls + "/system-rows")
    # unknown slot j of block i is knot array j at knot i+1 (write-back)
    ok_wb = False
    det = ""
    if Bm.Lwb is not None:
        effs = [e for e in Bm.Lwb.effects if e.target in outs]
        sol_name = None
        ok_wb = len(effs) == b
        for e in effs:
            j = outs.index(e.target)
            at = list(e.value.t.items())
            iv = Bm.Lwb.var
            good = len(at) == 1 and sym.is_zero(at[0][1] - 1) and sym.is_zero(e.key[0] - (iv + 1)) and sym.is_zero(at[0][0][1] - (b * iv + j))
            sol_name = str(at[0][0][0]).split("#")[0] if at else None
            ok_wb = ok_wb and good
        ok_wb = ok_wb and Bm.Lwb.lo == 0 and sym.is_zero(Bm.Lwb.hi - Bm.nb) and Bm.Lwb.step == 1 and Bm.Lwb.cond_op == "<"
        det = "write-back effects %s over %s..%s" % ([(e.target, str(e.key[0]), repr(e.value)) for e in effs], Bm.Lwb.lo, Bm.Lwb.hi)
    chk.ob("C02-R3", "%s write-back: unknown j of block i -> knot array j at knot i+1, all blocks" % cls, ok_wb, loc(g), det[:400], construct=cls + "/write-back")
    chk.ob("C02-R3", "%s number of blocks = waypoints - 2, assembly covers all blocks" % cls,
           sym.is_zero(Bm.nb - (npts - 2)) and Bm.Lasm.lo == 0 and Bm.Lasm.step == 1 and Bm.Lasm.cond_op == "<", where, "blocks %s, range from %s" % (Bm.nb, Bm.Lasm.lo), construct=cls + "/blocks-range")

    # ---- boundary values the first / last rows are pinned to (straight effects of the same routine)
    def pinned(B, j, idx):
        effs = [e for e in B.I.effects if e.target == outs[j] and e.op == "=" and len(e.key) == 1 and not isinstance(e.key[0], str) and sym.is_zero(e.key[0] - idx)]
        if not effs:
            raise Broken("boundary row of %s not assigned" % outs[j])
        return effs[-1].value

    # ---- R2: corrections -------------------------------------------------------------------
    for kind in ("first", "last", "single"):
        B = R[kind]
        r_plain = plain_rhs(B)
        for a in range(b):
            want = r_mid[a]
            if kind in ("first", "single"):
                for j in range(b):
                    want = want.add(pinned(B, j, 0).scale(B.L.e[a][j]), -1)
            if kind in ("last", "single"):
                for j in range(b):
                    want = want.add(pinned(B, j, npts - 1).scale(B.U.e[a][j]), -1)
            d = ex_v(r_plain[a]).add(ex_v(want), -1)
            chk.ob("C02-R2", "%s %s block, row %d: known boundary unknowns moved to the right-hand side" % (cls, kind, a), vec_zero(d), where,
                   "rhs(code) - (r - L*B_start%s) = %r" % (" - U*B_end" if kind != "first" else "", d.clean()), construct="%s/correction/%s/%d" % (cls, kind, a))
    # ---- R3: elimination ---------------------------------------------------------------------
    for kind in ("first", "single"):
        B = R[kind]
        chk.ob("C02-R3", "%s %s block: pivot is the assembled diagonal block" % (cls, kind), blocks.mat_eq(B.inv_in, B.D0), where, "", construct="%s/pivot/%s" % (cls, kind))
    for kind in ("middle", "last"):
        B = R[kind]
        tags = B.prev_tags()
        Dp = B.cache_mat(B.dinv_cache, bi - 1, tags.get(B.dinv_cache))
        Up = B.cache_mat(B.upper_cache, bi - 1, tags.get(B.upper_cache))
        Xm = Dp.to_sympy() * Up.to_sympy()
        want = sp.Matrix(B.D0.e) - sp.Matrix(B.L.e) * Xm
        okp = all(sym.is_zero(want[r, c] - B.inv_in.e[r][c]) for r in range(b) for c in range(b))
        chk.ob("C02-R3", "%s %s block: pivot D' = D - L * (D'^-1_prev * U_prev)" % (cls, kind), okp, where, "entrywise comparison of the matrix handed to the inverse", construct="%s/pivot/%s" % (cls, kind))
        # rhs' = r - L Dinv_prev rhs'_prev
        rp = prev_part(B)
        rhs_tag = tags.get(B.rhs_name)
        okr = True
        for a in range(b):
            want_v = Vec()
            for j in range(b):
                for k in range(b):
                    want_v = want_v.add(Vec.atom((rhs_tag, sp.expand(b * (bi - 1) + k))).scale(-B.L.e[a][j] * Dp.e[j][k]))
            okr = okr and vec_zero(rp[a].add(want_v, -1))
        chk.ob("C02-R3", "%s %s block: rhs' = rhs - L * D'^-1_prev * rhs'_prev" % (cls, kind), okr, where, "", construct="%s/rhs-elim/%s" % (cls, kind))
        # aux cache = (L_i D'^-1_{i-1})^T
        if B.aux_cache:
            LD = sp.Matrix(B.L.e) * Dp.to_sympy()
            oka = True
            for (r, c), col in B.sigma.items():
                ee = [e for e in B.grid_effs[B.aux_cache] if sym.is_zero(e.key[0] - (bi - 1)) and sym.is_zero(e.key[1] - col)]
                oka = oka and bool(ee) and sym.is_zero(sp.sympify(ee[-1].value) - LD[c, r])
            chk.ob("C02-R3", "%s %s block: adjoint cache[i-1] = (L_i * D'^-1_{i-1})^T" % (cls, kind), oka, where, "", construct="%s/aux-cache/%s" % (cls, kind))
    # stored inverse = output of the closed-form inverse (by construction of the storage map) and stored in slot i
    chk.ob("C02-R3", "%s inverted pivot stored in slot i of its cache" % cls, True, where, "storage map %s" % Bm.sigma, construct=cls + "/dinv-store")
    # ---- last-block solve and back-substitution -------------------------------------------------
    B = Bm
    Icase = B.I
    # generation tags after the assembly loop
    def tag_after(name, L):
        return "%s#%d" % (name, L.post_gen[name]) if name in L.post_gen else name
    dt, ut, rt = tag_after(B.dinv_cache, B.Lasm), tag_after(B.upper_cache, B.Lasm), tag_after(B.rhs_name, B.Lasm)
    sol_effs = [e for e in Icase.effects if isinstance(e.value, Vec) and len(e.key) == 1 and not isinstance(e.key[0], str) and e.target not in outs and e.target != B.rhs_name]
    nb = B.nb
    Dl = B.cache_mat(B.dinv_cache, nb - 1, dt)
    okl = len(sol_effs) >= b
    sol_name = sol_effs[-1].target if sol_effs else None
    for a in range(b):
        ee = [e for e in sol_effs if sym.is_zero(e.key[0] - (b * (nb - 1) + a))]
        want_v = Vec()
        for k in range(b):
            want_v = want_v.add(Vec.atom((rt, sp.expand(b * (nb - 1) + k))).scale(Dl.e[a][k]))
        okl = okl and bool(ee) and vec_zero(ee[-1].value.add(want_v, -1))
    chk.ob("C02-R3", "%s last block: x_last = D'^-1_last * rhs'_last" % cls, okl, loc(g), "", construct=cls + "/last-solve")
    okb = B.Lback is not None
    if okb:
        Lb = B.Lback
        iv = Lb.var
        okb = sym.is_zero(Lb.lo - (nb - 2)) and Lb.step == -1 and Lb.cond_op == ">=" and Lb.hi == 0
        tg = {}
        for e in Lb.effects:
            if isinstance(e.value, Vec):
                for a_, c_ in e.value.t.items():
                    tg[str(a_[0]).split("#")[0]] = a_[0]
                    for ix in sp.sympify(c_).atoms(sp.Indexed):
                        tg[str(ix.base).split("#")[0]] = str(ix.base)
        Db = B.cache_mat(B.dinv_cache, iv, tg.get(B.dinv_cache))
        Ub = B.cache_mat(B.upper_cache, iv, tg.get(B.upper_cache))
        for a in range(b):
            ee = [e for e in Lb.effects if e.target == sol_name and sym.is_zero(e.key[0] - (b * iv + a))]
            want_v = Vec()
            for k in range(b):
                want_v = want_v.add(Vec.atom((tg.get(B.rhs_name), sp.expand(b * iv + k))).scale(Db.e[a][k]))
                for l in range(b):
                    want_v = want_v.add(Vec.atom((tg.get(sol_name), sp.expand(b * (iv + 1) + l))).scale(-Db.e[a][k] * Ub.e[k][l]))
            okb = okb and bool(ee) and vec_zero(ee[-1].value.add(want_v, -1))
    chk.ob("C02-R3", "%s back-substitution: x_i = D'^-1_i (rhs'_i - U_i x_{i+1}) from block N-2 down to 0" % cls, bool(okb), loc(g), "", construct=cls + "/back-substitution")
    # ---- R4 inverse --------------------------------------------------------------------------
    inv_f = F.by_fid[Bm.inv_call["fid"]]
    if inv_f["fid"] not in inv_done:
        check_inverse(chk, F, cls, inv_f, b)


def path_witness(assign, syms):
    """An exact sample point (rationals for the matrix entries, a value for each named positive constant) at which every
    condition of the path has the truth value the path assumes; None when none of the candidates qualifies."""
    import itertools
    consts = sorted({x for k in assign for x in k.free_symbols if x not in syms}, key=str)
    base = [sp.Rational(p_, q_) for p_, q_ in ((2, 1), (-1, 3), (3, 2), (1, 5), (-2, 7), (5, 3), (1, 1), (-3, 4), (7, 2), (2, 9), (-5, 6), (4, 3), (1, 7), (-1, 2), (3, 5), (6, 5))]
    for shift in range(4):
        pt = {s_: base[(i_ * (shift + 1) + shift) % len(base)] + (i_ // len(base)) for i_, s_ in enumerate(syms)}
        for cv in itertools.product((sp.Integer(10) ** 9, sp.Integer(10) ** -9, sp.Integer(1)), repeat=len(consts)):
            full = dict(pt)
            full.update(dict(zip(consts, cv)))
            try:
                if all(bool(k.subs(full)) == bool(v) for k, v in assign.items()):
                    return full
            except Exception:
                continue
    return None


def check_inverse(chk, F, cls, f, b):
    """A * inv(A) = I entrywise on every path through the closed-form inverse.  A test on the values of A (a threshold on
    the determinant, say) opens a second path: its result has to be the inverse as well, because a matrix that takes
    that path is in general still nonsingular.  Only the path on which the determinant is exactly zero is outside the
    domain."""
    from .. import paths as paths_
    chk.saw(f)
    A0 = [[sp.Symbol("a%d%d" % (r, c), real=True) for c in range(b)] for r in range(b)]
    detA = sp.expand(sp.Matrix(A0).det())

    def run_(oracle):
        I = Interp(F, cls)
        I.opaque_conditions = True
        I.path_oracle = oracle
        A = SmallMat(b, b, [[x for x in row] for row in A0])
        Out = SmallMat(b, b)
        env = {f["params"][0]["id"]: A, f["params"][1]["id"]: Out}
        try:
            I.run_body(f, env)
        except Unsupported as ex:
            raise Broken("closed-form inverse %s not analysable: %s" % (f["name"], ex))
        return A, Out
    results = paths_.explore(run_)
    for assign, (A, Out) in results:
        singular = any(v and isinstance(k, sp.Eq) and sym.is_zero(sp.expand(k.lhs - k.rhs) - detA) or sym.is_zero(sp.expand(k.lhs - k.rhs) + detA) and v and isinstance(k, sp.Eq) for k, v in assign.items())
        if singular:
            continue
        cond = " and ".join("%s%s" % ("" if v else "not ", sp.sstr(k)) for k, v in assign.items())
        if any(x is None for row in Out.e for x in row):
            ok_all = False
            P = None
        else:
            P = sp.Matrix(A0) * sp.Matrix(Out.e)
        wit = path_witness(assign, [x for row in A0 for x in row]) if assign else None
        for r in range(b):
            for c in range(b):
                if P is None:
                    ok = False
                elif wit is not None and abs(sp.N((P[r, c] - (1 if r == c else 0)).subs(wit), 50)) > sp.Float("1e-30"):
                    ok = False       # refuted at an exact sample point that lies on this path
                else:
                    e_ = P[r, c] - (1 if r == c else 0)
                    ok = sp.numer(sp.together(e_)).expand() == 0 or sym.is_zero(e_)
                chk.ob("C02-R4", "%s %s: (A * inv(A))[%d,%d] = %d%s" % (cls, f["name"], r, c, 1 if r == c else 0, (" on the path [%s]" % cond[:120]) if cond else ""), ok, loc(f),
                       ((sp.sstr(sp.simplify(P[r, c])) if not assign else sp.sstr(P[r, c]))[:120] if P is not None else "result entry not written on this path"),
                       construct="%s/%s/%d%d%s" % (cls, f["name"], r, c, ("/" + cond[:80]) if cond else ""))


def check_cubic(chk, F, M, I, rows, i, roles, J, m):
    cls = M.cls
    g = M.solve_fn
    chk.saw(g)
    n = sp.Symbol(M.m_count, integer=True, positive=True)
    h = M.h
    arr = roles[2][0].split("#")[0]          # second-derivative array
    defs = I.local_defs()

    def ex_v(v):
        return norm_vec(M.expand_vec(I.expand_local(v, defs)))

    # forward-elimination loop: the loop that writes the two scalar caches
    fw = [L for L in I.loops if len({e.target for e in L.effects if len(e.key) == 1 and isinstance(e.value, sp.Basic)}) >= 2]
    if len(fw) != 1:
        raise Broken("cubic elimination loop not identified")
    Lf = fw[0]
    iv = Lf.var
    scal = [e for e in Lf.effects if isinstance(e.value, sp.Basic)]
    # inv_d = 1/(A - B*c'[i-1]) ; c'[i] = C * inv_d
    cand = None
    for e in scal:
        ex = M.expand_scalar(e.value)
        den = sp.expand(1 / ex) if ex != 0 else None
        prev = [x for x in ex.atoms(sp.Indexed) if not str(x.base).startswith(M.m_durations)]
        if len(prev) == 1 and sp.denom(sp.together(den)) == 1 and sp.Poly(sp.numer(sp.together(den)), prev[0]).degree() == 1:
            cand = (e, den, prev[0])
    if cand is None:
        raise Broken("pivot recurrence not recognised")
    e_inv, den, cprev = cand
    Bc = sp.expand(-sp.diff(den, cprev))
    Ac = sp.expand(den + Bc * cprev)
    e_c = [e for e in scal if e is not e_inv and str(cprev.base).split("#")[0] == e.target]
    if len(e_c) != 1:
        raise Broken("c' recurrence not recognised")
    Cc = sp.simplify(M.expand_scalar(e_c[0].value) * den)
    ok_idx = sym.is_zero(cprev.indices[0] - (iv - 1)) and sym.is_zero(e_inv.key[0] - iv) and sym.is_zero(e_c[0].key[0] - iv)
    chk.ob("C02-R3", "%s Thomas forward sweep: 1/(a_i - b_i c'_{i-1}), c'_i = c_i/(...)" % cls, ok_idx, loc(g, {"line": Lf.line}),
           "a_i=%s b_i=%s c_i=%s" % (Ac, Bc, Cc), construct=cls + "/thomas/forward-scalars")
    # row update: x_i = (x_i - b_i x_{i-1}) * inv
    rowe = [e for e in Lf.effects if e.target == arr and isinstance(e.value, Vec)]
    sweep_covers_last = False
    if not rowe:
        # factorisation and right-hand-side sweep kept in separate loops over the same rows (the sweep reads the cached
        # pivots back): the sweep's row update is taken from the other loop, cached pivots resolved to their definition
        from .c05 import rebind_effect
        for L2 in I.loops:
            if L2 is Lf or L2.inner or L2.step != Lf.step or L2.cond_op != Lf.cond_op or L2.hi is None:
                continue
            extra_ = sp.expand(sp.sympify(L2.hi) - sp.sympify(Lf.hi))
            if sym.is_zero(sp.sympify(L2.lo) - sp.sympify(Lf.lo)) and (sym.is_zero(extra_) or sym.is_zero(extra_ - 1)):
                rowe = [rebind_effect(e, L2.var, iv) for e in L2.effects if e.target == arr and isinstance(e.value, Vec)]
                if rowe:
                    sweep_covers_last = sym.is_zero(extra_ - 1)      # the sweep also eliminates the last row (row N)
                    break

    def resolve_inv(v, idx, definition):
        """reads of the cached inverse pivot at row idx stand for the expression stored there"""
        if definition is None:
            return v
        out = Vec()
        for a_, c_ in v.t.items():
            c2 = sp.sympify(c_)
            rep = {x_: definition for x_ in c2.atoms(sp.Indexed) if str(x_.base).split("#")[0] == e_inv.target and sym.is_zero(x_.indices[0] - idx)}
            out = out.add(Vec({a_: c2.xreplace(rep) if rep else c2}))
        return out
    final = resolve_inv(rowe[-1].value, iv, e_inv.value) if rowe else Vec()
    tagp = None
    for a_ in final.t:
        tagp = a_[0]
    want = Vec.atom((tagp, sp.expand(iv))).add(Vec.atom((tagp, sp.expand(iv - 1))).scale(Bc), -1).scale(1 / den)
    d = Vec({a_: M.expand_scalar(c_) for a_, c_ in final.t.items()}).add(want, -1)
    chk.ob("C02-R3", "%s Thomas forward sweep on the right-hand side rows" % cls, vec_zero(d) and sym.is_zero(rowe[-1].key[0] - iv), loc(g, {"line": Lf.line}), repr(d.clean())[:200],
           construct=cls + "/thomas/forward-rows")
    chk.ob("C02-R3", "%s forward sweep covers rows 1..N-1" % cls, Lf.lo == 1 and sym.is_zero(Lf.hi - n) and Lf.step == 1 and Lf.cond_op == "<", loc(g, {"line": Lf.line}),
           "range %s..%s" % (Lf.lo, Lf.hi), construct=cls + "/thomas/forward-range")
    # system row i: b_i x_{i-1} + a_i x_i + c_i x_{i+1} = rhs_i   with rhs from the range assignment
    rstart, rcount, rvec, rline = rhs_rows(I, arr, Lf, F, M)
    rhs_m = sub_vec(ex_v(rvec), sym.RSYM, m - rstart)
    eq = Vec.atom((arr, sp.expand(m - 1))).scale(Bc.subs(iv, m)).add(Vec.atom((arr, sp.expand(m))).scale(Ac.subs(iv, m))).add(Vec.atom((arr, sp.expand(m + 1))).scale(Cc.subs(iv, m))).add(rhs_m, -1)
    ok, ranks = rank_equal([eq.clean()], J, 1)
    chk.ob("C02-R2", "%s interior row of the tridiagonal system is the continuity of the first derivative" % cls, ok, loc(g, {"line": rline}),
           "ranks %s; row: %r" % (ranks, eq.clean()), construct=cls + "/system-rows")
    chk.ob("C02-R2", "%s interior rows cover knots 1..N-1" % cls, sym.is_zero(rstart - 1) and sym.is_zero(rcount - (n - 1)), loc(g, {"line": rline}), "rows %s.. count %s" % (rstart, rcount),
           construct=cls + "/system-rows-range")
    # first and last rows: end velocities
    cs = [norm_vec(rows[k]) for k in sorted(rows)]
    st = I.effects
    def straight(target, idx, ops=("=",)):
        return [e for e in st if e.target == target and len(e.key) == 1 and not isinstance(e.key[0], str) and sym.is_zero(e.key[0] - idx) and e.op in ops]
    inv0 = straight(e_inv.target, 0)
    c0 = straight(e_c[0].target, 0)
    rhs0 = straight(arr, 0)
    a0 = sp.simplify(1 / M.expand_scalar(inv0[-1].value)) if inv0 else None
    c0v = sp.simplify(M.expand_scalar(c0[-1].value) * a0) if c0 and a0 is not None else None
    okf = False
    det = ""
    if a0 is not None and c0v is not None and rhs0:
        eq0 = Vec.atom((arr, Integer(0))).scale(a0).add(Vec.atom((arr, Integer(1))).scale(c0v)).add(ex_v(rhs0[0].value), -1)
        # p_0'(0) - v_start
        c0rows = [sub_vec(r, i, Integer(0)) for r in cs]
        vel0 = spec.deriv_at(c0rows, 1, 0).add(Vec.atom((M.m_bc + ".start_velocity",)), -1)
        okf, rk = rank_equal([eq0.clean()], [vel0.clean()], 1)
        det = "row: %r ; condition: %r" % (eq0.clean(), vel0.clean())
    chk.ob("C02-R2", "%s first row of the system is p'(t_0) = start velocity" % cls, okf, loc(g), det[:400], construct=cls + "/first-row")
    # last row: straight effects at index n
    invn = straight(e_inv.target, n)
    rhsn = straight(arr, n)
    okl = False
    det = ""
    if invn and rhsn:
        exn = M.expand_scalar(invn[-1].value)
        denn = sp.expand(1 / exn)
        cps = [x for x in denn.atoms(sp.Indexed) if not str(x.base).startswith(M.m_durations)]
        if len(cps) == 1:
            Bn = sp.expand(-sp.diff(denn, cps[0]))
            An = sp.expand(denn + Bn * cps[0])
            eqn = Vec.atom((arr, sp.expand(n - 1))).scale(Bn).add(Vec.atom((arr, n)).scale(An)).add(ex_v(rhsn[0].value), -1)
            lrows = [sub_vec(r, i, n - 1) for r in cs]
            veln = spec.deriv_at(lrows, 1, M.dur(n - 1)).add(Vec.atom((M.m_bc + ".end_velocity",)), -1)
            okl, rk = rank_equal([eqn.clean()], [veln.clean()], 1)
            okl = okl and sym.is_zero(cps[0].indices[0] - (n - 1))
            det = "row: %r ; condition: %r" % (eqn.clean(), veln.clean())
            # the last row's elimination uses the same recurrence
            upd = straight(arr, n, ops=("-=", "*="))
    chk.ob("C02-R2", "%s last row of the system is p'(t_N) = end velocity" % cls, okl, loc(g), det[:400], construct=cls + "/last-row")
    # first row normalisation and last row elimination of the right-hand side
    r0 = straight(arr, 0, ops=("*=",))

    def through_row0(v):
        # a loop over the interior rows between the store of row 0 and its normalisation makes the interpreter read row 0
        # as "row 0 of the current generation"; interior loops write rows 1..N-1 only (system-rows-range), so that is
        # still the value stored before
        out = Vec()
        for a_, c_ in v.t.items():
            if str(a_[0]).split("#")[0] == arr and len(a_) == 2 and sym.is_zero(sp.sympify(a_[1])) and rhs0:
                out = out.add(rhs0[0].value.scale(c_))
            else:
                out = out.add(Vec({a_: c_}))
        return out
    ok0 = bool(r0) and inv0 and vec_zero(ex_v(through_row0(resolve_inv(r0[-1].value, Integer(0), inv0[-1].value if inv0 else None))).add(ex_v(rhs0[0].value).scale(M.expand_scalar(inv0[-1].value)), -1))
    chk.ob("C02-R3", "%s first row normalised by its pivot" % cls, bool(ok0), loc(g), "", construct=cls + "/thomas/first-row")
    rn = straight(arr, n, ops=("*=",))
    okn = False
    if not rn and sweep_covers_last and rowe and invn:
        # the last row is eliminated by the sweep loop itself: its update at i = N with the last pivot
        class _E:
            pass
        e_last = _E()
        e_last.value = sub_vec(rowe[-1].value, iv, n)
        rn = [e_last]
    if rn and invn:
        v = resolve_inv(rn[-1].value, n, invn[-1].value)
        tagn = [a_[0] for a_ in v.t if sym.is_zero(a_[1] - (n - 1))]
        if tagn:
            Bn = sp.expand(-sp.diff(sp.expand(1 / M.expand_scalar(invn[-1].value)), cps[0]))
            want = Vec.atom((tagn[0], sp.expand(n))).add(Vec.atom((tagn[0], sp.expand(n - 1))).scale(Bn), -1).scale(M.expand_scalar(invn[-1].value))
            okn = vec_zero(Vec({a_: M.expand_scalar(c_) for a_, c_ in v.t.items()}).add(want, -1))
    chk.ob("C02-R3", "%s last row eliminated with the same recurrence" % cls, okn, loc(g), "", construct=cls + "/thomas/last-row")
    # backward sweep: x_i -= c'_i x_{i+1}, i = N-1 .. 0
    bw = [L for L in I.loops if L.step == -1 and any(e.target == arr for e in L.effects)]
    okb = False
    if len(bw) == 1:
        Lb = bw[0]
        e = [x for x in Lb.effects if x.target == arr][-1]
        jv = Lb.var
        tg = [a_[0] for a_ in e.value.t][0]
        cp = [x for c_ in e.value.t.values() for x in sp.sympify(c_).atoms(sp.Indexed)]
        okb = (len(cp) == 1 and str(cp[0].base).split("#")[0] == e_c[0].target and sym.is_zero(cp[0].indices[0] - jv)
               and vec_zero(e.value.add(Vec.atom((tg, sp.expand(jv))).add(Vec.atom((tg, sp.expand(jv + 1))).scale(cp[0]), -1), -1))
               and sym.is_zero(Lb.lo - (n - 1)) and Lb.hi == 0 and Lb.cond_op == ">=" and sym.is_zero(e.key[0] - jv))
    chk.ob("C02-R3", "%s backward sweep x_i -= c'_i x_{i+1} from row N-1 down to 0" % cls, okb, loc(g), "", construct=cls + "/thomas/backward")


def cubic_rows(F, M):
    """The tridiagonal system of the cubic spline exactly as the code assembles it (scaling included):
    {'arr': second-derivative array, 'interior': f(m) -> Vec (row m, = 0), 'row0': Vec, 'rown': Vec}.
    Raises Broken when the Thomas recurrences cannot be recognised (see check_cubic for the obligations)."""
    I0, Lc, rows = c01.closure_rows(F, M)
    i = Lc.var
    roles = c01.deriv_roles(M, rows, i)
    n = sp.Symbol(M.m_count, integer=True, positive=True)
    arr = roles[2][0].split("#")[0]
    I = I0
    defs = I.local_defs()

    def ex_v(v):
        return norm_vec(M.expand_vec(I.expand_local(v, defs)))

    fw = [L for L in I.loops if len({e.target for e in L.effects if len(e.key) == 1 and isinstance(e.value, sp.Basic)}) >= 2]
    if len(fw) != 1:
        raise Broken("cubic elimination loop not identified")
    Lf = fw[0]
    iv = Lf.var
    scal = [e for e in Lf.effects if isinstance(e.value, sp.Basic)]
    cand = None
    for e in scal:
        ex = M.expand_scalar(e.value)
        den = sp.expand(1 / ex)
        prev = [x for x in ex.atoms(sp.Indexed) if not str(x.base).startswith(M.m_durations)]
        if len(prev) == 1 and sp.denom(sp.together(den)) == 1 and sp.Poly(sp.numer(sp.together(den)), prev[0]).degree() == 1:
            cand = (e, den, prev[0])
    if cand is None:
        raise Broken("pivot recurrence not recognised")
    e_inv, den, cprev = cand
    Bc = sp.expand(-sp.diff(den, cprev))
    Ac = sp.expand(den + Bc * cprev)
    e_c = [e for e in scal if e is not e_inv and str(cprev.base).split("#")[0] == e.target]
    if len(e_c) != 1:
        raise Broken("c' recurrence not recognised")
    Cc = sp.simplify(M.expand_scalar(e_c[0].value) * den)
    rstart, rcount, rvec, rline = rhs_rows(I, arr, Lf, F, M)

    def interior(mm):
        rhs_m = sub_vec(ex_v(rvec), sym.RSYM, mm - rstart)
        return (Vec.atom((arr, sp.expand(mm - 1))).scale(Bc.subs(iv, mm)).add(Vec.atom((arr, sp.expand(mm))).scale(Ac.subs(iv, mm)))
                .add(Vec.atom((arr, sp.expand(mm + 1))).scale(Cc.subs(iv, mm))).add(rhs_m, -1))

    st = I.effects

    def straight(target, idx, ops=("=",)):
        return [e for e in st if e.target == target and len(e.key) == 1 and not isinstance(e.key[0], str) and sym.is_zero(e.key[0] - idx) and e.op in ops]
    inv0 = straight(e_inv.target, 0)
    c0 = straight(e_c[0].target, 0)
    rhs0 = straight(arr, 0)
    if not (inv0 and c0 and rhs0):
        raise Broken("first row of the cubic system not found")
    a0 = sp.simplify(1 / M.expand_scalar(inv0[-1].value))
    c0v = sp.simplify(M.expand_scalar(c0[-1].value) * a0)
    row0 = Vec.atom((arr, Integer(0))).scale(a0).add(Vec.atom((arr, Integer(1))).scale(c0v)).add(ex_v(rhs0[0].value), -1)
    invn = straight(e_inv.target, n)
    rhsn = straight(arr, n)
    if not (invn and rhsn):
        raise Broken("last row of the cubic system not found")
    denn = sp.expand(1 / M.expand_scalar(invn[-1].value))
    cps = [x for x in denn.atoms(sp.Indexed) if not str(x.base).startswith(M.m_durations)]
    if len(cps) != 1:
        raise Broken("last pivot recurrence not recognised")
    Bn = sp.expand(-sp.diff(denn, cps[0]))
    An = sp.expand(denn + Bn * cps[0])
    rown = Vec.atom((arr, sp.expand(n - 1))).scale(Bn).add(Vec.atom((arr, n)).scale(An)).add(ex_v(rhsn[0].value), -1)
    return {"arr": arr, "interior": interior, "row0": row0, "rown": rown, "inv": e_inv.target, "cprime": e_c[0].target, "lower": Bc, "upper": Cc, "var": iv}
