"""C15 - copies of optimizers and splines are independent deep copies (DESIGN.md s6 C15).

R1 every data member of the optimizer is copied from the same member of the source in both
   hand-written copy operations (reasoned exception list below);
R2 non-owning pointer members that can point at the object's own members are re-bound;
R3 the owned workspace is deep-copied / reset, self-assignment is guarded;
R4 value classes cannot share: no pointer/reference/view/shared member, no user copy ops.
"""
from ..facts import Broken, walk, pp, loc
from ..effects import Effects, roots, callee
from .common import (facts_for, classes, strip_copy, write_rhs, is_mem_of_var, is_this_mem,
                     optimizer_classes)

# members whose value is not needed for "evaluates identically" (DESIGN s6 C15-R1)
R1_EXCEPTIONS = {"last_error_message_": "diagnostic text of the last validation only; does not influence evaluate()"}

VALUE_SHORTS = ["PPolyND", "CubicSplineND", "QuinticSplineND", "SepticSplineND", "BoundaryConditions",
                "Workspace", "Gradients", "BoundaryStateGrads", "BoundaryDualGrads", "TimePowers",
                "OptimizationFlags", "SpatialVariableLayout", "GradientCheckResult"]
HANDLE_SHORTS = {"Segment", "ConstIterator", "Proxy"}
STD_VALUE = {"vector", "basic_string", "array", "pair"}


def field_kind(ty):
    c = ty.get("c")
    if ty.get("ref"):
        return "reference"
    if c == "ptr":
        return "pointer"
    if c == "eigen":
        return "value" if ty.get("tmpl") in ("Matrix", "Array") else "view"
    if c == "record" and ty.get("std") in ("unique_ptr",):
        return "owning"
    if c == "record" and ty.get("std") in ("shared_ptr", "weak_ptr", "reference_wrapper", "function"):
        return "shared"
    return "value"


def find_copy_ops(F, cls):
    cc = [f for f in F.funcs(cls) if f.get("copyctor")]
    ca = [f for f in F.funcs(cls) if f.get("kind") == "copyassign"]
    return cc, ca


def rebinding_ok(rhs, other_id, ptr_field, own_field):
    """rhs == (other.P == &other.M) ? &this->M : other.P  (or the != / swapped form)."""
    rhs = strip_copy(rhs)
    if not isinstance(rhs, dict) or rhs.get("k") != "cond":
        return False, "right-hand side is not a conditional re-binding: " + pp(rhs)
    c, a, b = strip_copy(rhs["c"]), strip_copy(rhs["a"]), strip_copy(rhs["b"])
    if not (isinstance(c, dict) and c.get("k") == "bin" and c["op"] in ("==", "!=")):
        return False, "condition is not an (in)equality test: " + pp(c)
    if c["op"] == "!=":
        a, b = b, a
    sides = [strip_copy(c["l"]), strip_copy(c["r"])]

    def is_other_ptr(x):
        return is_mem_of_var(x, other_id, ptr_field)

    def is_addr_other_own(x):
        return isinstance(x, dict) and x.get("k") == "un" and x["op"] == "&" and is_mem_of_var(x["e"], other_id, own_field)

    if not ((is_other_ptr(sides[0]) and is_addr_other_own(sides[1])) or (is_other_ptr(sides[1]) and is_addr_other_own(sides[0]))):
        return False, "condition does not compare other.%s with &other.%s: %s" % (ptr_field, own_field, pp(c))
    if not (isinstance(a, dict) and a.get("k") == "un" and a["op"] == "&" and is_this_mem(a["e"], own_field)):
        return False, "own-target branch is not &this->%s: %s" % (own_field, pp(a))
    if not is_other_ptr(b):
        return False, "foreign-target branch is not other.%s: %s" % (ptr_field, pp(b))
    return True, pp(rhs)


def run(chk):
    F = facts_for(chk)
    E = Effects(F)
    for cls in optimizer_classes(F):
        rec = F.record(cls)
        cc, ca = find_copy_ops(F, cls)
        if len(cc) != 1 or len(ca) != 1:
            if not rec["userCopyCtor"] and not rec["userCopyAssign"]:
                # implicit member-wise copies of a class with raw self-pointers would be wrong
                ptrs = [f["name"] for f in rec["fields"] if field_kind(f["ty"]) in ("pointer", "owning")]
                chk.ob("C15-R1", cls + " copy operations", not ptrs, "%s:%s" % (rec["file"], rec["line"]),
                       "class has pointer members %s but no user-provided copy operations" % ptrs,
                       construct=cls + "::copy-operations")
                continue
            raise Broken("expected one copy ctor and one copy assignment in " + cls)
        fields = rec["fields"]
        # discover self-referential pointers: P assigned &this->M somewhere in the class
        selfptr = {}
        for f in F.funcs(cls):
            for path, how, node in E.function_writes(f):
                if path[0] == "this" and len(path) == 2:
                    fld = F.field(cls, path[1])
                    if fld and field_kind(fld["ty"]) == "pointer":
                        rhs = write_rhs(node)
                        for n in walk(rhs):
                            if n.get("k") == "un" and n["op"] == "&" and is_this_mem(n["e"]):
                                selfptr.setdefault(path[1], set()).add(strip_copy(n["e"])["field"])
        for op in (cc[0], ca[0]):
            chk.saw(op)
            opname = "copy-constructor" if op.get("copyctor") else "copy-assignment"
            other_id = op["params"][0]["id"]
            writes = E.function_writes(op)
            by_field = {}
            for path, how, node in writes:
                if path[0] == "this" and len(path) >= 2:
                    by_field.setdefault(path[1], []).append((how, node))
            for fld in fields:
                name = fld["name"]
                kind = field_kind(fld["ty"])
                where = "%s:%s (%s %s)" % (op["file"], op["line"], cls, opname)
                inst = "%s %s.%s" % (opname, cls, name)
                if name in R1_EXCEPTIONS and name not in by_field:
                    chk.note("R1 exception: %s (%s)" % (name, R1_EXCEPTIONS[name]))
                    continue
                ws = by_field.get(name, [])
                if kind == "pointer":
                    targets = selfptr.get(name)
                    if not targets:
                        # plain non-owning pointer never bound to an own member: verbatim copy is right
                        ok = any(is_mem_of_var(write_rhs(n), other_id, name) for _, n in ws)
                        chk.ob("C15-R1", inst, ok, where, "pointer copied from other.%s" % name, construct="%s::%s/%s" % (cls, opname, name))
                        continue
                    if len(targets) != 1:
                        raise Broken("pointer %s may point at several own members %s" % (name, targets))
                    own = next(iter(targets))
                    if not ws:
                        chk.ob("C15-R2", inst, False, where, "self-referential pointer is never assigned in this copy operation",
                               construct="%s::%s/%s" % (cls, opname, name))
                        continue
                    # the last write decides the final value
                    how, node = ws[-1]
                    ok, why = rebinding_ok(write_rhs(node), other_id, name, own)
                    chk.ob("C15-R2", inst, ok, "%s:%s" % (op["file"], node.get("line")), why,
                           construct="%s::%s/%s" % (cls, opname, name))
                elif kind == "owning":
                    ok, why = owned_ok(op, ws, other_id, name, opname)
                    chk.ob("C15-R3", inst, ok, where, why, construct="%s::%s/%s" % (cls, opname, name))
                elif kind in ("reference", "view", "shared"):
                    chk.ob("C15-R4", inst, False, where, "optimizer member of sharing-capable kind '%s'" % kind,
                           construct="%s::%s" % (cls, name))
                else:
                    ok = any(is_mem_of_var(write_rhs(n), other_id, name) for _, n in ws if write_rhs(n) is not None)
                    why = "copied from other.%s" % name if ok else (
                        "member is not copied from other.%s in this operation (writes seen: %s)" % (name, [pp(write_rhs(n)) for _, n in ws]))
                    chk.ob("C15-R1", inst, ok, where, why, construct="%s::%s/%s" % (cls, opname, name))
            if op.get("kind") == "copyassign":
                ok, why = self_assign_guard(op, other_id)
                chk.ob("C15-R3", "%s self-assignment guard" % cls, ok, "%s:%s" % (op["file"], op["line"]), why,
                       construct="%s::copy-assignment/self-guard" % cls)
        # setters of the self-referential pointers: nullptr -> own default
        for name, targets in selfptr.items():
            own = next(iter(targets))
            for f in F.funcs(cls):
                if f.get("copyctor") or f.get("kind") in ("copyassign", "ctor"):
                    continue
                for path, how, node in E.function_writes(f):
                    if path == ("this", name):
                        rhs = strip_copy(write_rhs(node))
                        ok, why = setter_ok(rhs, f, own)
                        chk.ob("C15-R2", "setter %s::%s -> %s" % (cls, f["name"], name), ok,
                               "%s:%s" % (f["file"], node.get("line")), why, construct="%s::%s/%s" % (cls, f["name"], name))
                        chk.saw(f)
    chk.floor("C15-R2", 4)
    chk.floor("C15-R3", 3)
    chk.floor("C15-R1", 20)

    # R4 value classes
    n4 = 0
    for short in VALUE_SHORTS:
        for cls in F.classes(short):
            rec = F.record(cls)
            where = "%s:%s" % (rec["file"], rec["line"])
            for flag in ("userCopyCtor", "userCopyAssign", "userMoveCtor", "userMoveAssign"):
                chk.ob("C15-R4", "%s has no %s" % (cls, flag), not rec[flag], where,
                       "value class must rely on member-wise copies", construct="%s/%s" % (cls, flag))
            for fld in rec["fields"]:
                bad = sharing_kind(F, fld["ty"], set())
                chk.ob("C15-R4", "%s.%s is a value" % (cls, fld["name"]), bad is None, "%s:%s" % (rec["file"], fld["line"]),
                       "type %s %s" % (fld["tystr"], ("contains " + bad) if bad else "cannot alias another object"),
                       construct="%s.%s" % (cls, fld["name"]))
                n4 += 1
    chk.floor("C15-R4", 100)
    chk.not_decided = ["run-time behaviour of user-supplied maps after the source is destroyed (they are referenced, not owned, by design)"]
    chk.trusted.append("C++ object semantics: member-wise copy of value-typed members cannot alias")


def sharing_kind(F, ty, seen):
    k = field_kind(ty)
    if k in ("pointer", "reference", "view", "shared", "owning"):
        return k
    if ty.get("c") == "record":
        if ty.get("std"):
            if ty["std"] not in STD_VALUE and ty["std"] not in ("unique_ptr",):
                return "unlisted std type " + ty["std"]
            if ty.get("elem"):
                return sharing_kind(F, ty["elem"], seen)
            return None
        n = ty.get("n")
        if n in seen:
            return None
        seen.add(n)
        short = n.split("::")[-1].split("<")[0] if n else ""
        if short in HANDLE_SHORTS:
            return "transient handle " + short
        if n in F.records:
            for f in F.records[n]["fields"]:
                b = sharing_kind(F, f["ty"], seen)
                if b:
                    return b
    return None


def owned_ok(op, ws, other_id, name, opname):
    """unique_ptr member: assigned a freshly constructed copy of *other.name under `if (other.name)`;
    in the assignment the else branch resets."""
    found_new = False
    found_reset = False
    for n in walk(op.get("body")):
        if n.get("k") == "if":
            c = strip_copy(n["cond"])
            # condition: other.name (explicit operator bool conversion)
            tests_other = any(is_mem_of_var(x, other_id, name) for x in walk(c))
            if not tests_other:
                continue
            for x in walk(n["then"]):
                if x.get("k") == "new":
                    init = x.get("init")
                    if init and init.get("k") == "ctor" and init.get("copy") and len(init["args"]) == 1:
                        a = strip_copy(init["args"][0])
                        if (a.get("k") == "call" and callee(a).get("op") == "*" and is_mem_of_var(a.get("obj"), other_id, name)):
                            found_new = True
                if x.get("k") == "call" and callee(x).get("name") == "make_unique":
                    for a in x.get("args", []):
                        a = strip_copy(a)
                        if a.get("k") == "call" and callee(a).get("op") == "*" and is_mem_of_var(a.get("obj"), other_id, name):
                            found_new = True
            if n.get("else") is not None:
                for x in walk(n["else"]):
                    if x.get("k") == "call" and callee(x).get("name") == "reset" and is_this_mem(x.get("obj"), name) and not [a for a in x.get("args", []) if a.get("k") != "defaultarg"]:
                        found_reset = True
    # no write may move/alias the source's pointer: forbid get()/release() of other.name anywhere
    for n in walk(op.get("body")):
        if n.get("k") == "call" and callee(n).get("name") in ("get", "release") and is_mem_of_var(n.get("obj"), other_id, name):
            return False, "takes the raw pointer of other.%s (%s): shared or stolen ownership" % (name, pp(n))
    for ini in op.get("inits") or []:
        if ini.get("field") == name and ini.get("written"):
            return False, "owned pointer initialised from %s in the member-initialiser list" % pp(ini.get("init"))
    if not found_new:
        return False, "no deep copy 'new T(*other.%s)' guarded by 'if (other.%s)' found" % (name, name)
    if opname == "copy-assignment" and not found_reset:
        return False, "assignment does not reset the owned workspace when the source has none"
    return True, "deep copy of *other.%s under 'if (other.%s)'%s" % (name, name, ", reset otherwise" if opname == "copy-assignment" else "")


def self_assign_guard(op, other_id):
    body = op.get("body")
    stmts = body["body"] if body and body.get("k") == "block" else []
    if not stmts or stmts[0].get("k") != "if":
        return False, "first statement is not the self-assignment test"
    c = strip_copy(stmts[0]["cond"])
    ok = (c.get("k") == "bin" and c["op"] == "!=" and
          any(x.get("k") == "this" for x in walk(c)) and
          any(x.get("k") == "un" and x["op"] == "&" and x["e"].get("k") == "var" and x["e"]["id"] == other_id for x in walk(c)))
    if not ok:
        return False, "guard condition is not 'this != &other': " + pp(c)
    # nothing but 'return *this' outside the guard
    rest = stmts[1:]
    only_ret = all(s.get("k") == "return" for s in rest)
    return only_ret, "all member writes are inside 'if (this != &other)'" if only_ret else "statements outside the guard"


def setter_ok(rhs, f, own):
    if not isinstance(rhs, dict) or rhs.get("k") != "cond":
        # unconditional &own is fine (constructor-like reset)
        if isinstance(rhs, dict) and rhs.get("k") == "un" and rhs["op"] == "&" and is_this_mem(rhs["e"], own):
            return True, "binds to own member"
        return False, "setter stores %s without the nullptr -> own-default fallback" % pp(rhs)
    c, a, b = strip_copy(rhs["c"]), strip_copy(rhs["a"]), strip_copy(rhs["b"])
    pids = {p["id"] for p in f["params"]}
    if not (c.get("k") == "bin" and c["op"] in ("!=", "==")):
        return False, "condition is not a null test: " + pp(c)
    l, r = strip_copy(c["l"]), strip_copy(c["r"])
    isnull = lambda x: x.get("k") == "lit" and x.get("v") in ("nullptr", "0")
    isparam = lambda x: x.get("k") == "var" and x.get("id") in pids
    if not ((isparam(l) and isnull(r)) or (isparam(r) and isnull(l))):
        return False, "condition does not test the parameter against nullptr: " + pp(c)
    if c["op"] == "==":
        a, b = b, a
    ok = isparam(a) and b.get("k") == "un" and b["op"] == "&" and is_this_mem(b["e"], own)
    return ok, ("nullptr selects &%s, otherwise the caller's map" % own) if ok else ("branches are %s / %s" % (pp(a), pp(b)))
