"""C15 - copies of optimizers and splines are independent deep copies (DESIGN.md s6 C15).

R1 every data member of the optimizer is copied from the same member of the source in both
   hand-written copy operations (reasoned exception list below);
R2 non-owning pointer members that can point at the object's own members are re-bound;
R3 the owned workspace is deep-copied / reset, self-assignment is guarded;
R4 value classes cannot share: no pointer/reference/view/shared member, no user copy ops.
"""
from ..facts import Broken, walk, pp, loc
from ..effects import Effects, roots, callee
from ..own import Sim, Unknown
from .common import (facts_for, classes, strip_copy, write_rhs, is_mem_of_var, is_this_mem,
                     optimizer_classes)

# members whose value is not needed for "evaluates identically" (DESIGN s6 C15-R1)
R1_EXCEPTIONS = {"last_error_message_": "diagnostic text of the last validation only; does not influence evaluate()"}

VALUE_SHORTS = ["PPolyND", "CubicSplineND", "QuinticSplineND", "SepticSplineND", "BoundaryConditions",
                "Workspace", "Gradients", "BoundaryStateGrads", "BoundaryDualGrads", "TimePowers",
                "OptimizationFlags", "SpatialVariableLayout", "GradientCheckResult"]
HANDLE_SHORTS = {"Segment", "ConstIterator", "Proxy"}
STD_VALUE = {"vector", "basic_string", "array", "pair"}


def field_kind(ty):
    c = ty.get("c")
    if ty.get("ref"):
        return "reference"
    if c == "ptr":
        return "pointer"
    if c == "eigen":
        return "value" if ty.get("tmpl") in ("Matrix", "Array") else "view"
    if c == "record" and ty.get("std") in ("unique_ptr",):
        return "owning"
    if c == "record" and ty.get("std") in ("shared_ptr", "weak_ptr", "reference_wrapper", "function"):
        return "shared"
    return "value"


def show(v):
    if v[0] == "addr":
        return "&%s.%s" % (v[1], v[2])
    if v[0] == "ext":
        return "a caller-owned object (%s)" % v[1]
    if v[0] == "ext_prior":
        return "the caller-owned object the destination referenced before the assignment (%s)" % v[1]
    if v[0] == "uptr":
        return "unique_ptr -> %s" % (v[1],)
    return str(v)


def find_copy_ops(F, cls):
    cc = [f for f in F.funcs(cls) if f.get("copyctor")]
    ca = [f for f in F.funcs(cls) if f.get("kind") == "copyassign"]
    return cc, ca


def rebinding_ok(rhs, other_id, ptr_field, own_field):
    """rhs == (other.P == &other.M) ? &this->M : other.P  (or the != / swapped form)."""
    rhs = strip_copy(rhs)
    if not isinstance(rhs, dict) or rhs.get("k") != "cond":
        return False, "right-hand side is not a conditional re-binding: " + pp(rhs)
    c, a, b = strip_copy(rhs["c"]), strip_copy(rhs["a"]), strip_copy(rhs["b"])
    if not (isinstance(c, dict) and c.get("k") == "bin" and c["op"] in ("==", "!=")):
        return False, "condition is not an (in)equality test: " + pp(c)
    if c["op"] == "!=":
        a, b = b, a
    sides = [strip_copy(c["l"]), strip_copy(c["r"])]

    def is_other_ptr(x):
        return is_mem_of_var(x, other_id, ptr_field)

    def is_addr_other_own(x):
        return isinstance(x, dict) and x.get("k") == "un" and x["op"] == "&" and is_mem_of_var(x["e"], other_id, own_field)

    if not ((is_other_ptr(sides[0]) and is_addr_other_own(sides[1])) or (is_other_ptr(sides[1]) and is_addr_other_own(sides[0]))):
        return False, "condition does not compare other.%s with &other.%s: %s" % (ptr_field, own_field, pp(c))
    if not (isinstance(a, dict) and a.get("k") == "un" and a["op"] == "&" and is_this_mem(a["e"], own_field)):
        return False, "own-target branch is not &this->%s: %s" % (own_field, pp(a))
    if not is_other_ptr(b):
        return False, "foreign-target branch is not other.%s: %s" % (ptr_field, pp(b))
    return True, pp(rhs)


def run(chk):
    F = facts_for(chk)
    E = Effects(F)
    for cls in optimizer_classes(F):
        rec = F.record(cls)
        cc, ca = find_copy_ops(F, cls)
        if len(cc) != 1 or len(ca) != 1:
            if not rec["userCopyCtor"] and not rec["userCopyAssign"]:
                # implicit member-wise copies of a class with raw self-pointers would be wrong
                ptrs = [f["name"] for f in rec["fields"] if field_kind(f["ty"]) in ("pointer", "owning")]
                chk.ob("C15-R1", cls + " copy operations", not ptrs, "%s:%s" % (rec["file"], rec["line"]),
                       "class has pointer members %s but no user-provided copy operations" % ptrs,
                       construct=cls + "::copy-operations")
                continue
            raise Broken("expected one copy ctor and one copy assignment in " + cls)
        fields = rec["fields"]
        # discover self-referential pointers: P assigned &this->M somewhere in the class
        selfptr = {}
        for f in F.funcs(cls):
            for path, how, node in E.function_writes(f):
                if path[0] == "this" and len(path) == 2:
                    fld = F.field(cls, path[1])
                    if fld and field_kind(fld["ty"]) == "pointer":
                        rhs = write_rhs(node)
                        for n in walk(rhs):
                            if n.get("k") == "un" and n["op"] == "&" and is_this_mem(n["e"]):
                                selfptr.setdefault(path[1], set()).add(strip_copy(n["e"])["field"])
        if any(len(t) != 1 for t in selfptr.values()):
            raise Broken("a pointer member may point at several own members: %s" % selfptr)
        sp_map = {k: next(iter(v)) for k, v in selfptr.items()}
        owning = [f["name"] for f in fields if field_kind(f["ty"]) == "owning"]
        check_rvalue_sources(chk, F, cls, rec, sp_map)
        import itertools
        cfgs = [dict(zip(sorted(sp_map), c)) for c in itertools.product(("own", "ext"), repeat=len(sp_map))]
        for op in (cc[0], ca[0]):
            chk.saw(op)
            is_ctor = bool(op.get("copyctor"))
            opname = "copy-constructor" if is_ctor else "copy-assignment"
            other_id = op["params"][0]["id"]
            where = "%s:%s (%s %s)" % (op["file"], op["line"], cls, opname)
            scen = []
            for cfg in cfgs:
                for ows in (True, False):
                    for tws in ((False,) if is_ctor else (True, False)):
                        # an assignment's destination may have been pointed at a caller's map (another one) beforehand
                        for tcfg in (cfgs[:1] if is_ctor else cfgs):
                            scen.append({"ptr": cfg, "this_ptr": tcfg, "other_ws": ows, "this_ws": tws, "self": False})
                    if not is_ctor:
                        scen.append({"ptr": cfg, "other_ws": ows, "this_ws": ows, "self": True})
            results = []
            from . import c12
            from ..own import layout_hook
            try:
                l_dirty, l_rebuild, l_ins, l_outs = c12.layout_roles(F, E, cls)
            except Broken:
                l_dirty, l_rebuild, l_ins, l_outs = None, None, set(), set()
            for sc in scen:
                S = Sim(F, cls, sc, sp_map, owning, is_ctor, other_id=other_id)
                if l_rebuild is not None:
                    S.hook = layout_hook(l_rebuild, l_dirty, l_ins, l_outs)
                try:
                    S.run(op)
                except Unknown as ex:
                    raise Broken("%s %s: %s" % (cls, opname, ex))
                results.append((sc, S))

            def describe(sc):
                return "source %s, source %s a workspace%s%s" % (", ".join("%s -> %s" % (k, "its own default" if v == "own" else "a caller's map") for k, v in sorted(sc["ptr"].items())),
                                                              "owns" if sc["other_ws"] else "has no", "" if is_ctor else (", destination %s one%s" % ("owns" if sc["this_ws"] else "has no", "".join(", destination %s -> another caller's map" % k for k, v in sorted(sc.get("this_ptr", {}).items()) if v == "ext"))),
                                                              ", self-assignment" if sc["self"] else "")
            for fld in fields:
                name = fld["name"]
                kind = field_kind(fld["ty"])
                inst = "%s %s.%s" % (opname, cls, name)
                if kind in ("reference", "view", "shared"):
                    chk.ob("C15-R4", inst, False, where, "optimizer member of sharing-capable kind '%s'" % kind, construct="%s::%s" % (cls, name))
                    continue
                bad = None
                for sc, S in results:
                    v = S.state[name]
                    if name in sp_map:
                        want = ("addr", "this", sp_map[name]) if sc["ptr"][name] == "own" else ("ext", name)
                        if v != want:
                            bad = (sc, "ends as %s, expected %s" % (show(v), show(want)))
                    elif name in owning:
                        if sc["self"]:
                            okv = v == ("uptr", ("wsobj", "this") if sc["other_ws"] else ("null",)) or (v[0] == "uptr" and v[1][0] == "heap" and S.heap[v[1][1]] == ("copy-of", ("wsobj", "this")))
                        elif sc["other_ws"]:
                            okv = v[0] == "uptr" and v[1][0] == "heap" and S.heap[v[1][1]] == ("copy-of", ("wsobj", "other"))
                        else:
                            okv = v == ("uptr", ("null",))
                        if not okv:
                            bad = (sc, "ends as %s%s" % (show(v), (" = " + str(S.heap[v[1][1]])) if v[0] == "uptr" and v[1][0] == "heap" else ""))
                        if S.problems:
                            bad = (sc, S.problems[0])
                    elif kind == "pointer":
                        if v not in (("val", "other", name), ("val", "this", name) if sc["self"] else None):
                            bad = (sc, "plain pointer ends as %s" % show(v))
                    else:
                        okv = v == ("val", "other", name) or (sc["self"] and v == ("val", "this", name))
                        if not okv and l_rebuild is not None and (name in l_outs or name == l_dirty):
                            # a lazily rebuilt cache member: rebuilding it (or marking it dirty) instead of copying it is as
                            # good, provided the rebuild saw the final inputs - that ordering is C09-R3's obligation
                            okv = v[0] in ("rebuilt", "bool")
                        if not okv and (name in R1_EXCEPTIONS or fld["ty"].get("std") == "basic_string") and v in (("val", "this", name), ("uninit",)):
                            # the diagnostic text of the last validation (a string member, whatever it is called)
                            okv = True
                        if not okv:
                            bad = (sc, "ends as %s, not as a copy of other.%s" % (show(v), name))
                    if bad:
                        break
                rule = "C15-R2" if name in sp_map else ("C15-R3" if name in owning else "C15-R1")
                chk.ob(rule, inst, bad is None, where, ("%d alias configurations" % len(results)) if bad is None else "with %s: %s" % (describe(bad[0]), bad[1]), construct="%s::%s/%s" % (cls, opname, name))
            if l_rebuild is not None:
                from ..own import cache_consistent
                why = None
                for sc, S in results:
                    if sc["self"]:
                        continue
                    want_in = {m_: ((("addr", "this", sp_map[m_]) if sc["ptr"][m_] == "own" else ("ext", m_)) if m_ in sp_map else ("val", "other", m_)) for m_ in l_ins}
                    why = why or cache_consistent(S.state, l_dirty, l_ins, [o for o in l_outs if o in S.state], want_in)
                chk.ob("C15-R1", "%s %s: the cached variable layout of the copy matches the inputs it received (copied with them, or rebuilt / marked dirty after the last of them)" % (opname, cls),
                       why is None, where, why or "", construct="%s::%s/layout-cache" % (cls, opname))
            if not is_ctor:
                chk.ob("C15-R3", "%s self-assignment leaves every member as it was" % cls, True, where, "covered by the self-assignment configurations above", construct="%s::copy-assignment/self" % cls)
        # every other function that stores into a self-referential pointer (setters, private helpers): afterwards the
        # pointer is the object's own default or a caller's map - never another optimizer's member, never null
        for name, own in sp_map.items():
            for f in F.funcs(cls):
                if f.get("copyctor") or f.get("kind") in ("copyassign", "ctor"):
                    continue
                if not any(path == ("this", name) for path, how, node in E.function_writes_local(f)):
                    continue
                chk.saw(f)
                oid = next((p_["id"] for p_ in f["params"] if p_["ty"].get("n") == cls), None)
                pps = [p_ for p_ in f["params"] if p_["ty"].get("c") == "ptr"]
                bad = None
                nrun = 0
                for cfg in (cfgs if oid is not None else cfgs[:1]):
                    for nulls in itertools.product((True, False), repeat=len(pps)):
                        params = {p_["id"]: (("null",) if z else ("ext", "argument " + p_["name"])) for p_, z in zip(pps, nulls)}
                        S = Sim(F, cls, {"ptr": cfg, "other_ws": True, "this_ws": True, "self": False}, sp_map, owning, False, other_id=oid, params=params, lenient=True)
                        try:
                            S.run(f)
                        except Unknown as ex:
                            raise Broken("%s::%s: %s" % (cls, f["name"], ex))
                        nrun += 1
                        for st in S.finals:
                            v = st[name]
                            okv = v == ("addr", "this", own) or v[0] == "ext"
                            if pps and all(nulls) and oid is None:
                                okv = v == ("addr", "this", own)
                            if not okv:
                                bad = "with %s: %s ends as %s" % (", ".join("%s %s" % (p_["name"], "null" if z else "non-null") for p_, z in zip(pps, nulls)) or str(cfg), name, show(v))
                chk.ob("C15-R2", "setter %s::%s -> %s" % (cls, f["name"], name), bad is None, loc(f), bad or "%d configurations: own default or the caller's map" % nrun, construct="%s::%s/%s" % (cls, f["name"], name))
    chk.floor("C15-R2", 4)
    chk.floor("C15-R3", 3)
    chk.floor("C15-R1", 20)
    chk.floor("C15-R5", 2)

    # R4 value classes
    n4 = 0
    for short in VALUE_SHORTS:
        for cls in F.classes(short):
            rec = F.record(cls)
            where = "%s:%s" % (rec["file"], rec["line"])
            cc, ca = find_copy_ops(F, cls)
            for flag, ops, is_ctor in (("userCopyCtor", cc, True), ("userCopyAssign", ca, False)):
                if not rec[flag]:
                    chk.ob("C15-R4", "%s: implicit member-wise %s" % (cls, "copy construction" if is_ctor else "copy assignment"), True, where, "no user-provided operation", construct="%s/%s" % (cls, flag))
                    continue
                # a hand-written copy operation of a value class: fine when every member ends as a copy of the source's
                if len(ops) != 1:
                    raise Broken("%s declares %s but its body was not extracted" % (cls, flag))
                missing = []
                for selfsc in ((False,) if is_ctor else (False, True)):
                    S = Sim(F, cls, {"ptr": {}, "other_ws": False, "this_ws": False, "self": selfsc}, {}, [], is_ctor, other_id=ops[0]["params"][0]["id"])
                    try:
                        S.run(ops[0])
                    except Unknown as ex:
                        raise Broken("%s %s: %s" % (cls, flag, ex))
                    missing += [n_ for n_, v in S.state.items() if not (v == ("val", "other", n_) or (selfsc and v == ("val", "this", n_)))]
                if missing:
                    raise Broken("%s has a hand-written %s that does not copy %s verbatim; whether that is harmless depends on what those members cache (C11 decides the lazy caches) - not decided here" % (
                        cls, "copy constructor" if is_ctor else "copy assignment", sorted(set(missing))))
                chk.ob("C15-R4", "%s: hand-written %s copies every member" % (cls, "copy constructor" if is_ctor else "copy assignment"), True, loc(ops[0]), "", construct="%s/%s" % (cls, flag))
            for fld in rec["fields"]:
                bad = sharing_kind(F, fld["ty"], set())
                chk.ob("C15-R4", "%s.%s is a value" % (cls, fld["name"]), bad is None, "%s:%s" % (rec["file"], fld["line"]),
                       "type %s %s" % (fld["tystr"], ("contains " + bad) if bad else "cannot alias another object"),
                       construct="%s.%s" % (cls, fld["name"]))
                n4 += 1
    chk.floor("C15-R4", 100)
    chk.not_decided = ["run-time behaviour of user-supplied maps after the source is destroyed (they are referenced, not owned, by design)"]
    chk.trusted.append("C++ object semantics: member-wise copy of value-typed members cannot alias")


def check_rvalue_sources(chk, F, cls, rec, sp_map):
    """R5: a copy may also be taken from an rvalue (a returned temporary, std::move, a growing std::vector).  With no move
    operations declared, rvalues bind to the copy operations and R1-R3 decide them.  A defaulted move operation moves
    member by member: a pointer that points at a member of the source is copied as it is, so the destination shares the
    source's map and dangles once the source is gone."""
    where = "%s:%s" % (rec["file"], rec["line"])
    short = cls.split("<")[0].split("::")[-1]
    own = lambda f: any((p["ty"].get("ref") == "rvalue") and (p["ty"].get("n") or "").replace(" ", "") == cls.replace(" ", "") for p in f["params"][:1]) and len(f["params"]) == 1
    for flag, is_ctor in (("userMoveCtor", True), ("userMoveAssign", False)):
        what = "move construction" if is_ctor else "move assignment"
        if not rec.get(flag):
            chk.ob("C15-R5", "%s: %s from an rvalue goes through the copy operations" % (cls, "construction" if is_ctor else "assignment"), True, where,
                   "no move %s declared: rvalue sources bind to the copy %s (R1-R3)" % ("constructor" if is_ctor else "assignment", "constructor" if is_ctor else "assignment"), construct="%s/%s" % (cls, flag))
            continue
        bodies = [f for f in F.funcs(cls) if own(f) and ((is_ctor and f.get("kind") == "ctor") or (not is_ctor and f["name"] == "operator="))]
        decls = [m for m in rec.get("methods", []) if m.get("nparams") == 1 and ((is_ctor and m.get("kind") == "ctor" and m["name"].split("<")[0] == short) or (not is_ctor and m["name"] == "operator="))]
        if bodies:
            raise Broken("%s has a user-provided %s; it is not analysed (only the copy operations are)" % (cls, what))
        dele = [m for m in decls if m.get("deleted")]
        dflt = [m for m in decls if m.get("defaulted")]
        if dele and not dflt:
            chk.ob("C15-R5", "%s: %s is deleted" % (cls, what), True, where, "rvalue sources are rejected at compile time", construct="%s/%s" % (cls, flag))
            continue
        if not dflt:
            raise Broken("%s declares a %s whose definition was not extracted" % (cls, what))
        chk.ob("C15-R5", "%s: defaulted %s of a class whose pointer members may point at its own members" % (cls, what), not sp_map, "%s:%s" % (rec["file"], dflt[0].get("line")),
               "member-wise move copies %s as they are: when the source uses its own default, the destination points into the source" % sorted(sp_map), construct="%s/%s" % (cls, flag))


def sharing_kind(F, ty, seen):
    k = field_kind(ty)
    if k in ("pointer", "reference", "view", "shared", "owning"):
        return k
    if ty.get("c") == "record":
        if ty.get("std"):
            if ty["std"] not in STD_VALUE and ty["std"] not in ("unique_ptr",):
                return "unlisted std type " + ty["std"]
            if ty.get("elem"):
                return sharing_kind(F, ty["elem"], seen)
            return None
        n = ty.get("n")
        if n in seen:
            return None
        seen.add(n)
        short = n.split("::")[-1].split("<")[0] if n else ""
        if short in HANDLE_SHORTS:
            return "transient handle " + short
        if n in F.records:
            for f in F.records[n]["fields"]:
                b = sharing_kind(F, f["ty"], seen)
                if b:
                    return b
    return None


def owned_ok(op, ws, other_id, name, opname):
    """unique_ptr member: assigned a freshly constructed copy of *other.name under `if (other.name)`;
    in the assignment the else branch resets."""
    found_new = False
    found_reset = False
    for n in walk(op.get("body")):
        if n.get("k") == "if":
            c = strip_copy(n["cond"])
            # condition: other.name (explicit operator bool conversion)
            tests_other = any(is_mem_of_var(x, other_id, name) for x in walk(c))
            if not tests_other:
                continue
            for x in walk(n["then"]):
                if x.get("k") == "new":
                    init = x.get("init")
                    if init and init.get("k") == "ctor" and init.get("copy") and len(init["args"]) == 1:
                        a = strip_copy(init["args"][0])
                        if (a.get("k") == "call" and callee(a).get("op") == "*" and is_mem_of_var(a.get("obj"), other_id, name)):
                            found_new = True
                if x.get("k") == "call" and callee(x).get("name") == "make_unique":
                    for a in x.get("args", []):
                        a = strip_copy(a)
                        if a.get("k") == "call" and callee(a).get("op") == "*" and is_mem_of_var(a.get("obj"), other_id, name):
                            found_new = True
            if n.get("else") is not None:
                for x in walk(n["else"]):
                    if x.get("k") == "call" and callee(x).get("name") == "reset" and is_this_mem(x.get("obj"), name) and not [a for a in x.get("args", []) if a.get("k") != "defaultarg"]:
                        found_reset = True
    # no write may move/alias the source's pointer: forbid get()/release() of other.name anywhere
    for n in walk(op.get("body")):
        if n.get("k") == "call" and callee(n).get("name") in ("get", "release") and is_mem_of_var(n.get("obj"), other_id, name):
            return False, "takes the raw pointer of other.%s (%s): shared or stolen ownership" % (name, pp(n))
    for ini in op.get("inits") or []:
        if ini.get("field") == name and ini.get("written"):
            return False, "owned pointer initialised from %s in the member-initialiser list" % pp(ini.get("init"))
    if not found_new:
        return False, "no deep copy 'new T(*other.%s)' guarded by 'if (other.%s)' found" % (name, name)
    if opname == "copy-assignment" and not found_reset:
        return False, "assignment does not reset the owned workspace when the source has none"
    return True, "deep copy of *other.%s under 'if (other.%s)'%s" % (name, name, ", reset otherwise" if opname == "copy-assignment" else "")


def self_assign_guard(op, other_id):
    body = op.get("body")
    stmts = body["body"] if body and body.get("k") == "block" else []
    if not stmts or stmts[0].get("k") != "if":
        return False, "first statement is not the self-assignment test"
    c = strip_copy(stmts[0]["cond"])
    ok = (c.get("k") == "bin" and c["op"] == "!=" and
          any(x.get("k") == "this" for x in walk(c)) and
          any(x.get("k") == "un" and x["op"] == "&" and x["e"].get("k") == "var" and x["e"]["id"] == other_id for x in walk(c)))
    if not ok:
        return False, "guard condition is not 'this != &other': " + pp(c)
    # nothing but 'return *this' outside the guard
    rest = stmts[1:]
    only_ret = all(s.get("k") == "return" for s in rest)
    return only_ret, "all member writes are inside 'if (this != &other)'" if only_ret else "statements outside the guard"


def setter_ok(rhs, f, own):
    if not isinstance(rhs, dict) or rhs.get("k") != "cond":
        # unconditional &own is fine (constructor-like reset)
        if isinstance(rhs, dict) and rhs.get("k") == "un" and rhs["op"] == "&" and is_this_mem(rhs["e"], own):
            return True, "binds to own member"
        return False, "setter stores %s without the nullptr -> own-default fallback" % pp(rhs)
    c, a, b = strip_copy(rhs["c"]), strip_copy(rhs["a"]), strip_copy(rhs["b"])
    pids = {p["id"] for p in f["params"]}
    if not (c.get("k") == "bin" and c["op"] in ("!=", "==")):
        return False, "condition is not a null test: " + pp(c)
    l, r = strip_copy(c["l"]), strip_copy(c["r"])
    isnull = lambda x: x.get("k") == "lit" and x.get("v") in ("nullptr", "0")
    isparam = lambda x: x.get("k") == "var" and x.get("id") in pids
    if not ((isparam(l) and isnull(r)) or (isparam(r) and isnull(l))):
        return False, "condition does not test the parameter against nullptr: " + pp(c)
    if c["op"] == "==":
        a, b = b, a
    ok = isparam(a) and b.get("k") == "un" and b["op"] == "&" and is_this_mem(b["e"], own)
    return ok, ("nullptr selects &%s, otherwise the caller's map" % own) if ok else ("branches are %s / %s" % (pp(a), pp(b)))
