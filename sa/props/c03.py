"""C03 - piecewise-polynomial evaluation is exact, right-continuous and route independent (DESIGN s6 C03).

R1 one evaluator funnel (all public evaluate overloads, Segment::evaluate, handles);
R2 right-continuous clamped lookup on every route (comparison-shape argument on path conditions);
R3 hint post-condition on every return path of the hinted lookup;
R4 Horner recurrence over rows built as ff(k+d,d) * c_{k+d}; derivative() builds the same rows on the same breakpoints;
R5 falling factorials: compile-time witness for the static table, recurrence of the dynamic table, in-bounds dispatch;
R6 zero beyond the degree in all three entry points.
"""
import os
import subprocess
import tempfile

import sympy as sp
from sympy import Integer

from ..facts import Broken, pp, loc, walk, VERIF
from ..effects import Effects, callee, roots
from ..flow import Flow
from .. import preds, sym
from ..preds import Scope, canon, refine, cmp_atom, absorb, fmt
from ..sym import Interp, Unsupported, Vec, Container
from .common import facts_for, full_classes, strip_copy, is_this_mem, lit_value, inline_expr_helpers


def ret_nodes(f):
    return [n for n in walk(f["body"]) if n.get("k") == "return"]


def scope_with_locals(f):
    sc = Scope(f)
    for n in walk(f["body"]):
        if n.get("k") == "decl":
            if n.get("init") is not None and any(x.get("k") == "lambda" for x in walk(n["init"])):
                sc.bind_opaque(n["id"], "%" + n["name"])       # result of an algorithm taking a predicate: named, not expanded
            else:
                sc.bind_local(n)
    return sc


def run(chk):
    F = facts_for(chk)
    for cls in full_classes(F, "PPolyND", ("update", "derivative", "findSegment")):
        rec = F.record(cls)
        dim, order = rec["targs"][0], rec["targs"][1]
        check_funnel(chk, F, cls)
        check_lookup(chk, F, cls)
        if dim != 1:
            check_formulas(chk, F, cls)
        check_factor_dispatch(chk, F, cls, order)
    check_static_table(chk)
    chk.floor("C03-R1", 40)
    chk.floor("C03-R2", 30)
    chk.floor("C03-R3", 12)
    chk.floor("C03-R4", 12)
    chk.floor("C03-R5", 10)
    chk.floor("C03-R6", 12)
    chk.not_decided = ["NaN time arguments (outside the quantifier; the binary route returns index N for NaN)",
                       "'identical value' is decided as 'same operation sequence on the same operands', no rounding argument is needed"]
    chk.trusted.append("std::upper_bound returns the first element greater than the key on a sorted range; breakpoints are strictly increasing (precondition)")


# ------------------------------------------------------------------------------------------------- R1 / R6


def check_funnel(chk, F, cls):
    ev = F.funcs(cls, "evaluate")
    by_sig = {}
    for f in ev:
        sig = tuple((p["ty"].get("c"), p["ty"].get("n") or p["ty"].get("std") or "") for p in f["params"])
        by_sig[sig] = f
    scalar_int = next(f for f in ev if len(f["params"]) == 2 and f["params"][0]["ty"].get("c") == "double" and f["params"][1]["ty"].get("c") == "int")
    hint_int = next(f for f in ev if len(f["params"]) == 3 and f["params"][2]["ty"].get("c") == "int")
    batch_int = next(f for f in ev if len(f["params"]) == 2 and f["params"][0]["ty"].get("std") == "vector" and f["params"][1]["ty"].get("c") == "int")
    horner = F.func1(cls, "evaluateSegmentHorner")
    lookups = F.funcs(cls, "findSegment")
    look1 = next(f for f in lookups if len(f["params"]) == 1)
    look2 = next(f for f in lookups if len(f["params"]) == 2)
    # small private wrappers (a helper that subtracts the breakpoint and calls the Horner routine, say) are read through;
    # the routines the rules are about are never inlined
    keep = {horner["fid"], look1["fid"], look2["fid"]} | {f["fid"] for f in ev}
    scalar_int, hint_int, batch_int = (inline_expr_helpers(F, f, keep) for f in (scalar_int, hint_int, batch_int))
    ev = [{scalar_int["fid"]: scalar_int, hint_int["fid"]: hint_int, batch_int["fid"]: batch_int}.get(f["fid"], f) for f in ev]
    def lit_null(x):
        x = strip_copy(x)
        while isinstance(x, dict) and x.get("k") == "cast":
            x = strip_copy(x["e"])
        return isinstance(x, dict) and x.get("k") == "lit" and x.get("v") in ("nullptr", "0")

    for f, lk, nlk in ((scalar_int, look1, 1), (hint_int, look2, 2)):
        chk.saw(f)
        sc = scope_with_locals(f)
        rets = ret_nodes(f)
        main = [r for r in rets if strip_copy(r["e"]).get("k") == "call" and callee(strip_copy(r["e"])).get("fid") == horner["fid"]]
        if f is scalar_int and not main and len(rets) == 1:
            # the plain route written as a delegation to the hinted route with a null hint: the hinted lookup with a null
            # hint is the plain lookup (C03-R3, 'null hint delegates'), so the route's obligations are the hinted route's
            c = strip_copy(rets[0]["e"])
            if c.get("k") == "call" and callee(c).get("fid") == hint_int["fid"] and len(c["args"]) == 3:
                a0, a2 = canon(c["args"][0], sc), canon(c["args"][2], sc)
                okd = a0 == "$p0" and lit_null(c["args"][1]) and a2 == "$p1"
                chk.ob("C03-R1", "%s::evaluate/2 evaluates piece findSegment(t) at local time t - b[idx] through the Horner routine" % cls, okd, loc(f),
                       "delegates to the hinted route with (t, nullptr, order): %s" % pp(c)[:80], construct="%s/evaluate2/funnel" % cls)
                chk.ob("C03-R6", "%s::evaluate/2 returns zero exactly when order >= coefficient count" % cls, okd, loc(f), "inherits the guard of the hinted route", construct="%s/evaluate2/zero" % cls)
                continue
        if len(main) == 0:
            raise Broken("%s::evaluate/%d: no return through the Horner routine and no recognised delegation" % (cls, len(f["params"])))
        ok = len(main) == 1
        det = ""
        if ok:
            c = strip_copy(main[0]["e"])
            a = [canon(x, sc) for x in c["args"]]
            lk_args = ",".join("$p%d" % k for k in range(nlk))
            lkc = "this.findSegment(%s)" % lk_args
            want = [lkc, "($p0 - this.breakpoints_[%s])" % lkc, "$p%d" % (len(f["params"]) - 1)]
            ok = a == want
            det = "Horner arguments %s" % a
            # the lookup called is the matching overload
            lcalls = [n for n in walk(f["body"]) if n.get("k") == "call" and callee(n).get("name") == "findSegment"]
            # (reading through a wrapper repeats the text of an argument: the same call, however often it is written)
            ok = ok and lcalls and all(callee(n_).get("fid") == lk["fid"] for n_ in lcalls) and len({canon(n_, sc) for n_ in lcalls}) == 1
        chk.ob("C03-R1", "%s::evaluate/%d evaluates piece findSegment(t) at local time t - b[idx] through the Horner routine" % (cls, len(f["params"])), ok, loc(f), det,
               construct="%s/evaluate%d/funnel" % (cls, len(f["params"])))
        # R6: zero when the order exceeds the degree
        others = [r for r in rets if r not in main]
        okz = len(others) == 1 and strip_copy(others[0]["e"]).get("k") == "call" and callee(strip_copy(others[0]["e"])).get("name") == "Zero"
        first = f["body"]["body"][0]
        p, t = preds.literal(first["cond"], sc) if first.get("k") == "if" else (None, None)
        want_atom = cmp_atom(">=", "$p%d" % (len(f["params"]) - 1), "this.num_coeffs_", False)
        chk.ob("C03-R6", "%s::evaluate/%d returns zero exactly when order >= coefficient count" % (cls, len(f["params"])), okz and (p, t) == want_atom, loc(f),
               "guard %s" % pp(first.get("cond")), construct="%s/evaluate%d/zero" % (cls, len(f["params"])))
    chk.saw(horner)
    sc = scope_with_locals(horner)
    first = horner["body"]["body"][0]
    dn = set(refine(frozenset(), first["cond"], True, sc)) if first.get("k") == "if" else set()
    want = {frozenset({cmp_atom(">=", "$p2", "this.num_coeffs_", False)}), frozenset({cmp_atom("<", "$p2", "0", False)})}
    zr = [n for n in walk(first.get("then")) if n.get("k") == "return"] if first.get("k") == "if" else []
    okz = bool(zr) and callee(strip_copy(zr[0]["e"])).get("name") == "Zero"
    chk.ob("C03-R6", "%s Horner routine returns zero for orders outside [0, coefficient count)" % cls, absorb(dn) == want and okz, loc(horner), fmt(dn), construct=cls + "/horner/zero")
    # Deriv overloads forward to the integer overloads; batch maps the scalar route in order
    for f in ev:
        if f in (scalar_int, hint_int, batch_int):
            continue
        chk.saw(f)
        sc = Scope(f)
        rets = ret_nodes(f)
        ok = len(rets) == 1
        if ok:
            c = strip_copy(rets[0]["e"])
            target = {2: (scalar_int if f["params"][0]["ty"].get("c") == "double" else batch_int), 3: hint_int}[len(f["params"])]
            ok = c.get("k") == "call" and callee(c).get("fid") == target["fid"] and [canon(a, sc) for a in c["args"]] == ["$p%d" % k for k in range(len(f["params"]))]
            last = c["args"][-1] if ok else None
            ok = ok and last.get("k") == "cast" and last["to"].get("c") == "int"
        chk.ob("C03-R1", "%s::evaluate(%s Deriv) forwards to the integer-order overload" % (cls, "..., " * (len(f["params"]) - 1)), ok, loc(f), pp(f["body"]).strip(),
               construct="%s/evaluate-deriv/%d/%s" % (cls, len(f["params"]), f["params"][0]["ty"].get("c")))
    chk.saw(batch_int)
    body = batch_int["body"]["body"]
    loops = [s for s in body if s.get("k") == "rfor"]
    ok = len(loops) == 1
    tr = [n for n in walk(batch_int["body"]) if n.get("k") == "call" and callee(n).get("name") == "transform" and callee(n).get("ns") == "std"]
    if not loops and len(tr) == 1 and len(tr[0]["args"]) == 4:
        # std::transform(t.begin(), t.end(), back_inserter(results), [..](double x) { return evaluate(x, order); })
        sc = Scope(batch_int)
        a = [strip_copy(x) for x in tr[0]["args"]]
        rng = a[0].get("k") == "call" and callee(a[0]).get("name") == "begin" and canon(a[0]["obj"], sc) == "$p0" and a[1].get("k") == "call" and callee(a[1]).get("name") == "end" and canon(a[1]["obj"], sc) == "$p0"
        ins = a[2].get("k") == "call" and callee(a[2]).get("name") == "back_inserter"
        lam = a[3] if a[3].get("k") == "lambda" else None
        okl = False
        if lam is not None and len(lam.get("specs", [])) == 1:
            sp_ = lam["specs"][0]
            rr = [n for n in walk(sp_["body"]) if n.get("k") == "return"]
            if len(rr) == 1 and len(sp_.get("params", [])) == 1:
                sc.bind_opaque(sp_["params"][0]["id"], "%elem")
                c = strip_copy(rr[0]["e"])
                okl = c.get("k") == "call" and callee(c).get("fid") == scalar_int["fid"] and [canon(x, sc) for x in c["args"]] == ["%elem", "$p1"]
                if not okl and c.get("k") == "call" and callee(c).get("fid") == horner["fid"]:
                    # the element is computed by the Horner routine directly: the scalar route's own main expression, with
                    # the scalar route's zero guard (order >= coefficient count) taken once for the whole batch
                    lkc = "this.findSegment(%elem)"
                    main_ok = [canon(x, sc) for x in c["args"]] == [lkc, "(%%elem - this.breakpoints_[%s])" % lkc, "$p1"]
                    first = body[0]
                    g_ok = False
                    if first.get("k") == "if" and not first.get("else"):
                        th = first["then"]
                        rs = th["body"] if th.get("k") == "block" else [th]
                        if len(rs) == 1 and rs[0].get("k") == "return" and preds.literal(first["cond"], sc) == cmp_atom(">=", "$p1", "this.num_coeffs_", False):
                            z = strip_copy(rs[0]["e"])
                            za = [strip_copy(x) for x in z.get("args", [])] if z.get("k") == "ctor" else []
                            g_ok = len(za) in (2, 3) and canon(za[0], sc) == "$p0.size()" and any(x_.get("k") == "call" and callee(x_).get("name") == "Zero" for x_ in walk(za[1])) \
                                and not any(x_.get("k") in ("var", "mem") for x_ in walk(za[1]))
                    okl = main_ok and g_ok
        rets = [x_ for x_ in body if x_.get("k") == "return"]      # the function's own returns, not the lambda's
        okres = ins and len(rets) == 1 and strip_copy(rets[0]["e"]).get("id") == strip_copy(a[2]["args"][0]).get("id")
        chk.ob("C03-R1", "%s batch evaluation = scalar evaluation of each time in order" % cls, bool(rng and okl and okres), loc(batch_int), "std::transform over the whole input, appending", construct=cls + "/batch")
        loops = None
    elif not loops:
        raise Broken("%s batch evaluation: neither a range-for nor a std::transform over the input" % cls)
    if loops is None:
        pass
    elif ok:
        lp = loops[0]
        sc = Scope(batch_int)
        sc.bind_opaque(lp["var"]["id"], "%elem")
        okr = canon(lp["range"], sc) == "$p0"
        st = lp["body"]["body"] if lp["body"].get("k") == "block" else [lp["body"]]
        okb = len(st) == 1 and st[0].get("k") == "expr" and callee(st[0]["e"]).get("name") == "push_back"
        if okb:
            a = strip_copy(st[0]["e"]["args"][0])
            okb = a.get("k") == "call" and callee(a).get("fid") == scalar_int["fid"] and [canon(x, sc) for x in a["args"]] == ["%elem", "$p1"]
            res = st[0]["e"]["obj"]
            rets = ret_nodes(batch_int)
            okb = okb and len(rets) == 1 and strip_copy(rets[0]["e"]).get("id") == res.get("id")
        ok = okr and okb
    if loops is not None:
        chk.ob("C03-R1", "%s batch evaluation = scalar evaluation of each time in order" % cls, ok, loc(batch_int), "", construct=cls + "/batch")
    # Segment handles
    seg = cls + "::Segment"
    se = F.funcs(seg, "evaluate")
    s_int = next(f for f in se if f["params"][1]["ty"].get("c") == "int")
    s_der = next(f for f in se if f is not s_int)
    chk.saw(s_int)
    sc = Scope(s_int)
    r = ret_nodes(s_int)
    c = strip_copy(r[0]["e"]) if len(r) == 1 else {}
    ok = c.get("k") == "call" and callee(c).get("fid") == horner["fid"] and [canon(a, sc) for a in c["args"]] == ["this.idx_", "$p0", "$p1"] and canon(c["obj"], sc) in ("this.parent_", "(*this.parent_)")
    chk.ob("C03-R1", "%s::evaluate(t, int) runs the same Horner routine of its parent at its own index" % seg, ok, loc(s_int), pp(s_int["body"]).strip(), construct=seg + "/evaluate-int")
    r = ret_nodes(s_der)
    c = strip_copy(r[0]["e"]) if len(r) == 1 else {}
    ok = c.get("k") == "call" and callee(c).get("fid") == s_int["fid"] and c["args"][1].get("k") == "cast"
    chk.ob("C03-R1", "%s::evaluate(t, Deriv) forwards to the integer overload" % seg, ok, loc(s_der), "", construct=seg + "/evaluate-deriv")
    sctor = [f for f in F.funcs(seg) if f.get("kind") == "ctor" and len(f["params"]) == 2]
    ok = len(sctor) == 1
    if ok:
        got = {}
        pid = {p["id"]: k for k, p in enumerate(sctor[0]["params"])}
        for ini in sctor[0]["inits"]:
            rr = strip_copy(ini["init"])
            got[ini["field"]] = pid.get(rr.get("id")) if rr.get("k") == "var" else None
        ok = got == {"parent_": 0, "idx_": 1}
    chk.ob("C03-R1", "%s constructor stores (parent, index)" % seg, ok, loc(sctor[0]) if sctor else "", "", construct=seg + "/ctor")
    nxt = preds.cbin("+", "this.idx_", "1")
    for nm, args in (("startTime", "this.parent_.breakpoints_[this.idx_]"), ("endTime", "this.parent_.breakpoints_[%s]" % nxt),
                     ("duration", "(this.parent_.breakpoints_[%s] - this.parent_.breakpoints_[this.idx_])" % nxt), ("index", "this.idx_")):
        g = F.func1(seg, nm)
        r = ret_nodes(g)
        ok = len(r) == 1 and canon(r[0]["e"], Scope(g)) == args
        chk.ob("C03-R1", "%s::%s" % (seg, nm), ok, loc(g), pp(g["body"]).strip(), construct="%s/%s" % (seg, nm))
    for nm, want in (("operator[]", ["this", "$p0"]),):
        g = F.func1(cls, nm)
        r = ret_nodes(g)
        c = strip_copy(r[0]["e"])
        ok = c.get("k") == "ctor" and "Segment" in callee(c).get("cls", "") and [canon(a, Scope(g)) for a in c["args"]] == want
        chk.ob("C03-R1", "%s::%s returns the handle (this, idx)" % (cls, nm), ok, loc(g), "", construct="%s/%s" % (cls, nm))
    it = cls + "::ConstIterator"
    g = F.func1(it, "operator*")
    c = strip_copy(ret_nodes(g)[0]["e"])
    ok = c.get("k") == "ctor" and [canon(a, Scope(g)) for a in c["args"]] == ["this.ptr_", "this.idx_"]
    chk.ob("C03-R1", "%s dereference yields the handle (owner, current index)" % it, ok, loc(g), "", construct=it + "/deref")
    for nm, want in (("begin", ["this", "0"]), ("end", ["this", "this.num_segments_"])):
        g = F.func1(cls, nm)
        c = strip_copy(ret_nodes(g)[0]["e"])
        ok = c.get("k") == "ctor" and [canon(a, Scope(g)) for a in c["args"]] == want
        chk.ob("C03-R1", "%s::%s()" % (cls, nm), ok, loc(g), "", construct="%s/%s" % (cls, nm))
    pre = [f for f in F.funcs(it, "operator++") if len(f["params"]) == 0]
    ok = len(pre) == 1 and any(n.get("k") == "un" and n["op"] == "++" and canon(n["e"], Scope(pre[0])) == "this.idx_" for n in walk(pre[0]["body"]))
    chk.ob("C03-R1", "%s pre-increment advances the index by one" % it, ok, loc(pre[0]) if pre else "", "", construct=it + "/incr")


# ------------------------------------------------------------------------------------------------- R2 / R3


def check_lookup(chk, F, cls):
    lookups = F.funcs(cls, "findSegment")
    f1 = next(f for f in lookups if len(f["params"]) == 1)
    f2 = next(f for f in lookups if len(f["params"]) == 2)
    chk.saw(f1)
    chk.saw(f2)
    sc = scope_with_locals(f1)
    body = f1["body"]["body"]
    n_ = "this.num_segments_"
    b = "this.breakpoints_"
    # leading guards
    guards = []
    k = 0
    while k < len(body) and (body[k].get("k") in ("decl", "null") or (body[k].get("k") == "if" and not body[k].get("else"))):
        if body[k].get("k") in ("decl", "null"):
            k += 1              # a local between the guards (scope_with_locals reads it through)
            continue
        th = body[k]["then"]
        st = th["body"] if th.get("k") == "block" else [th]
        if len(st) == 1 and st[0].get("k") == "return":
            guards.append((set(refine(frozenset(), body[k]["cond"], True, sc)), canon(st[0]["e"], sc), body[k]))
            k += 1
        else:
            break
    rest = body[k:]
    def has(dn, atom):
        return frozenset({atom}) in dn
    t_le_front = cmp_atom("<=", "$p0", b + ".front()", True)
    t_lt_front = cmp_atom("<", "$p0", b + ".front()", True)
    t_ge_back = cmp_atom(">=", "$p0", b + ".back()", True)
    ok_front = any((has(dn, t_le_front) or has(dn, t_lt_front)) and r == "0" for dn, r, _ in guards)
    ok_back = any(has(dn, t_ge_back) and r == preds.cbin("-", n_, "1") for dn, r, _ in guards)
    chk.ob("C03-R2", "%s lookup clamps t before the first breakpoint to piece 0" % cls, ok_front, loc(f1), str([(fmt(dn), r) for dn, r, _ in guards]), construct=cls + "/lookup/clamp-front")
    chk.ob("C03-R2", "%s lookup clamps t at or after the last breakpoint to the last piece (closed: t >= back)" % cls, ok_back, loc(f1), str([(fmt(dn), r) for dn, r, _ in guards]),
           construct=cls + "/lookup/clamp-back")
    extra = [g for g in guards if not ((has(g[0], t_le_front) or has(g[0], t_lt_front)) or has(g[0], t_ge_back) or g[1] == "0")]
    chk.ob("C03-R2", "%s lookup has no other early exit" % cls, not extra, loc(f1), str([(fmt(dn), r) for dn, r, _ in extra]), construct=cls + "/lookup/guards")
    # the searches
    n_routes = 0
    for st in rest:
        if st.get("k") == "if":
            # the size switch between the routes: both routes are required to be right for every N, so which one runs
            # for which N does not matter
            chk.note("%s linear/binary switch: %s" % (cls, preds.literal(st["cond"], sc)))
    for lp in [x for st in rest for x in walk(st) if x.get("k") == "for"]:
        n_routes += 1
        check_linear(chk, F, cls, f1, lp, sc, n_, b)
    fi = [x for st in rest for x in walk(st) if x.get("k") == "call" and callee(x).get("name") == "find_if" and callee(x).get("ns") == "std"]
    for c in fi:
        n_routes += 1
        # the statements of the block that holds the call (the route may sit under the linear/binary size switch)
        holder = rest
        for st in rest:
            for blk in [x for x in walk(st) if x.get("k") == "block"]:
                if any(any(y is c for y in walk(z)) for z in blk["body"]):
                    holder = blk["body"]
        check_find_if(chk, F, cls, f1, c, sc, n_, b, holder)
    ub = [x for st in rest for x in walk(st) if x.get("k") == "call" and callee(x).get("name") in ("upper_bound", "lower_bound", "equal_range", "partition_point")]
    for c in ub:
        n_routes += 1
        okc = callee(c).get("name") == "upper_bound"
        a = [canon(x, sc) for x in c["args"]]
        okc = okc and a == [b + ".begin()", b + ".end()", "$p0"]
        chk.ob("C03-R2", "%s binary route: first breakpoint greater than t over the whole breakpoint range" % cls, okc, loc(f1, c), "%s(%s)" % (callee(c).get("name"), ", ".join(a)),
               construct=cls + "/lookup/binary-call")
        ubtxt = "upper_bound(%s.begin(),%s.end(),$p0)" % (b, b)
        forms = {("(distance(%s.begin(),%s) - 1)" % (b, ubtxt)).replace(" ", ""), ("((%s - %s.begin()) - 1)" % (ubtxt, b)).replace(" ", "")}
        rets = [r for r in ret_nodes(f1) if r.get("e") is not None and "upper_bound(" in canon(r["e"], sc)]
        okr = len(rets) == 1 and canon(rets[0]["e"], sc).replace(" ", "") in forms
        chk.ob("C03-R2", "%s binary route returns (position of that breakpoint) - 1" % cls, okr, loc(f1, rets[0] if rets else None), canon(rets[0]["e"], sc) if rets else "no return uses the search result",
               construct=cls + "/lookup/binary-index")
    chk.ob("C03-R2", "%s every search route was recognised" % cls, n_routes >= 1, loc(f1), "%d routes" % n_routes, construct=cls + "/lookup/routes")
    # ---- hinted lookup: Flow over path conditions + hint state ----------------------------------------
    sc2 = scope_with_locals(f2)
    hint = "(*$p1)"

    def transfer(node, st, ctx):
        atoms, hv = st
        if node.get("k") == "assign":
            l = canon(node["l"], sc2)
            if l == hint:
                hv = canon(node["r"], sc2)
        return [(atoms, hv)]

    def branch(cond, pol, st, ctx):
        atoms, hv = st
        return [(a, hv) for a in refine(atoms, cond, pol, sc2)]

    fl = Flow(F, transfer, branch=branch)
    out, exits = fl.run(f2, (frozenset(), hint))
    if out:
        raise Broken("hinted lookup can fall off its end")
    nfast = 0
    for (atoms, hv), r in exits:
        rv = canon(r["e"], sc2)
        where = loc(f2, r)
        if rv == "this.findSegment($p0)":
            # delegation: null hint, or fallback after refreshing the hint
            null_path = (False, "$p1") in atoms or (True, "(!$p1)") in atoms
            if null_path:
                chk.ob("C03-R3", "%s hinted lookup with a null hint delegates to the plain lookup" % cls, True, where, "", construct=cls + "/hint/null")
            else:
                chk.ob("C03-R3", "%s fallback path stores the plain lookup's result in the hint and returns it" % cls, hv == rv, where, "hint <- %s, returns %s" % (hv, rv), construct=cls + "/hint/fallback")
            continue
        nfast += 1
        # fast path returning R: needs 0 <= R < n, b[R] <= t < b[R+1], hint == R
        need = {cmp_atom(">=", rv, "0", False), cmp_atom("<", rv, n_, False), cmp_atom(">=", "$p0", "%s[%s]" % (b, rv), True),
                cmp_atom("<", "$p0", "%s[%s]" % (b, canon_plus1(rv)), True)}
        need_alt = set(need)
        missing = [a for a in need if a not in atoms and not implied(a, atoms, rv, n_)]
        chk.ob("C03-R2", "%s hinted fast path returning %s is taken only when 0 <= idx < N and b[idx] <= t < b[idx+1]" % (cls, rv), not missing, where,
               "path condition %s; missing %s" % (fmt([atoms]), fmt([frozenset(missing)]) if missing else "-"), construct="%s/hint/fast/%s" % (cls, rv))
        chk.ob("C03-R3", "%s hinted fast path returning %s leaves the hint equal to it" % (cls, rv), hv == rv, where, "hint holds %s" % hv, construct="%s/hint/post/%s" % (cls, rv))
    chk.ob("C03-R2", "%s hinted lookup has its two fast paths" % cls, nfast >= 1, loc(f2), "%d fast paths" % nfast, construct=cls + "/hint/fastpaths")


def canon_plus1(rv):
    if rv.startswith("(") and rv.endswith(" + 1)"):
        return rv[:-3] + " 2)"
    return "(" + rv + " + 1)"


def implied(atom, atoms, rv, n_):
    """0 <= idx+1 follows from 0 <= idx"""
    pol, txt = atom
    if rv.endswith(" + 1)"):
        base = rv[1:-5]
        if atom == cmp_atom(">=", rv, "0", False):
            return cmp_atom(">=", base, "0", False) in atoms
    return False


def check_linear(chk, F, cls, f1, lp, sc, n_, b):
    """for (v = lo; v < / <= hi; ++v) if (t < b[v + c]) return v + d;   Scanning breakpoint j = v + c in ascending order,
    the loop returns j - 1 for the first j in 1..N with t < b[j] (strict): needs lo + c = 1, last + c = N, d = c - 1."""
    import sympy as sp
    init, cond, inc = lp.get("init"), lp.get("cond"), lp.get("inc")
    ok = bool(init) and init.get("k") == "decl" and lit_value(init.get("init")) is not None and inc is not None and inc.get("k") == "un" and inc["op"] == "++"
    det = ""
    okb = False
    if ok:
        sc.bind_opaque(init["id"], "%i")
        p, t = preds.literal(cond, sc)
        body = lp["body"]
        st = body["body"] if body.get("k") == "block" else [body]
        V, N = sp.Symbol("V", integer=True), sp.Symbol("N", integer=True, positive=True)

        def lin(txt):
            try:
                return sp.expand(sp.sympify(txt.replace(n_, "N").replace("%i", "V"), locals={"N": N, "V": V}))
            except Exception:
                return None
        lo = sp.Integer(int(lit_value(init["init"])))
        last = None
        if p and t.startswith("%i < "):
            hi = lin(t[len("%i < "):])
            last = hi - 1 if hi is not None else None
        elif p and t.startswith("%i <= "):
            last = lin(t[len("%i <= "):])
        elif (not p) and t.endswith(" < %i"):
            last = lin(t[:-len(" < %i")])          # not (X < i), i.e. i <= X
        if last is not None and len(st) == 1 and st[0].get("k") == "if" and not st[0].get("else"):
            dn = set(refine(frozenset(), st[0]["cond"], True, sc))
            th = st[0]["then"]
            rs = th["body"] if th.get("k") == "block" else [th]
            idx = None
            if len(dn) == 1 and len(next(iter(dn))) == 1:
                (pol, txt), = next(iter(dn))
                pre = "$p0 < %s[" % b
                if pol and txt.startswith(pre) and txt.endswith("]"):
                    idx = lin(txt[len(pre):-1])
            rv = lin(canon(rs[0]["e"], sc)) if len(rs) == 1 and rs[0].get("k") == "return" else None
            if idx is not None and rv is not None:
                c_, d_ = sp.expand(idx - V), sp.expand(rv - V)
                okb = bool(c_.is_Integer and d_.is_Integer and lo + c_ == 1 and sp.expand(last + c_ - N) == 0 and d_ == c_ - 1)
            det = "scan condition %s returns %s; index from %s to %s" % (fmt(dn), canon(rs[0]["e"], sc) if rs and rs[0].get("k") == "return" else "?", lo, last)
    chk.ob("C03-R2", "%s linear route: first i in 0..N-1 with t < b[i+1] (strict), returning i" % cls, bool(okb), loc(f1, lp), det, construct=cls + "/lookup/linear")


def check_find_if(chk, F, cls, f1, c, sc, n_, b, rest):
    """the linear route written as  hit = find_if(b.begin()+1, b.begin()+1+N, [t](double e){ return t < e; });
    if (hit == last) return N-1; return hit - first;   - first i in 0..N-1 with t < b[i+1] (strict), else N-1"""
    a = c.get("args", [])
    ok = len(a) == 3
    det = ""
    if ok:
        first, last = canon(a[0], sc), canon(a[1], sc)
        want_first = "(%s.begin() + 1)" % b      # iterator arithmetic keeps its operand order in the canonical text
        np1 = (preds.cbin("+", n_, "1"), "(%s + 1)" % n_, "(1 + %s)" % n_)
        ok_rng = first == want_first and last in ("(%s + %s)" % (want_first, n_),) + tuple("(%s.begin() + %s)" % (b, x_) for x_ in np1)
        lam = strip_copy(a[2])
        ok_pred = False
        if lam.get("k") == "lambda" and len(lam.get("specs", [])) == 1 and len(lam["specs"][0].get("params", [])) == 1:
            sp_ = lam["specs"][0]
            sc.bind_opaque(sp_["params"][0]["id"], "%e")
            rr = [x for x in walk(sp_["body"]) if x.get("k") == "return"]
            if len(rr) == 1:
                dn = set(refine(frozenset(), rr[0]["e"], True, sc))
                ok_pred = dn == {frozenset({cmp_atom("<", "$p0", "%e", True)})}
        # the statement holding the call names the result; the returns that follow translate it into an index
        hit = None
        for st in rest:
            for x in walk(st):
                if x.get("k") == "decl" and x.get("init") is not None and any(y is c for y in walk(x["init"])):
                    hit = "%" + x["name"]
        rets = []
        for st in rest:
            if st.get("k") == "return":
                rets.append((None, canon(st["e"], sc)))
            elif st.get("k") == "if" and not st.get("else"):
                th = st["then"]
                rs = th["body"] if th.get("k") == "block" else [th]
                if len(rs) == 1 and rs[0].get("k") == "return":
                    rets.append((canon(st["cond"], sc), canon(rs[0]["e"], sc)))
        ok_ret = hit is not None and any(g in ("(%s == %s)" % (hit, last), "(%s == %s)" % (last, hit)) and r == preds.cbin("-", n_, "1") for g, r in rets if g) \
            and any(g is None and r == "(%s - %s)" % (hit, first) for g, r in rets)
        ok = ok_rng and ok_pred and ok_ret
        det = "range [%s, %s) ok=%s, predicate ok=%s, returns %s ok=%s (result named %s)" % (first, last, ok_rng, ok_pred, rets, ok_ret, hit)
    chk.ob("C03-R2", "%s linear route: first i in 0..N-1 with t < b[i+1] (strict), returning i" % cls, bool(ok), loc(f1, c), det, construct=cls + "/lookup/linear")


# ------------------------------------------------------------------------------------------------- R4


def check_formulas(chk, F, cls):
    FFn = sp.Function("ff")

    def on_call(c, e, env, I):
        if c.get("name") == "derivativeFactor" and c.get("fid") in F.by_fid:
            return FFn(*[I.ev(a, env) for a in e["args"]])
        if c.get("fid") in F.by_fid and c.get("name", "").startswith("ensure"):
            return None
        return NotImplemented

    def interp(f, oracle=None):
        I = Interp(F, cls, on_call=on_call, branch_oracle=oracle)
        I.case = {"first": False, "last": False}
        I.field_assumptions["num_coeffs_"] = {"positive": True}
        I.field_assumptions["num_segments_"] = {"positive": True}
        env = {p["id"]: I.make_value(p["name"], p["ty"]) for p in f["params"]}
        ret = I.run_body(f, env)
        return I, env, ret

    K = sp.Symbol("num_coeffs_", integer=True, positive=True)
    nseg = sp.Symbol("num_segments_", integer=True, positive=True)
    # Horner
    h = F.func1(cls, "evaluateSegmentHorner")
    chk.saw(h)
    I, env, ret = interp(h)
    seg, t, d = (env[p["id"]] for p in h["params"])
    ok = len(I.loops) == 1
    det = ""
    if ok:
        L = I.loops[0]
        k = L.var
        od = K - d
        # the loop-carried accumulator, whatever it is called
        cars = [(nm, v) for nm, v in L.carried.items() if isinstance(v[1], Vec)]
        car = cars[0][1] if len(cars) == 1 else None
        eff = [e for e in L.effects if car is not None and e.target == "$" + cars[0][0]]
        ok = car is not None and len(eff) == 1
        if ok:
            cont = [a for a in car[1].t][0][0]
            init_ok = car[1].add(Vec.atom((cont, sp.expand(seg * od + od - 1))), -1).is_zero()
            # the table row read in the step, as a function of the loop variable (k itself, or an absolute row index)
            step_atoms = [a for a in eff[0].value.t if a[0] == cont]
            rows_ok = len(step_atoms) == 1 and sym.is_zero(sp.diff(step_atoms[0][1], k) - 1)
            row = step_atoms[0][1] if rows_ok else k
            want = car[0].scale(t).add(Vec.atom((cont, sp.expand(row))))
            rec_ok = rows_ok and eff[0].value.add(want, -1).is_zero()
            shift = sp.expand(row - k)
            rng_ok = (rows_ok and sym.is_zero(sp.expand(L.lo + shift) - sp.expand(seg * od + od - 2)) and L.hi is not None and sym.is_zero(sp.expand(L.hi + shift) - sp.expand(seg * od))
                      and L.cond_op == ">=" and L.step == -1)
            ret_ok = isinstance(ret, Vec) and ret.add(eff[0].value, -1).is_zero()
            idx_ok = cont == "derivative_coeffs_[%s]" % sp.sstr(sp.expand(d)) or cont.endswith("[%s]" % sp.sstr(d))
            ok = init_ok and rec_ok and rng_ok and ret_ok and idx_ok
            det = "init %r; step %r; rows from %s down to %s; rows of %s" % (car[1], eff[0].value, sp.expand(L.lo + shift), sp.expand(L.hi + shift) if L.hi is not None else None, cont)
    chk.ob("C03-R4", "%s Horner: result = c_top; result = result*t + c_k for k = top-1..0 over rows [seg*m, seg*m+m) of the order-d table" % cls, ok, loc(h), det, construct=cls + "/horner/recurrence")
    # lazy builder
    bld = F.func1(cls, "buildDerivativeCoefficients")
    chk.saw(bld)
    I, env, ret = interp(bld, oracle=lambda s, c, I_: False if "num_segments_" in str(c) and "<= 0" in pp(s["cond"]) else None)
    if len(I.loops) != 1:
        raise Broken("derivative-table builder of %s: expected one loop over the derivative order, found %d" % (cls, len(I.loops)))
    ok = True
    det = ""
    if ok:
        L = I.loops[0]
        dv = L.var
        rows = [e for e in L.effects if isinstance(e.value, Vec)]
        copies = [e for e in L.effects if e.op == "=" and isinstance(e.value, tuple) and e.value[0] == "copy"]
        if not (len(rows) == 1 and len(copies) == 1 and L.step == 1 and L.cond_op == "<" and L.lo in (0, 1)):
            raise Broken("derivative-table builder of %s has a shape this rule does not understand" % cls)
        ok = sym.is_zero(L.hi - K)
        if ok and L.lo == 1:
            # the order-0 table stored on its own: ff(k, 0) = 1, so it is the coefficient matrix itself
            d0 = [e for e in I.effects if e.op == "=" and e.target == "derivative_coeffs_[0]"]
            ok = len(d0) == 1 and isinstance(d0[0].value, tuple) and d0[0].value[0] == "copy" and d0[0].value[1] == "coefficients_"
            det = "order-0 table: %s ; " % ([(e.target, e.value) for e in d0],)
        if ok:
            e = rows[0]
            # the two loops nested inside the order loop, in whichever order: the one over [0, N) is the piece index,
            # the one over [0, K - d) the power index
            chain = []
            cur = L
            while cur.inner:
                nxt = [x for x in cur.inner if any(y is e for y in x.effects)]
                if len(nxt) != 1:
                    break
                cur = nxt[0]
                chain.append(cur)
            od = K - dv
            unit = [x for x in chain if x.lo == 0 and x.step == 1 and x.cond_op == "<"]
            segL = [x for x in unit if sym.is_zero(x.hi - nseg)]
            powL = [x for x in unit if sym.is_zero(x.hi - od)]
            ok = len(chain) == 2 and len(segL) == 1 and len(powL) == 1 and segL[0] is not powL[0]
            if ok:
                sv, kk = segL[0].var, powL[0].var
                want_key = sp.expand(sv * od + kk)
                want = Vec.atom(("coefficients_", sp.expand(sv * K + kk + dv))).scale(FFn(kk + dv, dv))
                ok = (sym.is_zero(e.key[0] - want_key) and e.value.add(want, -1).is_zero() and copies[0].target == "derivative_coeffs_[%s]" % sp.sstr(dv) and copies[0].value[1] == e.target)
                det += "row %s = %r ; stored as %s" % (e.key[0], e.value, copies[0].target)
    chk.ob("C03-R4", "%s builder: row k of piece seg in the order-d table = ff(k+d, d) * c_{k+d}, all d, pieces and k" % cls, ok, loc(bld), det, construct=cls + "/builder/rows")
    # derivative(): same rows, same breakpoints
    dr = F.func1(cls, "derivative")
    chk.saw(dr)
    I, env, ret = interp(dr, oracle=lambda s, c, I_: False)
    dsym = env[dr["params"][0]["id"]]
    ok = len(I.loops) == 1
    det = ""
    if ok:
        L = I.loops[0]
        sv = L.var
        inner = L.inner[0] if L.inner else None
        rows = [e for e in L.effects if isinstance(e.value, Vec)]
        ok = inner is not None and len(rows) == 1
        if ok:
            kk = inner.var
            no = K - dsym
            want = Vec.atom(("coefficients_", sp.expand(sv * K + kk + dsym))).scale(FFn(kk + dsym, dsym))
            ok = (sym.is_zero(rows[0].key[0] - sp.expand(sv * no + kk)) and rows[0].value.add(want, -1).is_zero() and L.lo == 0 and sym.is_zero(L.hi - nseg)
                  and inner.lo == 0 and sym.is_zero(inner.hi - no))
            det = "row %s = %r" % (rows[0].key[0], rows[0].value)
    chk.ob("C03-R4", "%s derivative(d): row k of piece seg = ff(k+d, d) * c_{k+d} (the same factor function as evaluation)" % cls, ok, loc(dr), det, construct=cls + "/derivative/rows")
    # its result is constructed on the same breakpoints with the reduced order
    rets = ret_nodes(dr)
    sc = scope_with_locals(dr)
    main = [r for r in rets if strip_copy(r["e"]).get("k") == "ctor" and len(strip_copy(r["e"]).get("args", [])) == 3]
    okc = False
    for r in main:
        a = [canon(x, sc) for x in strip_copy(r["e"])["args"]]
        if a[2] == "(this.num_coeffs_ - $p0)":
            okc = a[0] == "this.breakpoints_" and a[1].startswith("%new_coeffs") or a[0] == "this.breakpoints_"
    chk.ob("C03-R4", "%s derivative(d) is built on the same breakpoints with coefficient count K-d" % cls, okc, loc(dr), str([[canon(x, sc) for x in strip_copy(r["e"])["args"]] for r in main]),
           construct=cls + "/derivative/ctor")
    # dynamic factor table recurrence
    tb = F.func1(cls, "buildDynamicDerivativeFactorTable")
    chk.saw(tb)
    I, env, ret = interp(tb, oracle=lambda s, c, I_: False)
    st = [e for e in I.effects if e.target == "derivative_factor_table_"]
    ops0 = [e.op for e in st][:2]
    # sized K x K and zeroed before the recurrence fills the lower triangle (resize + setZero, or the sizing setZero)
    ok0 = ops0 == ["resize", "setZero"] or (ops0[:1] == ["setZero"] and st[0].value is not None and len(st[0].value) == 2) or (ops0 == ["setZero", "resize"])
    if ok0:
        rs = [e for e in st if e.op in ("resize", "setZero") and e.value and len(e.value) == 2]
        ok0 = bool(rs) and sym.is_zero(rs[0].value[0] - K) and sym.is_zero(rs[0].value[1] - K)
    ok = len(I.loops) == 1 and ok0
    det = ""
    if ok:
        L = I.loops[0]
        nv = L.var
        inner = L.inner[0] if L.inner else None
        cars = [(nm, v) for nm, v in (inner.carried.items() if inner is not None else []) if isinstance(v[1], sp.Basic)]
        ok = inner is not None and len(cars) == 1
        if ok:
            kv = inner.var
            acc, init = cars[0][1]
            e0 = [e for e in L.effects if e.target == "derivative_factor_table_" and len(e.key) == 2 and e.key[1] == 0]
            ek = [e for e in inner.effects if e.target == "derivative_factor_table_"]
            ok = (init == 1 and len(e0) == 1 and e0[0].value == 1 and sym.is_zero(e0[0].key[0] - nv) and len(ek) == 1 and sym.is_zero(ek[0].key[0] - nv) and sym.is_zero(ek[0].key[1] - kv)
                  and sym.is_zero(ek[0].value - acc * (nv - kv + 1)) and inner.lo == 1 and sym.is_zero(inner.hi - nv) and inner.cond_op == "<=" and L.lo == 0 and sym.is_zero(L.hi - K))
            det = "f(n,0)=1; f(n,k)=f(n,k-1)*(%s) for k=1..n; zero above the diagonal (zeroed first)" % sp.sstr(sp.expand(nv - kv + 1))
    chk.ob("C03-R5", "%s dynamic factor table: f(n,0)=1, f(n,k)=f(n,k-1)(n-k+1), 0 for k>n, n < coefficient count" % cls, ok, loc(tb), det, construct=cls + "/dynamic-table")


def check_factor_dispatch(chk, F, cls, order):
    f = F.func1(cls, "derivativeFactor")
    chk.saw(f)
    sc = scope_with_locals(f)

    def transfer(node, st, ctx):
        if node.get("k") == "call" and callee(node).get("name", "").startswith("ensure"):
            return [(st[0], True)]
        return [st]

    def branch(cond, pol, st, ctx):
        return [(a, st[1]) for a in refine(st[0], cond, pol, sc)]

    fl = Flow(F, transfer, branch=branch)
    out, exits = fl.run(f, (frozenset(), False))
    ok_all = True
    for (atoms, ensured), r in exits:
        e = strip_copy(r["e"])
        where = loc(f, r)
        k_ok = (False, "$p1 < 0") in atoms and (False, "$p0 < $p1") in atoms
        if lit_value(e) is not None:
            okz = not k_ok  # returns 0 only outside 0 <= k <= n
            chk.ob("C03-R5", "%s factor is 0 exactly for k < 0 or k > n" % cls, okz and float(lit_value(e)) == 0.0, where, fmt([atoms]), construct=cls + "/factor/zero")
            continue
        txt = canon(e, sc)
        if "kStaticDerivativeFactorTable_" in txt or e.get("k") == "subscript" or "[$p0][$p1]" in txt.replace(" ", ""):
            # static table indexed [n][k]: needs n < 8 on this path (or a fixed order <= 8)
            n_small = (True, "$p0 < 8") in atoms
            fixed_small = order != -1 and order <= 8
            idx_ok = txt.replace(" ", "").endswith("[$p0][$p1]")
            chk.ob("C03-R5", "%s static table read at [n][k] only where 0 <= k <= n < 8" % cls, k_ok and idx_ok and (n_small or fixed_small), where, "%s under %s" % (txt, fmt([atoms])),
                   construct=cls + "/factor/static")
        else:
            idx_ok = txt.replace(" ", "") == "this.derivative_factor_table_[$p0,$p1]"
            chk.ob("C03-R5", "%s dynamic table read at (n,k) after ensuring it is built" % cls, k_ok and idx_ok and ensured, where, "%s ensured=%s" % (txt, ensured), construct=cls + "/factor/dynamic")


def check_static_table(chk):
    """Compile-time witness: every entry of the constexpr table equals n!/(n-k)! (0 above the diagonal)."""
    lines = ['#include "SplineTrajectory.hpp"', "using P = SplineTrajectory::PPolyND<3, 6>;", "constexpr double fact(int n) { return n <= 1 ? 1.0 : n * fact(n - 1); }",
             "static_assert(P::kStaticFactorMaxOrder == 8, \"static table order\");"]
    n_w = 1
    for n in range(8):
        for k in range(8):
            if k <= n:
                lines.append("static_assert(P::kStaticDerivativeFactorTable_[%d][%d] == fact(%d) / fact(%d), \"ff(%d,%d)\");" % (n, k, n, n - k, n, k))
            else:
                lines.append("static_assert(P::kStaticDerivativeFactorTable_[%d][%d] == 0.0, \"ff(%d,%d) above the diagonal\");" % (n, k, n, k))
            n_w += 1
    for nm, v in (("Pos", 0), ("Vel", 1), ("Acc", 2), ("Jerk", 3), ("Snap", 4), ("Crackle", 5), ("Pop", 6)):
        lines.append("static_assert(static_cast<int>(SplineTrajectory::Deriv::%s) == %d, \"Deriv::%s\");" % (nm, v, nm))
        n_w += 1
    d = tempfile.mkdtemp(prefix="stxwit-")
    try:
        src = os.path.join(d, "w.cpp")
        open(src, "w").write("\n".join(lines) + "\n")
        r = subprocess.run(["clang++", "-std=gnu++17", "-fsyntax-only", "-fno-access-control", "-ferror-limit=0", "-Wno-everything", "-I" + os.path.join(chk.root, "include"),
                            "-isystem", "/usr/include/eigen3", src], capture_output=True, text=True)
        errs = [l for l in r.stderr.splitlines() if "error:" in l]
        hard = [l for l in errs if "static_assert" not in l and "static assertion" not in l]
        if hard:
            raise Broken("witness TU does not compile: " + hard[0][:300])
        chk.ob("C03-R5", "static falling-factorial table and Deriv enumerators (%d compile-time witnesses)" % n_w, not errs, "SplineTrajectory.hpp:107 (makeStaticDerivativeFactorTable)",
               "; ".join(e.split("error:")[1].strip()[:80] for e in errs[:5]) if errs else "all static_asserts hold", construct="PPolyND/static-table")
    finally:
        import shutil
        shutil.rmtree(d, ignore_errors=True)
