"""C06 - analytic energy gradients equal the true derivatives of the reported energy (DESIGN s6 C06).

R1 dE/dC rows = d(C04 form)/dc_k (rows k < s zero);      R2 dE/dT partial = |p^(s)(T)|^2;
R3 total dE/dT_i = H on segment i's published rows;       R4 dE/dP_inner = 2(-1)^s jump of p^(2s-1);
R5 dE/d(boundary state) = -/+ 2(-1)^(s-1-m) p^(2s-1-m) at the first / last knot;
R6 getEnergyGrad fills all four parts from R3-R5 in both overloads.
"""
import sympy as sp
from sympy import Integer

from ..facts import Broken, pp, loc, walk
from ..effects import callee
from .. import sym, spec
from ..sym import Interp, Unsupported, Vec, Struct, Container
from ..model import spline_model
from .common import facts_for, alg_classes, SPLINES, strip_copy, is_this_mem

STATE_FIELDS = ["p", "v", "a", "j"]


def vec_eq(a, b):
    d = a.add(b, -1)
    return d.is_zero(), d


def expand_vec(M, v):
    return Vec({a: M.expand_scalar(c) for a, c in v.t.items()})


def bind_params(I, f):
    env = {}
    for p in f["params"]:
        env[p["id"]] = I.make_value(p["name"], p["ty"])
    return env


def sub_vec_index(v, rep):
    """substitute the loop variable inside atom indices and coefficients of a Vec"""
    out = Vec()
    for a, c in v.t.items():
        a2 = (a[0],) + tuple(sp.expand(sp.sympify(x).xreplace(rep)) if not isinstance(x, str) else x for x in a[1:])
        out = out.add(Vec({a2: sp.sympify(c).xreplace(rep)}))
    return out


def upper_excl(L):
    """exclusive upper bound of an ascending unit-stride loop, whatever the comparison it is written with"""
    if L.step != 1 or L.hi is None:
        return None
    return L.hi if L.cond_op == "<" else (L.hi + 1 if L.cond_op == "<=" else None)


def reindex(L, key, rho):
    """The loop seen from the slot it writes: with key = loop variable + c, returns (substitution var -> rho - c,
    first slot, one past the last slot); None when the key is not the loop variable plus a constant."""
    i = L.var
    c = sp.expand(sp.sympify(key) - i)
    ue = upper_excl(L)
    if i in c.free_symbols or ue is None:
        return None
    return {i: rho - c}, sp.expand(L.lo + c), sp.expand(ue + c)


def run(chk):
    F = facts_for(chk)
    for short in SPLINES:
        for cls in alg_classes(F, short, ("update", "getEnergyGrad")):
            M = spline_model(F, cls)
            s, K = M.s, M.K
            if not spec.self_check(s):
                raise Broken("spec self-check failed for s=%d" % s)
            n = sp.Symbol(M.m_count, integer=True)

            # ---- R1 ---------------------------------------------------------------
            f = [g for g in F.funcs(cls, "getEnergyPartialGradByCoeffs") if len(g["params"]) == 1][0]
            chk.saw(f)
            # the out-parameter's incoming size and content are the caller's history: every configuration a guard on them
            # can distinguish is followed (paths.explore), and on each of them the buffer must be sized K*N and zeroed
            from .. import paths as _paths

            def run_r1(oracle):
                I_ = Interp(F, cls)
                I_.opaque_conditions = True
                I_.path_oracle = oracle
                env_ = bind_params(I_, f)
                try:
                    I_.run_body(f, env_)
                except Unsupported as ex:
                    raise Broken("dE/dC routine not analysable: %s" % ex)
                return I_, env_
            r1_paths = _paths.explore(run_r1)
            ok_pre, det_pre = True, ""
            for a_, (I_, env_) in r1_paths:
                out_ = env_[f["params"][0]["id"]]
                pre = [e for e in I_.effects if e.target == out_.name]
                # sized K*N, and then either zeroed as a whole before the loop or every one of the K rows of every segment
                # assigned (not accumulated) inside the loop - either way nothing of what the buffer held before survives
                sized = bool(pre) and pre[0].op == "resize" and sym.is_zero(pre[0].value[0] - K * n)
                zeroed = [e.op for e in pre][:2] == ["resize", "setZero"]
                assigned = False
                if len(I_.loops) == 1:
                    L_ = I_.loops[0]
                    keys_ = {sp.expand(e.key[0] - K * L_.var): e for e in L_.effects if e.target == out_.name and len(e.key) == 1}
                    assigned = all(Integer(k_) in keys_ and keys_[Integer(k_)].op == "=" for k_ in range(K)) and L_.lo == 0 and upper_excl(L_) is not None and sym.is_zero(upper_excl(L_) - n)
                okp = sized and (zeroed or assigned)
                if not okp:
                    ok_pre = False
                    det_pre = "when %s: effects before the loop: %s" % ({str(k_): v_ for k_, v_ in a_.items()} or "always", [(e.op, e.value) for e in pre])
            I, env = r1_paths[0][1]
            out = env[f["params"][0]["id"]]
            chk.ob("C06-R1", "%s dE/dC is resized to K*N rows and zeroed (as a whole, or row by row) before any row is used, whatever the buffer held before" % cls, ok_pre, loc(f), det_pre or "%d configurations" % len(r1_paths), construct="%s/dEdC/init" % cls)
            if len(I.loops) != 1:
                raise Broken("dE/dC: expected one loop")
            L = I.loops[0]
            i = L.var
            chk.ob("C06-R1", "%s dE/dC loop covers every segment" % cls, L.lo == 0 and upper_excl(L) is not None and sym.is_zero(upper_excl(L) - n), loc(f, {"line": L.line}),
                   "range %s..%s" % (L.lo, L.hi), construct="%s/dEdC/range" % cls)
            cs = spec.coeff_atoms(M.m_coeffs, K * i, K)
            T = M.dur(i)
            written = {}
            for e in L.effects:
                if e.target != out.name:
                    raise Broken("dE/dC loop writes %s" % e.target)
                written[sp.expand(e.key[0])] = e
            for k in range(K):
                ref = spec.energy_grad_coeff(cs, s, T, k)
                key = sp.expand(K * i + k)
                if key in written:
                    e = written[key]
                    got = expand_vec(M, e.value)
                    ok, d = vec_eq(got, ref)
                    ok = ok and e.op == "="
                    chk.ob("C06-R1", "%s dE/dc_%d" % (cls, k), ok, loc(f, {"line": e.line}), "code row - d/dc_%d of the energy form = %r" % (k, d.clean()),
                           construct="%s/dEdC/row%d" % (cls, k))
                else:
                    chk.ob("C06-R1", "%s dE/dc_%d (left zero)" % (cls, k), ref.is_zero(), loc(f), "row not written by the loop; reference derivative %r" % ref,
                           construct="%s/dEdC/row%d" % (cls, k))
            extra = [k2 for k2 in written if not any(sym.is_zero(k2 - (K * i + k)) for k in range(K))]
            chk.ob("C06-R1", "%s dE/dC writes only rows of segment i" % cls, not extra, loc(f), "unexpected row indices %s" % extra, construct="%s/dEdC/rows" % cls)

            # ---- R2 ---------------------------------------------------------------
            f = [g for g in F.funcs(cls, "getEnergyPartialGradByTimes") if len(g["params"]) == 1][0]
            chk.saw(f)
            I = Interp(F, cls)
            env = bind_params(I, f)
            I.run_body(f, env)
            out = env[f["params"][0]["id"]]
            L = I.loops[0]
            i = L.var
            cs = spec.coeff_atoms(M.m_coeffs, K * i, K)
            T = M.dur(i)
            pe = spec.deriv_at(cs, s, T)
            ref = sp.expand(sym.vdot(pe, pe))
            effs = [e for e in L.effects if e.target == out.name]
            ri = reindex(L, effs[0].key[0], i) if len(effs) == 1 else None
            ok = ri is not None and effs[0].op == "=" and sp.expand(M.expand_scalar(sp.sympify(effs[0].value).xreplace(ri[0])) - ref) == 0
            chk.ob("C06-R2", "%s partial dE/dT_i = |p^(%d)(T_i)|^2" % (cls, s), ok, loc(f, {"line": L.line}),
                   "code: %s" % (sp.sstr(M.expand_scalar(effs[0].value))[:200] if effs else "no write"), construct="%s/dEdT-partial" % cls)
            pre = [e for e in I.effects if e.target == out.name]
            chk.ob("C06-R2", "%s partial dE/dT sized N, loop over all segments" % cls,
                   bool(pre) and pre[0].op == "resize" and sym.is_zero(pre[0].value[0] - n) and ri is not None and sym.is_zero(ri[1]) and sym.is_zero(ri[2] - n), loc(f),
                   "resize(%s), slots %s..%s" % (pre[0].value if pre else None, ri[1] if ri else None, ri[2] if ri else None), construct="%s/dEdT-partial/range" % cls)

            # ---- R3 ---------------------------------------------------------------
            f = F.func1(cls, "getEnergyGradTimes")
            chk.saw(f)
            I = Interp(F, cls)
            ret = I.run_body(f, {})
            L = I.loops[0]
            i = L.var
            cs = spec.coeff_atoms(M.m_coeffs, K * i, K)
            ref = spec.hamiltonian(cs, s, 0)
            effs = [e for e in L.effects if not e.target.startswith("$")]
            ri = reindex(L, effs[0].key[0], i) if len(effs) == 1 else None
            val3 = sp.sympify(effs[0].value).xreplace(ri[0]) if ri is not None else None
            ok = ri is not None and effs[0].op == "=" and sp.expand(M.expand_scalar(val3) - ref) == 0
            got_d, _ = sym.collect_dots(sp.expand(M.expand_scalar(val3))) if ri is not None else ({}, 0)
            want_d, _ = sym.collect_dots(ref)
            for key in sorted(set(got_d) | set(want_d), key=str):
                g, w = got_d.get(key, 0), want_d.get(key, 0)
                chk.ob("C06-R3", "%s dE/dT_i term <%s|%s>" % (cls, sym.atom_str(key[0]), sym.atom_str(key[1])), sym.is_zero(g - w), loc(f, {"line": L.line}),
                       "code %s ; H = -|p^(s)|^2 + 2 sum (-1)^(k+1) p^(s-k).p^(s+k) gives %s" % (sp.sstr(g), sp.sstr(w)), construct="%s/dEdT/<%s|%s>" % (cls, key[0], key[1]))
            chk.ob("C06-R3", "%s total dE/dT_i (whole form, written to slot i, all segments)" % cls,
                   ok and sym.is_zero(ri[1]) and sym.is_zero(ri[2] - n) and isinstance(ret, Container) and ret.name == effs[0].target, loc(f), "slots %s..%s" % ((ri[1], ri[2]) if ri else (None, None)), construct="%s/dEdT/whole" % cls)

            # ---- R4 ---------------------------------------------------------------
            f = F.func1(cls, "getEnergyGradInnerPoints")
            chk.saw(f)
            I = Interp(F, cls)
            ret = I.run_body(f, {})
            L = I.loops[0]
            i = L.var
            csL = spec.coeff_atoms(M.m_coeffs, K * (i - 1), K)
            csR = spec.coeff_atoms(M.m_coeffs, K * i, K)
            ref = spec.inner_point_grad(csL, csR, s, M.dur(i - 1))
            effs = [e for e in L.effects if not e.target.startswith("$")]
            # seen from the output: row r holds the gradient of interior knot r + 1 (i below is the knot index)
            ri = reindex(L, effs[0].key[0] + 1, i) if len(effs) == 1 else None
            ok = ri is not None and effs[0].op == "="
            okv, d = vec_eq(expand_vec(M, effs[0].value.subs_index(ri[0]) if hasattr(effs[0].value, "subs_index") else sub_vec_index(effs[0].value, ri[0])), ref) if ok else (False, None)
            chk.ob("C06-R4", "%s dE/dP at interior knot i goes to row i-1 and equals 2(-1)^s * jump of p^(%d)" % (cls, 2 * s - 1), ok and okv, loc(f, {"line": L.line}),
                   "code - reference = %r" % (d.clean() if d is not None else None), construct="%s/dEdP" % cls)
            chk.ob("C06-R4", "%s dE/dP covers knots 1..N-1" % cls, ri is not None and sym.is_zero(ri[1] - 1) and sym.is_zero(ri[2] - n), loc(f, {"line": L.line}),
                   "knots %s..%s" % ((ri[1], ri[2]) if ri else (None, None)), construct="%s/dEdP/range" % cls)
            sized = isinstance(ret, Container) and ret.size is not None and (sym.is_zero(sp.Max(0, n - 1) - ret.size) or sym.is_zero(n - 1 - ret.size))   # N >= 1 past the early return
            chk.ob("C06-R4", "%s dE/dP has N-1 rows" % cls, bool(sized), loc(f), "rows = %s" % (ret.size if isinstance(ret, Container) else ret), construct="%s/dEdP/size" % cls)

            # ---- R5 ---------------------------------------------------------------
            f = F.func1(cls, "getEnergyGradBoundary")
            chk.saw(f)
            I = Interp(F, cls)
            ret = I.run_body(f, {})
            if not isinstance(ret, Struct):
                raise Broken("getEnergyGradBoundary does not return a struct")
            cs0 = spec.coeff_atoms(M.m_coeffs, Integer(0), K)
            last = n - 1
            csl = spec.coeff_atoms(M.m_coeffs, K * last, K)
            Tl = M.dur(last)
            for side, cs, tt, end in (("start", cs0, 0, False), ("end", csl, Tl, True)):
                st = ret.f.get(side)
                if not isinstance(st, Struct):
                    raise Broken("boundary gradient struct lacks '%s'" % side)
                for m in range(s):
                    fld = STATE_FIELDS[m]
                    got = st.f.get(fld)
                    ref = spec.boundary_grad(cs, s, m, tt, end)
                    if not isinstance(got, Vec):
                        chk.ob("C06-R5", "%s dE/d(%s.%s)" % (cls, side, fld), False, loc(f), "field missing", construct="%s/dEdB/%s.%s" % (cls, side, fld))
                        continue
                    okv, d = vec_eq(expand_vec(M, got), ref)
                    chk.ob("C06-R5", "%s dE/d(%s.%s)" % (cls, side, fld), okv, loc(f),
                           "code - (%s2(-1)^(s-1-m) p^(%d) at the %s knot) = %r" % ("+" if end else "-", 2 * s - 1 - m, "last" if end else "first", d.clean()),
                           construct="%s/dEdB/%s.%s" % (cls, side, fld))

            # ---- R6 ---------------------------------------------------------------
            check_r6(chk, F, cls)
    # ---- R7 the propagation sentence -------------------------------------------------------------------------------
    # "propagating those partials reproduces the analytic gradients": with R1/R2 (the partials are the partial
    # derivatives of the energy) this holds iff the propagation is the exact adjoint of the construction map - the
    # obligations of C05 for the same class, re-derived here on the current tree modulo the coefficient rows c_0..c_{s-1},
    # which the energy partials never populate (R1).
    from .. import core
    from . import c05
    for short in SPLINES:
        for cls in alg_classes(F, short, ("update", "propagateGrad")):
            sub = core.Check("C05", chk.tier, chk.root)
            M7 = spline_model(F, cls)
            c05.check_class(sub, F, M7, short, zero_rows=tuple(range(M7.s)))
            rel = [o for o in sub.obs if o["rule"] in ("C05-R1", "C05-R2", "C05-R3", "C05-R4", "C05-R5")]
            bad = [o for o in rel if not o["ok"]]
            chk.ob("C06-R7", "%s: propagating the energy partials reproduces the analytic gradients (propagation is the exact adjoint)" % cls, len(rel) >= 20 and not bad,
                   bad[0]["where"] if bad else "", "%d adjoint obligations (C05-R1..R5); first failing: %s" % (len(rel), bad[0]["instance"] if bad else "-"), construct=cls + "/propagation-corollary")
    chk.floor("C06-R7", 4)
    chk.floor("C06-R1", 3 * 3 + 4 + 6 + 8)
    chk.floor("C06-R5", 2 * (2 + 3 + 4))
    chk.floor("C06-R3", 2 + 3 + 4)
    chk.not_decided = ["rounding; totals assume the spline is the minimiser (C02); R7 decides the propagation sentence through the adjoint obligations, not by comparing the two gradient vectors numerically"]
    chk.trusted.append("first-variation / conserved-quantity formulas validated against the dense symbolic single-segment minimiser (spec.self_check)")


def check_r6(chk, F, cls):
    """getEnergyGrad (both overloads) delivers exactly what the four getters of R3-R5 compute: decided by comparing the
    interpreted *content* (boundary vectors, the loops that fill the two arrays, their sizes), so it does not matter
    whether the wrapper calls the getters, a shared helper with out-parameters, or inlines them."""
    gs = F.funcs(cls, "getEnergyGrad")
    ref_over = [g for g in gs if len(g["params"]) == 1]
    val_over = [g for g in gs if len(g["params"]) == 0]
    if len(ref_over) != 1 or len(val_over) != 1:
        raise Broken("getEnergyGrad overloads not found")

    def run(f, with_params=True):
        I = Interp(F, cls)
        I.field_assumptions["num_segments_"] = {"positive": True}
        I.case = {"first": False, "last": False}
        env = {p["id"]: I.make_value(p["name"], p["ty"]) for p in f["params"]}
        try:
            ret = I.run_body(f, env)
        except Unsupported as ex:
            raise Broken("%s not analysable: %s" % (f["name"], ex))
        return I, env, ret

    def leaves(st, pre=""):
        out = {}
        for k, v in st.f.items():
            if isinstance(v, Struct):
                out.update(leaves(v, pre + k + "."))
            else:
                out[pre + k] = v
        return out

    def loop_sig(L):
        v = sp.Symbol("q_", integer=True)
        sig = []
        for e in L.effects:
            val = sub_vec_index(e.value, {L.var: v}) if isinstance(e.value, Vec) else (sp.sympify(e.value).xreplace({L.var: v}) if isinstance(e.value, sp.Basic) else e.value)
            key = tuple(sp.expand(sp.sympify(k).xreplace({L.var: v})) if not isinstance(k, str) else k for k in e.key)
            sig.append((key, e.op, repr(val.clean()) if isinstance(val, Vec) else sp.sstr(sp.expand(val)) if isinstance(val, sp.Basic) else str(val)))
        return (sp.sstr(L.lo), L.cond_op, sp.sstr(L.hi), L.step, tuple(sig))

    g = ref_over[0]
    chk.saw(g)
    Ig, envg, _ = run(g)
    got = leaves(envg[g["params"][0]["id"]])
    wrapper_loops = {loop_sig(L) for L in Ig.loops}
    # boundary parts
    gb = F.func1(cls, "getEnergyGradBoundary")
    Ib, _, retb = run(gb)
    if not isinstance(retb, Struct):
        raise Broken("getEnergyGradBoundary does not return a struct")
    wantb = leaves(retb)
    for side in ("start", "end"):
        keys = [k for k in wantb if k.startswith(side + ".")]
        bad = [k for k in keys if not (isinstance(got.get(k), Vec) and isinstance(wantb[k], Vec) and got[k].add(wantb[k], -1).is_zero())]
        chk.ob("C06-R6", "%s getEnergyGrad.%s <- getEnergyGradBoundary.%s" % (cls, side, side), bool(keys) and not bad, loc(g), "differing fields: %s" % bad if bad else "%d fields equal" % len(keys),
               construct="%s/getEnergyGrad/%s" % (cls, side))
    # the two arrays: the wrapper contains the very loop the getter runs, and its field has the getter's size
    for part, getter in (("inner_points", "getEnergyGradInnerPoints"), ("times", "getEnergyGradTimes")):
        gf = F.func1(cls, getter)
        Ip, _, retp = run(gf)
        sigs = [loop_sig(L) for L in Ip.loops]
        cont = got.get(part)
        ok = (isinstance(cont, Container) and isinstance(retp, Container) and bool(sigs) and all(sg in wrapper_loops for sg in sigs) and cont.kind == retp.kind
              and (cont.size is None and retp.size is None or (cont.size is not None and retp.size is not None and sym.is_zero(sp.sympify(cont.size) - sp.sympify(retp.size)))))
        chk.ob("C06-R6", "%s getEnergyGrad.%s <- %s" % (cls, part, getter), ok, loc(g), "array of size %s filled by %d loop(s) of the getter" % (getattr(cont, "size", None), len(sigs)),
               construct="%s/getEnergyGrad/%s" % (cls, part))
    v = val_over[0]
    chk.saw(v)
    Iv, _, retv = run(v)
    okv = isinstance(retv, Struct)
    if okv:
        lv = leaves(retv)
        for k, x in got.items():
            y = lv.get(k)
            if isinstance(x, Vec):
                okv = okv and isinstance(y, Vec) and x.add(y, -1).is_zero()
            elif isinstance(x, Container):
                okv = okv and isinstance(y, Container) and x.kind == y.kind and (x.size is None or y.size is None or sym.is_zero(sp.sympify(x.size) - sp.sympify(y.size)))
        okv = okv and {loop_sig(L) for L in Iv.loops} == wrapper_loops
    chk.ob("C06-R6", "%s value overload returns what the reference overload fills" % cls, bool(okv), loc(v), "", construct="%s/getEnergyGrad/value-overload" % cls)
