"""C10 - results depend only on the latest inputs, not on object or workspace history (DESIGN s6 C10).

R1 definedness: in every spline operation, each region of a persistent buffer that is read has been defined earlier in
   the same update (or, for queries, by the latest update / earlier in the same query); decided on the index skeleton of
   the algebraic summaries for n = 1, 2 and several n >= 3 (regions.py);
R2 dead write-sets: the spline classes have no mutable member and no const_cast, so const queries cannot write; the
   scratch members written by the non-const query are (by R1) never read before being redefined;
R3 optimizer workspace: Workspace::resize resizes every sized buffer; evaluate sizes the workspace first; every workspace
   buffer that an evaluation reads has been wholly defined earlier in that evaluation on every path (wsdef.py).
"""
import copy

import sympy as sp

from ..facts import Broken, pp, loc, walk
from ..effects import Effects, callee
from .. import regions, sym
from ..wsdef import WsDef
from ..regions import Replay, State, trace_operation
from ..model import spline_model
from .common import facts_for, alg_classes, full_classes, SPLINES, optimizer_classes, is_this_mem, is_mem_of_var

QUERIES = ["getEnergy", "getEnergyPartialGradByCoeffs", "getEnergyPartialGradByTimes", "getEnergyGradTimes", "getEnergyGradInnerPoints",
           "getEnergyGradBoundary", "propagateGradInternal"]


def sizes_for(M, n):
    return {M.m_count: n, M.m_points + ".rows": n + 1, M.m_durations + ".size": n, "spatial_points.rows": n + 1, "time_segments.size": n, "t_points.size": n + 1,
            "partialGradByCoeffs.rows": n * M.K, "partialGradByTimes.rows": n, "partialGradByTimes.size": n}


def history_returns(runs, fieldnames):
    """[(guard text, members)]: content of class members that an operation (re)computes only past an early return taken on
    the size a member buffer was left with by earlier calls - whenever the sizes happen to agree the members keep what an
    earlier problem left in them.  (Skipping a mere resize is a grow-only buffer and is fine.)"""
    from .. import history
    out = []
    for kind, I in runs.items():
        for e in I.effects:
            if e.op != "guard-return" or getattr(e, "cond", None) is None or not history.is_history_guard(e.cond, I):
                continue
            txt = e.guards[0][0]
            content = lambda effs: [x for x in effs if (txt, False) in (x.guards or []) and x.op not in ("resize", "clear", "reserve", "guard-return") and x.target in fieldnames]
            effs = content(I.effects)
            stack = list(I.loops)
            while stack:
                L = stack.pop()
                effs += content(L.effects)
                stack += L.inner
            if effs:
                out.append((txt, sorted({x.target for x in effs})))
    return out


def skip_handover(c, e, env, I):
    if c.get("name") == "update" and "PPolyND" in str(c.get("cls", "")):
        return None
    return NotImplemented


def check_affine_tree(items, vars_=()):
    bad = []
    for it in items:
        if it.get("type") == "loop":
            for b in (it["lo"], it["hi"]):
                if b is not None and not _affine(b):
                    bad.append(("loop bound", str(b), it["line"]))
            bad += check_affine_tree(it["items"])
        elif it.get("key"):
            for k in it["key"]:
                if not isinstance(k, str) and not _affine(k):
                    bad.append((it["cont"], str(k), it.get("line")))
    return bad


def _affine(e):
    e = sp.expand(sp.sympify(e))
    if e.is_number:
        return True
    syms = [s_ for s_ in e.free_symbols]
    if e.has(sp.Max) or e.has(sp.Min):
        return all(_affine(a) for m in e.atoms(sp.Max, sp.Min) for a in m.args)
    try:
        return sp.Poly(e, *syms).total_degree() <= 1
    except Exception:
        return False


def history_symbols(F, cls, M, cond):
    """size symbols of non-input member buffers in an undecided condition (their values are history)"""
    if cond is None:
        return []
    members = {x["name"] for x in F.record(cls)["fields"]}
    inputs = {M.m_durations, M.m_points, M.m_start, M.m_bc}
    out = []
    for x_ in getattr(cond, "free_symbols", ()):
        nm = str(x_)
        if nm.endswith((".rows", ".size", ".cols")) and nm.rsplit(".", 1)[0] in members and nm.rsplit(".", 1)[0] not in inputs:
            out.append(nm)
    return sorted(out)


def history_guard(chk, F, cls, M, f, n, msg, cond=None):
    """An undecidable branch whose condition reads the *previous* size of a member buffer makes the control flow
    depend on the object's history: that is a violation of the property, not an analysis problem."""
    import re
    if not msg.startswith("undecided branch"):
        return False
    members = {x["name"] for x in F.record(cls)["fields"]}
    inputs = {M.m_durations, M.m_points, M.m_start, M.m_bc}
    hit = [m for m in re.findall(r"(\w+)\.(?:rows|size|cols)\(\)", msg) if m in members and m not in inputs]
    if cond is not None and not hit:
        # the same test through a local alias of the member: the interpreter's view of the condition names the member
        for x_ in getattr(cond, "free_symbols", ()):
            nm = str(x_)
            if nm.endswith((".rows", ".size", ".cols")) and nm.rsplit(".", 1)[0] in members and nm.rsplit(".", 1)[0] not in inputs:
                hit.append(nm.rsplit(".", 1)[0])
    if not hit:
        return False
    chk.ob("C10-R1", "%s %s with N=%d: control flow independent of buffer sizes left by earlier calls" % (cls, f["name"], n), False, loc(f),
           "%s: the branch reads the previous size of %s, so a reused object can take a different path than a fresh one" % (msg, hit), construct="%s/%s/history-guard/%s" % (cls, f["name"], hit[0]))
    return True


def run(chk):
    F = facts_for(chk)
    E = Effects(F)
    ns = [1, 2, 3, 4, 6] if chk.tier == "quick" else [1, 2, 3, 4, 5, 6, 7, 8, 9]
    for short in SPLINES:
        for cls in alg_classes(F, short, ("update", "propagateGrad")):
            M = spline_model(F, cls)
            rec = F.record(cls)
            # ---- R2 --------------------------------------------------------------------------------------
            muts = [x["name"] for x in rec["fields"] if x["mutable"]]
            chk.ob("C10-R2", "%s has no mutable member (const queries cannot write)" % cls, not muts, "%s:%s" % (rec["file"], rec["line"]), str(muts), construct=cls + "/no-mutable")
            cc = []
            for f in F.funcs(cls):
                for nd in walk(f.get("body")):
                    if nd.get("k") == "cast" and nd.get("cast") == "const_cast":
                        cc.append(loc(f, nd))
            chk.ob("C10-R2", "%s uses no const_cast" % cls, not cc, cc[0] if cc else "", "", construct=cls + "/no-const-cast")
            nonconst_queries = [f for f in F.funcs(cls) if f.get("access") == "public" and not f.get("const") and f.get("kind") == "method" and f["name"] not in ("update",)]
            inputs = {M.m_durations, M.m_points, M.m_start, M.m_bc}
            for f in nonconst_queries:
                w = {p[1] for p, h, nd in E.function_writes(f) if p[0] == "this" and len(p) >= 2}
                chk.ob("C10-R2", "%s::%s (non-const query) does not write inputs or published results" % (cls, f["name"]), not (w & (inputs | {M.m_coeffs, M.m_knots, M.m_traj, M.m_count})), loc(f),
                       "members written: %s" % sorted(w), construct="%s/%s/write-set" % (cls, f["name"]))
            # ---- R1 --------------------------------------------------------------------------------------
            ups = [M.update4] + [f for f in F.funcs(cls, "update") if len(f["params"]) == 3]
            # every update overload (re)defines each of the four input members - the common routine reads all four, so a
            # member an overload leaves alone is read as an earlier call left it (the array replay below follows arrays;
            # the start time is a scalar)
            for up in ups:
                w = {p[1] for p, h, nd in E.function_writes(up) if p[0] == "this" and len(p) >= 2}
                missing = sorted(inputs - w)
                chk.ob("C10-R1", "%s update/%d stores each of the four inputs (durations, waypoints, start time, boundary states) before the common routine reads them" % (cls, len(up["params"])),
                       not missing, loc(up), "never written on any path of this overload: %s" % missing if missing else "members written: %s" % sorted(w & inputs),
                       construct="%s/update%d/stores-inputs" % (cls, len(up["params"])))
            # a truth-valued member that some update overload maintains and another overload only reads in a condition: for
            # the latter the branch taken is decided by an earlier call
            bools = {x["name"] for x in rec["fields"] if x["ty"].get("c") == "bool"}
            wr_by = {}
            rd_by = {}
            for up in ups:
                wr_by[up["fid"]] = {p[1] for p, h, nd in E.function_writes(up) if p[0] == "this" and len(p) >= 2} & bools
                rd = {}
                for g in [up] + [g_ for g_ in F.reachable(up, stop=lambda h_: h_.get("cls") != cls) if g_.get("cls") == cls]:
                    for nd in walk(g.get("body")):
                        c_ = nd.get("cond") if nd.get("k") in ("if", "while", "for", "dowhile") else (nd.get("c") if nd.get("k") == "cond" else None)
                        if c_ is None or nd.get("constexpr"):
                            continue
                        for x in walk(c_):
                            if x.get("k") == "mem" and (x.get("base") or {}).get("k") == "this" and x.get("field") in bools:
                                rd.setdefault(x["field"], (g, nd))
                rd_by[up["fid"]] = rd
            maintained = set().union(*wr_by.values()) if wr_by else set()
            for up in ups:
                stale = sorted(fl for fl in rd_by[up["fid"]] if fl in maintained and fl not in wr_by[up["fid"]])
                where = rd_by[up["fid"]][stale[0]] if stale else None
                chk.ob("C10-R1", "%s update/%d sets every member flag it branches on and that the update paths maintain" % (cls, len(up["params"])), not stale,
                       loc(where[0], where[1]) if where else loc(up), "read in a condition, set by another overload only: %s" % stale if stale else "flags read in conditions: %s" % sorted(rd_by[up["fid"]]),
                       construct="%s/update%d/sets-its-flags" % (cls, len(up["params"])))
            for n in ns:
                for up in ups:
                    make_env = lambda I, up=up: {p["id"]: I.make_value(p["name"], p["ty"]) for p in up["params"]}
                    hist_sizes = {}
                    try:
                        runs = trace_operation(F, cls, up, n, M.m_count, make_env, on_call=skip_handover)
                    except sym.Unsupported as ex:
                        # a guard on the size a member buffer was left with by earlier calls (grow-only scratch): legitimate
                        # as long as nothing read afterwards lies outside what this update defines.  Both outcomes are
                        # replayed: the buffer smaller than needed (it is resized) and larger (it is kept).
                        hs = history_symbols(F, cls, M, getattr(ex, "cond", None))
                        if not hs:
                            if history_guard(chk, F, cls, M, up, n, str(ex), getattr(ex, "cond", None)):
                                continue
                            raise
                        worst = None
                        for label, val in (("smaller", 0), ("larger", None)):
                            hsz = {h: (val if val is not None else 10 * (n + 2)) for h in hs}
                            try:
                                runs_h = trace_operation(F, cls, up, n, M.m_count, make_env, on_call=skip_handover, hist=hsz)
                            except sym.Unsupported as ex2:
                                raise Broken("%s update with a %s scratch buffer: %s" % (cls, label, ex2))
                            Rh = Replay(dict(sizes_for(M, n), **hsz), allowed_entry=(), op_name="update/%d" % len(up["params"]))
                            for p in up["params"]:
                                Rh.state.set_all(p["name"])
                                for fld in F.records.get(p["ty"].get("n"), {}).get("fields", []):
                                    Rh.state.set_all(p["name"] + "." + fld["name"])
                            for h in hs:
                                st_ = Rh.state.get(h.rsplit(".", 1)[0])
                                st_["size"] = hsz[h]
                            Rh.run({k: I.trace for k, I in runs_h.items()})
                            if Rh.violations and worst is None:
                                worst = (label, Rh.violations[0])
                            if up is M.update4 and label == "smaller":
                                base_state = Rh.state          # the queries below run on what this update defined
                        chk.saw(up)
                        chk.ob("C10-R1", "%s update/%d with N=%d: every region read is defined earlier in this update, whatever size the scratch buffers %s were left with" % (
                            cls, len(up["params"]), n, sorted(h.rsplit(".", 1)[0] for h in hs)), worst is None, loc(up),
                            ("with the buffer %s than needed: %s" % worst) if worst else "replayed with the buffer smaller and larger than needed", construct="%s/update%d/N%d/history-sizes" % (cls, len(up["params"]), n))
                        continue
                    hr = history_returns(runs, {x["name"] for x in rec["fields"]})
                    if hr or n == ns[0]:
                        chk.ob("C10-R1", "%s update/%d with N=%d: nothing is computed only past an early return on the size a member buffer was left with" % (cls, len(up["params"]), n), not hr, loc(up),
                               "past `if (%s) return`: %s" % hr[0] if hr else "no such early return", construct="%s/update%d/N%d/no-history-return" % (cls, len(up["params"]), n))
                    bad_aff = check_affine_tree(runs["middle"].trace)
                    if bad_aff:
                        raise Broken("non-affine index in %s: %s" % (up["full"], bad_aff[:2]))
                    R = Replay(sizes_for(M, n), allowed_entry=(), op_name="update/%d" % len(up["params"]))
                    for p in up["params"]:
                        R.state.set_all(p["name"])
                        for fld in F.records.get(p["ty"].get("n"), {}).get("fields", []):
                            R.state.set_all(p["name"] + "." + fld["name"])
                    # members not (yet) written are 'entry' = history
                    R.run({k: I.trace for k, I in runs.items()})
                    chk.saw(up)
                    v = R.violations
                    chk.ob("C10-R1", "%s update/%d with N=%d: every region read is defined earlier in this update" % (cls, len(up["params"]), n), not v, loc(up),
                           "%d region reads, %d region writes; %s" % (R.reads, R.writes, v[0] if v else "all covered"), construct="%s/update%d/N%d/%s" % (
                               cls, len(up["params"]), n, ("%s[%s]" % (v[0]["cont"], v[0]["key"])) if v else "ok"))
                    if up is M.update4:
                        base_state = R.state
                # queries on the state left by the latest update (fresh object: nothing else is defined)
                for qn in QUERIES:
                    qs = [f for f in F.funcs(cls, qn) if (qn != "getEnergyPartialGradByCoeffs" and qn != "getEnergyPartialGradByTimes") or len(f["params"]) == 1]
                    if not qs:
                        continue
                    q = qs[0]
                    make_env = lambda I, q=q: {p["id"]: I.make_value(p["name"], p["ty"]) for p in q["params"]}
                    try:
                        runs = trace_operation(F, cls, q, n, M.m_count, make_env)
                    except sym.Unsupported as ex:
                        if history_guard(chk, F, cls, M, q, n, str(ex), getattr(ex, "cond", None)):
                            continue
                        raise
                    hr = history_returns(runs, {x["name"] for x in rec["fields"]})
                    if hr or n == ns[0]:
                        chk.ob("C10-R1", "%s %s with N=%d: nothing is computed only past an early return on the size a member buffer was left with" % (cls, qn, n), not hr, loc(q),
                               "past `if (%s) return`: %s" % hr[0] if hr else "no such early return", construct="%s/%s/N%d/no-history-return" % (cls, qn, n))
                    st = State()
                    st.c = copy.deepcopy(base_state.c)
                    R = Replay(sizes_for(M, n), state=st, op_name=qn)
                    for p in q["params"]:
                        if p["ty"].get("const") or not p["ty"].get("ref"):
                            R.state.set_all(p["name"])
                    R.run({k: I.trace for k, I in runs.items()})
                    chk.saw(q)
                    v = R.violations
                    chk.ob("C10-R1", "%s %s with N=%d reads only regions defined by the latest update or earlier in the query" % (cls, qn, n), not v, loc(q),
                           "%d region reads; %s" % (R.reads, v[0] if v else "all covered"), construct="%s/%s/N%d/%s" % (cls, qn, n, ("%s[%s]" % (v[0]["cont"], v[0]["key"])) if v else "ok"))
    # out-parameter wrappers used by the optimizer: each field of the Gradients out-parameter is wholly assigned, or handed
    # on as a non-const out-parameter to a routine that wholly defines it (a traced query, or a helper that itself
    # assigns it before anything reads it), before anything reads it
    def defines_whole(cls, g, k, depth=0):
        """does method g wholly (re)define its k-th parameter before reading it?  traced queries: yes (R1 replays them
        with their out-parameters undefined); other helpers: the first statement mentioning it assigns it (or hands
        it on to such a routine) and does not read it"""
        if g["name"] in QUERIES:
            return True
        if depth > 4 or g.get("body") is None:
            return None
        pid = g["params"][k]["id"]
        for st in g["body"]["body"]:
            ments = [n for n in walk(st) if n.get("k") == "var" and n.get("id") == pid]
            if not ments:
                continue
            e = st.get("e") if st.get("k") == "expr" else None
            if e is not None and e.get("k") == "call" and callee(e).get("op") == "=" and isinstance(e.get("obj"), dict) and e["obj"].get("k") == "var" and e["obj"].get("id") == pid \
                    and not any(n.get("k") == "var" and n.get("id") == pid for n in walk(e["args"])):
                return True
            if e is not None and e.get("k") == "assign" and e.get("op") == "=" and e["l"].get("k") == "var" and e["l"].get("id") == pid and not any(n.get("k") == "var" and n.get("id") == pid for n in walk(e["r"])):
                return True
            if e is not None and e.get("k") == "call":
                h = F.by_fid.get(callee(e).get("fid"))
                pm = callee(e).get("pm", [])
                pos = [i for i, a in enumerate(e.get("args", [])) if isinstance(a, dict) and a.get("k") == "var" and a.get("id") == pid]
                if h is not None and h.get("cls") == cls and len(pos) == 1 and len(ments) == 1 and pos[0] < len(pm) and pm[pos[0]] == "ref":
                    return defines_whole(cls, h, pos[0], depth + 1)
            # an accumulation into the parameter reads what the caller left there; any other first use (a resize, a
            # guarded initialisation, ...) is not decided by this summary
            if e is not None and e.get("k") == "assign" and e.get("op") in ("+=", "-=", "*=", "/=") and e["l"].get("k") == "var" and e["l"].get("id") == pid:
                return False
            if e is not None and e.get("k") == "call" and callee(e).get("op") in ("+=", "-=", "*=", "/=") and isinstance(e.get("obj"), dict) and e["obj"].get("k") == "var" and e["obj"].get("id") == pid:
                return False
            return None
        return False

    for short in SPLINES:
        for cls in full_classes(F, short, ("update", "propagateGrad")):
            for f in [g for g in F.funcs(cls) if g["name"] in ("getEnergyGrad", "propagateGrad") and g.get("body") and g["params"]
                      and g["params"][-1]["ty"].get("ref") and not g["params"][-1]["ty"].get("const") and g["params"][-1]["ty"].get("c") == "record"]:
                prm = g_out = f["params"][-1]
                rec = F.records.get(prm["ty"].get("n"))
                if rec is None:
                    raise Broken("record of out-parameter %s of %s not extracted" % (prm["name"], f["full"]))
                state = {x["name"]: None for x in rec["fields"]}
                for st in f["body"]["body"]:
                    e = st.get("e") if st.get("k") == "expr" else None
                    done = set()
                    if e is not None and e.get("k") == "call" and callee(e).get("op") == "=" and is_mem_of_var(e.get("obj"), prm["id"]):
                        fld = e["obj"]["field"]
                        if not any(is_mem_of_var(n, prm["id"], fld) for n in walk(e["args"])) and state.get(fld) is None:
                            state[fld] = "assigned"
                            done.add(fld)
                    elif e is not None and e.get("k") == "call" and callee(e).get("cls") == cls and F.by_fid.get(callee(e).get("fid")) is not None:
                        h = F.by_fid[callee(e)["fid"]]
                        pm = callee(e).get("pm", [])
                        for i, a in enumerate(e["args"]):
                            if is_mem_of_var(a, prm["id"]) and i < len(pm) and pm[i] == "ref" and state.get(a["field"]) is None:
                                dw = defines_whole(cls, h, i)
                                if dw is None:
                                    raise Broken("C10-R1: whether %s defines its parameter %d before reading it is not decided by the out-parameter summary (%s hands it field %s)" % (
                                        h["full"], i, f["full"], a["field"]))
                                if dw:
                                    state[a["field"]] = "out-parameter of " + callee(e)["name"]
                                    done.add(a["field"])
                    for n in walk(st):
                        if is_mem_of_var(n, prm["id"]) and n["field"] not in done and state.get(n["field"]) is None:
                            state[n["field"]] = "BAD: touched at line %s before being defined" % n.get("line", st.get("line"))
                for fld, how in state.items():
                    chk.ob("C10-R1", "%s::%s/%d defines field %s of its out-parameter before anything reads it" % (cls, f["name"], len(f["params"]), fld), how is not None and not how.startswith("BAD"), loc(f),
                           str(how), construct="%s/%s%d/out/%s" % (cls, f["name"], len(f["params"]), fld))
                chk.saw(f)
    chk.floor("C10-R1", 4 * 5 * 8)
    chk.floor("C10-R2", 12)
    # ---- R3 workspace ---------------------------------------------------------------------------------------
    for cls in optimizer_classes(F):
        ws = F.record(cls + "::Workspace")
        rz = F.func1(cls + "::Workspace", "resize")
        chk.saw(rz)
        sized = [x for x in ws["fields"] if (x["ty"].get("c") == "eigen" and x["ty"].get("rows") == -1) or x["ty"].get("std") == "vector"]
        # Workspace::resize interpreted in the two configurations its guard can distinguish: the key buffer's size differs
        # from the requested count / equals it (whatever the statement shape: guard around the body, early return, locals)
        wscls = cls + "::Workspace"
        effs = {}
        keyc = set()
        for differ in (True, False):
            I = sym.Interp(F, wscls)
            env = {p_["id"]: I.make_value(p_["name"], p_["ty"]) for p_ in rz["params"]}
            nsym = env[rz["params"][0]["id"]]

            def orc(s_, c, I_, differ=differ, nsym=nsym):
                c = sp.sympify(c)
                szs = [x_ for x_ in c.free_symbols if x_ != nsym and (x_.name.endswith(".size") or x_.name.endswith(".rows"))]
                if not szs or c.free_symbols - set(szs) - {nsym}:
                    return None
                keyc.update(x_.name.rsplit(".", 1)[0] for x_ in szs)
                r = sp.simplify(c.xreplace({x_: (nsym + 1 if differ else nsym) for x_ in szs}))
                return True if r == sp.true else False if r == sp.false else None
            I.path_oracle = orc
            try:
                I.run_body(rz, env)
            except sym.Unsupported as ex:
                raise Broken("Workspace::resize not analysable: %s" % ex)
            effs[differ] = [e for e in I.effects if e.op == "resize"]
        resized = {}
        for e in effs[True]:
            resized[e.target] = e.value[0]
        for x in sized:
            v = resized.get(x["name"])
            ok = v is not None and (sym.is_zero(v) or (sp.sympify(v).free_symbols == {nsym} and sp.Poly(sp.sympify(v), nsym).degree() == 1 and all(c_ > 0 for c_ in sp.Poly(sp.sympify(v), nsym).all_coeffs()[:1])))   # emptied, or sized for the count
            chk.ob("C10-R3", "%s::Workspace::resize sizes %s from the segment count" % (cls, x["name"]), ok, loc(rz), "resize(%s)" % (v,), construct="%s/Workspace/%s" % (cls, x["name"]))
        # the key: the guard reads the size of a buffer that resize itself sets to exactly the requested count, and when
        # that size already matches nothing is resized (so 'key matches' implies 'every buffer is sized for this count')
        okg = len(keyc) >= 1 and all(k_ in resized and sym.is_zero(resized[k_] - nsym) for k_ in keyc) and not effs[False]
        chk.ob("C10-R3", "%s::Workspace::resize is keyed on the size of a buffer it sets to the requested count" % cls, okg, loc(rz), "key buffer(s) %s" % sorted(keyc), construct="%s/Workspace/key" % cls)
        resized = {k_: str(v).replace(str(nsym), "num_segments") for k_, v in resized.items()}
        # evaluate(): the workspace is sized for the current problem before any buffer is touched, and every buffer that
        # is read has been wholly defined earlier in the same evaluation on every path (wsdef.py)
        from .common import workspace_spline_field
        spline_cls = workspace_spline_field(F, cls + "::Workspace")[1]
        for f in [g for g in F.funcs(cls, "evaluate") if len(g["params"]) == 7]:
            inst = f["full"].split("evaluate")[1][:40]
            body = f["body"]["body"]
            W = WsDef(F, cls, cls + "::Workspace", spline_cls, resized)
            from .c16 import discover_roles
            count_member = discover_roles(F, Effects(F), cls)[1]["COUNT"]
            W.count_member = count_member
            idx_resize = [k for k, s_ in enumerate(body) for nd in walk(s_) if nd.get("k") == "call" and callee(nd).get("fid") == rz["fid"] and s_.get("k") in ("expr", "decl")]
            idx_first_use = [k for k, s_ in enumerate(body) if W.fields_in(s_)]
            rzcall = [nd for s_ in body for nd in walk(s_) if nd.get("k") == "call" and callee(nd).get("fid") == rz["fid"]]
            ok = len(idx_resize) >= 1 and idx_first_use and idx_resize[0] < idx_first_use[0] and pp(rzcall[0]["args"][0]) == count_member
            chk.ob("C10-R3", "%s evaluate sizes the workspace for the current problem before touching it" % cls, ok, loc(f), "", construct="%s/evaluate%s/resize-first" % (cls, inst))
            W.fn_stack.append(f)
            W.stmts(body)
            used = [x for x in W.fields if W.mentions[x]]
            for x in used:
                pr = [p_ for p_ in W.problems if p_["field"] == x]
                d = W.defs.get(x)
                chk.ob("C10-R3", "%s evaluate%s: %s is wholly defined by this evaluation before it is read" % (cls, inst, x), not pr,
                       loc(pr[0]["fn"], pr[0]["node"]) if pr else (loc(d[2], d[0]) if d else loc(f)),
                       pr[0]["what"] + " (%s)" % pp(pr[0]["node"])[:120] if pr else ("defined by %s" % d[1] if d else "only written"), construct="%s/evaluate%s/defined/%s" % (cls, inst, x))
            chk.saw(f)
    chk.floor("C10-R3", 30 + 8 * 10)
    chk.not_decided = ["bit-identity follows from 'same operations on the same operands' (IEEE determinism); PPolyND's lazy caches are C11",
                       "sizes other than those enumerated are covered by affinity of all index expressions (checked) - regions for n >= 7 are translates of each other"]
    chk.trusted.append("Eigen resize() leaves the contents unspecified unless the size is unchanged (then it keeps them): both count as 'not defined by this operation'")
