"""C19 - the built-in gradient self-check gives a trustworthy verdict and restores state (DESIGN s6 C19).

R1 every component is perturbed by +eps and -eps around its original value and restored before the next
   iteration; numerical(i) = (c+ - c-) / (2 eps);
R2 all evaluations use the same functors and workspace; the last evaluation before returning is at the
   unperturbed x into the analytic gradient (so the workspace spline is x's);
R3 diff / norms / relative error with the 1e-9 guard / verdict formula;
R4 the two-cost overload forwards every argument.
"""
from ..facts import Broken, pp, loc, walk
from ..effects import callee
from ..flow import Flow
from .. import preds
from ..preds import Scope, canon
from .common import facts_for, optimizer_classes, strip_copy


def run(chk):
    F = facts_for(chk)
    for cls in optimizer_classes(F):
        fs = F.funcs(cls, "checkGradients")
        primary = [f for f in fs if len(f["params"]) == 7]
        secondary = [f for f in fs if len(f["params"]) == 6]
        if not primary or not secondary:
            raise Broken("checkGradients overloads not instantiated for " + cls)
        for f in primary:
            check_primary(chk, F, cls, f)
        for f in secondary:
            check_forward(chk, F, cls, f, primary)
    chk.floor("C19-R1", 16)
    chk.floor("C19-R2", 16)
    chk.floor("C19-R3", 16)
    chk.floor("C19-R4", 4)
    chk.not_decided = ["whether central differences of a particular user cost are accurate enough for the tolerance (the 'reports failure when a component is wrong by more than tol' clause)"]


def check_primary(chk, F, cls, f):
    chk.saw(f)
    inst = f["full"].split("checkGradients")[1][:60]
    sc = Scope(f)
    P = {p["name"]: "$p%d" % k for k, p in enumerate(f["params"])}
    X, EPS, TOL = "$p0", "$p5", "$p6"
    loops = [s for s in f["body"]["body"] if s.get("k") == "for"]
    if len(loops) != 1:
        raise Broken("checkGradients: expected one perturbation loop")
    lp = loops[0]
    iv = lp["init"]
    sc.bind_opaque(iv["id"], "%i")
    # locals: the perturbed copy, the result struct, the workspace alias
    xt = None
    for s in f["body"]["body"]:
        if s.get("k") == "decl" and s.get("init") is not None:
            ini = strip_copy(s["init"])
            if s["ty"].get("c") == "eigen" and isinstance(ini, dict) and ini.get("k") == "var" and ini.get("id") == f["params"][0]["id"]:
                xt = s
            elif s.get("bind") == "alias":
                sc.bind_local(s)
    if xt is None:
        raise Broken("checkGradients: perturbed copy of x not found")
    sc.bind_opaque(xt["id"], "%xtemp")
    comp = "%xtemp[%i]"
    calls = []
    viol = []
    formula = {}
    nodes_in_loop = {id(n) for n in walk(lp)}
    ev_fids = {g["fid"] for g in F.funcs(cls, "evaluate")}

    def transfer(node, st, ctx):
        pert, old = st
        k = node.get("k")
        if k == "decl" and node.get("init") is not None:
            ini = strip_copy(node["init"])
            if ini.get("k") == "call" and callee(ini).get("fid") in ev_fids:
                sc.bind_opaque(node["id"], "EV[%s]" % pert)
            elif canon(node["init"], sc) == comp:
                # reading the component: it is the original value only while unperturbed
                sc.bind_opaque(node["id"], "OLD" if pert == "orig" else "STALE")
                old = pert == "orig"
            elif id(node) in nodes_in_loop:
                sc.bind_local(node)
            else:
                sc.bind_local(node)
        if k == "call" and callee(node).get("fid") in ev_fids:
            rec_ = {"pert": pert, "args": [canon(a, sc) for a in node["args"]], "in_loop": id(node) in nodes_in_loop, "line": node.get("line"), "nid": id(node)}
            if not any(c["nid"] == rec_["nid"] and c["pert"] == pert for c in calls):
                calls.append(rec_)
        if k == "assign":
            l = canon(node["l"], sc)
            if l == comp:
                r = canon(node["r"], sc)
                if r == preds.cbin("+", "OLD", EPS):
                    pert = "+eps"
                elif r == "(OLD - %s)" % EPS:
                    pert = "-eps"
                elif r == "OLD":
                    pert = "orig"
                else:
                    viol.append(("component set to %s" % r, node.get("line")))
                    pert = "other"
            elif l.startswith("%xtemp"):
                viol.append(("perturbed copy written at %s" % l, node.get("line")))
                pert = "other"
            else:
                formula[l] = (canon(node["r"], sc), node.get("line"))
        if k == "un" and node["op"] == "++" and canon(node["e"], sc) == "%i":
            if pert != "orig":
                viol.append(("component left at '%s' when the loop advances" % pert, node.get("line")))
        return [(pert, old)]

    fl = Flow(F, transfer)
    out, exits = fl.run(f, ("orig", False))
    where = loc(f, lp)
    # R1
    p_, t_ = preds.literal(lp["cond"], sc)
    rng = preds.lit_zero(iv) if hasattr(preds, "lit_zero") else (strip_copy(iv.get("init")).get("v") == "0")
    ok_rng = rng and p_ and t_ == "%%i < %s.size()" % X and lp["inc"].get("k") == "un" and lp["inc"]["op"] == "++"
    chk.ob("C19-R1", "%s%s loop visits every component of x" % (cls, inst), bool(ok_rng), where, "for %%i from %s while %s" % (pp(iv.get("init")), t_), construct="%s/checkGradients%s/range" % (cls, inst))
    loop_calls = [c for c in calls if c["in_loop"]]
    perts = [c["pert"] for c in loop_calls]
    chk.ob("C19-R1", "%s%s each component is evaluated at +eps and at -eps around its original value" % (cls, inst), sorted(perts) == ["+eps", "-eps"], where, "evaluations at %s" % perts,
           construct="%s/checkGradients%s/perturb" % (cls, inst))
    chk.ob("C19-R1", "%s%s the component is restored before the next iteration and after the loop" % (cls, inst), not viol and all(s[0] == "orig" for s, _ in exits), where,
           str(viol) if viol else "restored on every path", construct="%s/checkGradients%s/restore" % (cls, inst))
    num = [(k, v) for k, v in formula.items() if k.endswith(".numerical[%i]")]
    want = "((EV[+eps] - EV[-eps]) / %s)" % preds.cbin("*", "2", EPS)
    chk.ob("C19-R1", "%s%s numerical(i) = (c+ - c-) / (2 eps)" % (cls, inst), len(num) == 1 and num[0][1][0] == want, where, "numerical[i] = %s" % (num[0][1][0] if num else None),
           construct="%s/checkGradients%s/formula" % (cls, inst))
    # R2
    functors = [P["tf"], P["wf"], P["ifc"]]
    same = all(c["args"][2:5] == functors for c in calls)
    ws_args = {c["args"][5] for c in calls}
    chk.ob("C19-R2", "%s%s all %d evaluations use the caller's three functors in order" % (cls, inst, len(calls)), same and len(calls) == 4, loc(f), str([c["args"][2:5] for c in calls][:2]),
           construct="%s/checkGradients%s/functors" % (cls, inst))
    chk.ob("C19-R2", "%s%s all evaluations use the same workspace" % (cls, inst), len(ws_args) == 1 and next(iter(ws_args)).startswith("(&"), loc(f), str(ws_args), construct="%s/checkGradients%s/workspace" % (cls, inst))
    okx = all(c["args"][0] == "%xtemp" for c in loop_calls) and all(c["args"][1] != calls[0]["args"][1] for c in loop_calls)
    chk.ob("C19-R2", "%s%s perturbed evaluations read the perturbed copy and write a scratch gradient" % (cls, inst), okx, where, str([c["args"][:2] for c in loop_calls]), construct="%s/checkGradients%s/scratch" % (cls, inst))
    last = calls[-1] if calls else None
    okl = last is not None and not last["in_loop"] and last["args"][0] == X and last["args"][1].endswith(".analytical") and last["pert"] == "orig"
    # nothing evaluates after it
    chk.ob("C19-R2", "%s%s the last evaluation before returning is at the unperturbed x into the analytic gradient" % (cls, inst), okl, loc(f, {"line": last["line"]} if last else None),
           str(last["args"][:2]) if last else "", construct="%s/checkGradients%s/final-eval" % (cls, inst))
    # R3
    def val(suffix):
        ks = [k for k in formula if k.endswith(suffix)]
        return formula[ks[0]][0] if len(ks) == 1 else None
    res = [k for k in formula if k.endswith(".valid")]
    base = res[0][:-len(".valid")] if res else "%res"
    diff_ok = False
    for s in f["body"]["body"]:
        if s.get("k") == "decl" and s.get("init") is not None and canon(s["init"], sc) == "(%s.analytical - %s.numerical)" % (base, base):
            diff_ok = True
    chk.ob("C19-R3", "%s%s error vector = analytical - numerical" % (cls, inst), diff_ok, loc(f), "", construct="%s/checkGradients%s/diff" % (cls, inst))
    en = val(".error_norm")
    chk.ob("C19-R3", "%s%s error_norm = |analytical - numerical|" % (cls, inst), en == "(%s.analytical - %s.numerical).norm()" % (base, base), loc(f), str(en), construct="%s/checkGradients%s/norm" % (cls, inst))
    rel = val(".rel_error")
    want_rel = "((%s.analytical.norm() > 1e-09) ? (%s.error_norm / %s.analytical.norm()) : %s.error_norm)" % (base, base, base, base)
    alt = want_rel.replace("(%s.analytical.norm() > 1e-09)" % base, "(1e-09 < %s.analytical.norm())" % base)
    chk.ob("C19-R3", "%s%s rel_error = error/|analytical| guarded by |analytical| > 1e-9" % (cls, inst), rel in (want_rel, alt), loc(f), str(rel), construct="%s/checkGradients%s/rel" % (cls, inst))
    va = val(".valid")
    chk.ob("C19-R3", "%s%s valid = error_norm < tol" % (cls, inst), va in ("(%s.error_norm < %s)" % (base, TOL), "(%s > %s.error_norm)" % (TOL, base)), loc(f), str(va), construct="%s/checkGradients%s/verdict" % (cls, inst))
    rets = [n for n in walk(f["body"]) if n.get("k") == "return"]
    okr = len(rets) == 1 and canon(rets[0]["e"], sc) == base
    chk.ob("C19-R3", "%s%s returns the filled result" % (cls, inst), okr, loc(f), "", construct="%s/checkGradients%s/return" % (cls, inst))


def check_forward(chk, F, cls, f, primary):
    chk.saw(f)
    sc = Scope(f)
    rets = [n for n in walk(f["body"]) if n.get("k") == "return"]
    ok = len(rets) == 1
    det = ""
    if ok:
        c = strip_copy(rets[0]["e"])
        ok = c.get("k") == "call" and callee(c).get("fid") in {g["fid"] for g in primary}
        if ok:
            a = [canon(x, sc) for x in c["args"]]
            ok = a[0] == "$p0" and a[1] == "$p1" and a[3] == "$p2" and a[4:] == ["$p3", "$p4", "$p5"] and "VoidWaypointsCost" in a[2]
            det = str(a)
    chk.ob("C19-R4", "%s two-cost checkGradients forwards x, both functors, workspace, eps and tol with a void waypoint cost" % cls, ok, loc(f), det, construct=cls + "/checkGradients/forward")
