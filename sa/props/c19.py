"""C19 - the built-in gradient self-check gives a trustworthy verdict and restores state (DESIGN s6 C19).

R1 every component is perturbed by +eps and -eps around its original value and restored before the next
   iteration; numerical(i) = (c+ - c-) / (2 eps);
R2 all evaluations use the same functors and workspace; the last evaluation before returning is at the
   unperturbed x into the analytic gradient (so the workspace spline is x's);
R3 diff / norms / relative error with the 1e-9 guard / verdict formula;
R4 the two-cost overload forwards every argument.
"""
from ..facts import Broken, pp, loc, walk
from ..effects import callee
from ..flow import Flow
from .. import preds
from ..preds import Scope, canon
from .common import facts_for, optimizer_classes, strip_copy, is_void_waypoints_cost, fold_if_assign


def run(chk):
    F = facts_for(chk)
    for cls in optimizer_classes(F):
        fs = F.funcs(cls, "checkGradients")
        primary = [f for f in fs if len(f["params"]) == 7]
        secondary = [f for f in fs if len(f["params"]) == 6]
        if not primary or not secondary:
            raise Broken("checkGradients overloads not instantiated for " + cls)
        for f in primary:
            check_primary(chk, F, cls, f)
        for f in secondary:
            check_forward(chk, F, cls, f, primary)
    chk.floor("C19-R1", 16)
    chk.floor("C19-R2", 16)
    chk.floor("C19-R3", 16)
    chk.floor("C19-R4", 4)
    chk.not_decided = ["whether central differences of a particular user cost are accurate enough for the tolerance (the 'reports failure when a component is wrong by more than tol' clause)"]


def safe_canon(e, sc, depth=0):
    try:
        return preds.canon(e, sc, depth)
    except Broken:
        return "?"


def check_probe(chk, F, cls, f, inst):
    """R1 / R2 on the meaning of the probe loop: checkGradients is interpreted (Engine A) with evaluate() as an opaque
    call whose first argument is recorded as 'x with component i replaced by ...'; helper lambdas, renamed locals and
    index types do not matter."""
    import sympy as sp
    from .. import sym
    from ..sym import Interp, Unsupported, Container, Ref, Struct
    calls = []
    xname = f["params"][0]["name"]
    eps = sp.Symbol(f["params"][5]["name"], real=True)

    def hook(c, e, env, I):
        if c.get("name") == "evaluate" and c.get("cls") == cls:
            args = [I.evl(a, env) for a in e["args"][:2]]
            xc = I.load(args[0]) if isinstance(args[0], Ref) else args[0]
            gc = I.load(args[1]) if isinstance(args[1], Ref) else args[1]
            if not isinstance(xc, Container):
                raise Unsupported("evaluate() called on something that is not a vector the interpreter tracks")
            last = {}
            for key, v in xc.store:
                last[tuple(str(k_) for k_ in key)] = (key, v)
            def ident(a):
                """what an argument denotes: the object behind references / addresses (helpers may rename it), else its text"""
                try:
                    v = I.evl(a, env)
                except Unsupported:
                    return pp(a)
                hops = 0
                while hops < 8:
                    hops += 1
                    if isinstance(v, tuple) and v and v[0] == "ptr":
                        v = v[1]
                        pre = "&"
                        continue
                    if isinstance(v, Ref) and v.kind == "var" and isinstance(v.env.get(v.id), (Ref, Struct, Container, tuple)):
                        v = v.env[v.id]
                        continue
                    break
                if isinstance(v, (Struct, Container)):
                    return ("obj", id(v), getattr(v, "name", ""))
                if isinstance(v, Ref) and v.kind == "var":
                    return ("var", v.id)
                return pp(a) if not isinstance(v, sp.Basic) else ("val", str(v))
            calls.append({"x": xc.name, "origin": getattr(xc, "copy_of", (xc.name, None))[0], "store": list(last.values()), "grad": gc.name if isinstance(gc, Container) else str(gc),
                          "rest": [ident(a) for a in e["args"][2:]], "addr": [pp(a).startswith("&") for a in e["args"][2:]],
                          "seq": I.tick(), "depth": len(I.loop_stack), "line": e.get("line")})
            if isinstance(gc, Container):
                I.record(gc.name, ("*",), "=", ("opaque", "gradient of evaluation %d" % len(calls)), e)
                gc.bump()
            return sp.Symbol("EVAL%d" % len(calls), real=True)
        return NotImplemented
    I = Interp(F, cls, on_call=hook)
    I.opaque_conditions = True
    wsn = cls + "::Workspace"
    I.alias_records[wsn] = I.make_value("WS", {"c": "record", "n": wsn})
    env = {p_["id"]: I.make_value(p_["name"], p_["ty"]) for p_ in f["params"]}
    body = f["body"]["body"]
    idxs = [k_ for k_, s_ in enumerate(body) if any(n.get("k") == "call" and callee(n).get("name") == "evaluate" and callee(n).get("cls") == cls for n in walk(s_))]
    if not idxs:
        raise Broken("checkGradients: no call of evaluate() at statement level")
    try:
        for s_ in body[:idxs[-1] + 1]:
            I.exec(s_, env)
    except Unsupported as ex:
        raise Broken("checkGradients not analysable: %s" % ex)
    where = loc(f)
    probe = [c for c in calls if c["depth"] >= 1]
    loops = [L for L in I.loops if any(e.target.endswith(".numerical") or e.target == "numerical" for e in L.effects)]
    if len(loops) != 1:
        raise Broken("checkGradients: the loop filling the numerical gradient was not identified")
    L = loops[0]
    i = L.var
    xr = sp.Symbol(xname + ".rows", integer=True, nonnegative=True)
    ue = L.hi if (L.cond_op == "<" and L.step == 1) else (L.hi + 1 if (L.cond_op == "<=" and L.step == 1) else None)
    ok_rng = L.lo == 0 and ue is not None and str(ue) in (xname + ".rows", xname + ".size")
    chk.ob("C19-R1", "%s%s loop visits every component of x" % (cls, inst), bool(ok_rng), where, "%s .. %s" % (L.lo, ue), construct="%s/checkGradients%s/range" % (cls, inst))
    # the two probes: x with component i at its value on entry +eps / -eps
    def shift(c):
        st = c["store"]
        if len(st) != 1 or len(st[0][0]) != 1 or not sym.is_zero(st[0][0][0] - i) or c["origin"] != xname:
            return None
        own = [a for a in sp.sympify(st[0][1]).atoms(sp.Indexed) if str(a.base).split("#")[0] == c["x"] and sym.is_zero(a.indices[0] - i)]
        return sp.expand(st[0][1] - own[0]) if len(own) == 1 else None
    sh = [shift(c) for c in probe]
    okp = len(probe) == 2 and all(x_ is not None for x_ in sh) and {sp.simplify(x_ / eps) for x_ in sh} == {sp.Integer(1), sp.Integer(-1)}
    chk.ob("C19-R1", "%s%s each component is evaluated at +eps and at -eps around its original value" % (cls, inst), bool(okp), where, "probe offsets %s" % sh, construct="%s/checkGradients%s/perturb" % (cls, inst))
    # restored: the last write to the probe vector in an iteration puts the entry value back, nothing else is written
    pw = [e for e in L.effects if probe and e.target == probe[0]["x"]]
    okr = bool(pw) and all(len(e.key) == 1 and sym.is_zero(e.key[0] - i) for e in pw)
    if okr:
        lastv = sp.sympify(pw[-1].value)
        okr = isinstance(lastv, sp.Indexed) and str(lastv.base).split("#")[0] == probe[0]["x"] and sym.is_zero(lastv.indices[0] - i)
    outside = [e for e in I.effects if probe and e.target == probe[0]["x"] and e.op not in ("resize",) and not (isinstance(e.value, tuple) and e.value[0] == "copy")]
    chk.ob("C19-R1", "%s%s the component is restored before the next iteration and after the loop" % (cls, inst), bool(okr) and not outside, where,
           "writes to the probe vector per iteration: %s" % [(str(e.key[0]), str(e.value)) for e in pw], construct="%s/checkGradients%s/restore" % (cls, inst))
    ne = [e for e in L.effects if e.target.endswith("numerical")]
    okf = False
    if okp and len(ne) == 1 and len(ne[0].key) == 1 and sym.is_zero(ne[0].key[0] - i):
        plus = sp.Symbol("EVAL%d" % (calls.index(probe[[sp.simplify(x_ / eps) for x_ in sh].index(1)]) + 1), real=True)
        minus = sp.Symbol("EVAL%d" % (calls.index(probe[[sp.simplify(x_ / eps) for x_ in sh].index(-1)]) + 1), real=True)
        okf = sym.is_zero(sp.sympify(ne[0].value) - (plus - minus) / (2 * eps))
    chk.ob("C19-R1", "%s%s numerical(i) = (c+ - c-) / (2 eps)" % (cls, inst), okf, where, "numerical[i] = %s" % (ne[0].value if ne else None), construct="%s/checkGradients%s/formula" % (cls, inst))
    # R2
    rests = {tuple(c["rest"][:3]) for c in calls}
    want_f = [env[p_["id"]] for p_ in f["params"][1:4]]
    want_ids = [("obj", id(v_), getattr(v_, "name", "")) if isinstance(v_, (Struct, Container)) else ("var", p_["id"]) for v_, p_ in zip(want_f, f["params"][1:4])]
    chk.ob("C19-R2", "%s%s all %d evaluations use the caller's three functors in order" % (cls, inst, len(calls)), len(rests) == 1 and list(next(iter(rests))) == want_ids and len(calls) >= 3, where,
           "%s (the caller's: %s)" % (rests, want_ids), construct="%s/checkGradients%s/functors" % (cls, inst))
    wsargs = {c["rest"][3] if len(c["rest"]) > 3 else None for c in calls}
    chk.ob("C19-R2", "%s%s all evaluations use the same workspace" % (cls, inst), len(wsargs) == 1 and None not in wsargs and isinstance(next(iter(wsargs)), tuple) and next(iter(wsargs))[0] == "obj", where, str(wsargs),
           construct="%s/checkGradients%s/workspace" % (cls, inst))
    final = [c for c in calls if c["depth"] == 0]
    okx = bool(probe) and all(c["x"] != xname and c["grad"] not in {d["grad"] for d in final} for c in probe)
    chk.ob("C19-R2", "%s%s perturbed evaluations read the perturbed copy and write a scratch gradient" % (cls, inst), okx, where, str([(c["x"], c["grad"]) for c in probe]), construct="%s/checkGradients%s/scratch" % (cls, inst))
    last = max(calls, key=lambda c: c["seq"]) if calls else None
    okl = last is not None and last["depth"] == 0 and last["x"] == xname and not last["store"] and last["grad"].endswith("analytical") and all(c["seq"] < last["seq"] for c in probe)
    chk.ob("C19-R2", "%s%s the last evaluation before returning is at the unperturbed x into the analytic gradient" % (cls, inst), okl, loc(f, {"line": last["line"]} if last else None),
           str((last["x"], last["grad"])) if last else "", construct="%s/checkGradients%s/final-eval" % (cls, inst))


def check_primary(chk, F, cls, f):
    chk.saw(f)
    f_orig = f
    f = fold_if_assign(f)          # if / else assigning one result field = the conditional expression (R3 compares formulas)
    canon = safe_canon
    inst = f["full"].split("checkGradients")[1][:60]
    sc = Scope(f)
    P = {p["name"]: "$p%d" % k for k, p in enumerate(f["params"])}
    X, EPS, TOL = "$p0", "$p5", "$p6"
    loops = [s for s in f["body"]["body"] if s.get("k") == "for"]
    # the walk below only collects the result formulas for R3 (R1 / R2 are decided on the interpreted probe loop); when the
    # probe loop lives in a helper there is nothing loop-specific to bind here
    lp = loops[0] if len(loops) == 1 else {"k": "block", "body": []}
    iv = lp["init"] if len(loops) == 1 else {"id": -1}
    sc.bind_opaque(iv["id"], "%i")
    # locals: the perturbed copy, the result struct, the workspace alias
    xt = None
    for s in f["body"]["body"]:
        if s.get("k") == "decl" and s.get("init") is not None:
            ini = strip_copy(s["init"])
            if s["ty"].get("c") == "eigen" and isinstance(ini, dict) and ini.get("k") == "var" and ini.get("id") == f["params"][0]["id"]:
                xt = s
            elif s.get("bind") == "alias":
                sc.bind_local(s)
    sc.bind_opaque(xt["id"] if xt is not None else -2, "%xtemp")
    comp = "%xtemp[%i]"
    calls = []
    viol = []
    formula = {}
    nodes_in_loop = {id(n) for n in walk(lp)}
    ev_fids = {g["fid"] for g in F.funcs(cls, "evaluate")}

    def transfer(node, st, ctx):
        pert, old = st
        k = node.get("k")
        if k == "decl" and node.get("init") is not None:
            ini = strip_copy(node["init"])
            if ini.get("k") == "call" and callee(ini).get("fid") in ev_fids:
                sc.bind_opaque(node["id"], "EV[%s]" % pert)
            elif canon(node["init"], sc) == comp:
                # reading the component: it is the original value only while unperturbed
                sc.bind_opaque(node["id"], "OLD" if pert == "orig" else "STALE")
                old = pert == "orig"
            elif id(node) in nodes_in_loop:
                sc.bind_local(node)
            else:
                sc.bind_local(node)
        if k == "call" and callee(node).get("fid") in ev_fids:
            rec_ = {"pert": pert, "args": [canon(a, sc) for a in node["args"]], "in_loop": id(node) in nodes_in_loop, "line": node.get("line"), "nid": id(node)}
            if not any(c["nid"] == rec_["nid"] and c["pert"] == pert for c in calls):
                calls.append(rec_)
        if k == "assign":
            l = canon(node["l"], sc)
            if l == comp:
                r = canon(node["r"], sc)
                if r == preds.cbin("+", "OLD", EPS):
                    pert = "+eps"
                elif r == "(OLD - %s)" % EPS:
                    pert = "-eps"
                elif r == "OLD":
                    pert = "orig"
                else:
                    viol.append(("component set to %s" % r, node.get("line")))
                    pert = "other"
            elif l.startswith("%xtemp"):
                viol.append(("perturbed copy written at %s" % l, node.get("line")))
                pert = "other"
            else:
                formula[l] = (canon(node["r"], sc), node.get("line"))
        if k == "un" and node["op"] == "++" and canon(node["e"], sc) == "%i":
            if pert != "orig":
                viol.append(("component left at '%s' when the loop advances" % pert, node.get("line")))
        return [(pert, old)]

    try:
        fl = Flow(F, transfer)
        out, exits = fl.run(f, ("orig", False))
    except Broken:
        pass        # the shape-based walk only collects the result formulas for R3; R1 / R2 are decided semantically below
    check_probe(chk, F, cls, f_orig, inst)
    # R3
    def val(suffix):
        ks = [k for k in formula if k.endswith(suffix)]
        return formula[ks[0]][0] if len(ks) == 1 else None
    res = [k for k in formula if k.endswith(".valid")]
    base = res[0][:-len(".valid")] if res else "%res"
    diff_ok = False
    for s in f["body"]["body"]:
        if s.get("k") == "decl" and s.get("init") is not None and canon(s["init"], sc) == "(%s.analytical - %s.numerical)" % (base, base):
            diff_ok = True
    chk.ob("C19-R3", "%s%s error vector = analytical - numerical" % (cls, inst), diff_ok, loc(f), "", construct="%s/checkGradients%s/diff" % (cls, inst))
    en = val(".error_norm")
    chk.ob("C19-R3", "%s%s error_norm = |analytical - numerical|" % (cls, inst), en == "(%s.analytical - %s.numerical).norm()" % (base, base), loc(f), str(en), construct="%s/checkGradients%s/norm" % (cls, inst))
    rel = val(".rel_error")
    want_rel = "((%s.analytical.norm() > 1e-09) ? (%s.error_norm / %s.analytical.norm()) : %s.error_norm)" % (base, base, base, base)
    alt = want_rel.replace("(%s.analytical.norm() > 1e-09)" % base, "(1e-09 < %s.analytical.norm())" % base)
    chk.ob("C19-R3", "%s%s rel_error = error/|analytical| guarded by |analytical| > 1e-9" % (cls, inst), rel in (want_rel, alt), loc(f), str(rel), construct="%s/checkGradients%s/rel" % (cls, inst))
    va = val(".valid")
    chk.ob("C19-R3", "%s%s valid = error_norm < tol" % (cls, inst), va in ("(%s.error_norm < %s)" % (base, TOL), "(%s > %s.error_norm)" % (TOL, base)), loc(f), str(va), construct="%s/checkGradients%s/verdict" % (cls, inst))
    from ..facts import walk_own
    rets = [n for n in walk_own(f["body"]) if n.get("k") == "return"]
    okr = len(rets) == 1 and canon(rets[0]["e"], sc) == base
    chk.ob("C19-R3", "%s%s returns the filled result" % (cls, inst), okr, loc(f), "", construct="%s/checkGradients%s/return" % (cls, inst))


def check_forward(chk, F, cls, f, primary):
    chk.saw(f)
    sc = Scope(f)
    rets = [n for n in walk(f["body"]) if n.get("k") == "return"]
    ok = len(rets) == 1
    det = ""
    if ok:
        c = strip_copy(rets[0]["e"])
        ok = c.get("k") == "call" and callee(c).get("fid") in {g["fid"] for g in primary}
        if ok:
            a = [canon(x, sc) for x in c["args"]]
            ok = a[0] == "$p0" and a[1] == "$p1" and a[3] == "$p2" and a[4:] == ["$p3", "$p4", "$p5"] and is_void_waypoints_cost(F, c["args"][2])
            det = str(a)
    chk.ob("C19-R4", "%s two-cost checkGradients forwards x, both functors, workspace, eps and tol with a void waypoint cost" % cls, ok, loc(f), det, construct=cls + "/checkGradients/forward")
