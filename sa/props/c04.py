"""C04 - reported energy is the integral of the squared s-th derivative (DESIGN s6 C04).

R1 per-segment increment of the accumulation loop == sum_ab G_ab(T) <c_a|c_b> on the published rows;
R2 the loop ranges over all segments, T is that segment's duration, the only skip is T <= 0,
   the not-initialised guard returns 0;
R3 the coefficient member read is the one handed to the trajectory, with the same K.
"""
import sympy as sp

from ..facts import Broken, pp, loc
from .. import sym, spec
from ..sym import Interp, Unsupported, simp
from ..model import spline_model
from .common import facts_for, alg_classes, SPLINES


def run(chk):
    F = facts_for(chk)
    for short in SPLINES:
        for cls in alg_classes(F, short, ("update", "getEnergy")):
            M = spline_model(F, cls)
            if not spec.self_check(M.s):
                raise Broken("spec self-check failed for s=%d" % M.s)
            f = F.func1(cls, "getEnergy")
            chk.saw(f)
            I = Interp(F, cls)
            ret = I.run_body(f, {})
            if len(I.loops) != 1:
                raise Broken("getEnergy: expected one accumulation loop, found %d" % len(I.loops))
            L = I.loops[0]
            acc = [e for e in L.effects if e.target.startswith("$") and e.op == "+="]
            others = [e for e in L.effects if e not in acc]
            if len(acc) != 1 or others:
                raise Broken("getEnergy: loop body is not a single scalar accumulation: %s" % L.effects)
            i = L.var
            inc = M.expand_scalar(acc[0].delta)
            T = M.dur(i)
            cs = spec.coeff_atoms(M.m_coeffs, M.K * i, M.K)
            ref = spec.energy_form(cs, M.s, T)
            diff = sp.expand(inc - ref)
            got, _ = sym.collect_dots(sp.expand(inc))
            want, _ = sym.collect_dots(ref)
            for key in sorted(set(got) | set(want), key=str):
                g, w = got.get(key, 0), want.get(key, 0)
                ok = sym.is_zero(g - w)
                chk.ob("C04-R1", "%s energy term <%s|%s>" % (cls, sym.atom_str(key[0]), sym.atom_str(key[1])), ok, loc(f, {"line": acc[0].line}),
                       "code: %s ; integral of the squared %d-th derivative: %s" % (sp.sstr(g), M.s, sp.sstr(w)),
                       construct="%s/getEnergy/<%s|%s>" % (cls, sym.atom_str(key[0]), sym.atom_str(key[1])))
            chk.ob("C04-R1", "%s energy increment (whole form)" % cls, diff == 0, loc(f, {"line": acc[0].line}),
                   "difference code - reference = %s" % sp.sstr(diff)[:300], construct="%s/getEnergy/increment" % cls)
            # R2 range, duration, guards
            n = sp.Symbol(M.m_count, integer=True)
            ok_range = (L.lo == 0 and L.step == 1 and L.cond_op == "<" and L.hi == n)
            chk.ob("C04-R2", "%s energy loop covers every segment" % cls, ok_range, loc(f, {"line": L.line}),
                   "loop from %s while index %s %s, step %+d" % (L.lo, L.cond_op, L.hi, L.step), construct="%s/getEnergy/range" % cls)
            skips = L.locals.get("_skip_guards", [])
            ok_skip = True
            desc = []
            for txt, c in skips:
                c2 = M.expand_scalar(c) if isinstance(c, sp.Basic) else c
                desc.append(sp.sstr(c2))
                ok_skip = ok_skip and (c2 == sp.Le(T, 0) or c2 == (T <= 0))
            chk.ob("C04-R2", "%s only non-positive durations are skipped" % cls, ok_skip and len(skips) <= 1, loc(f, {"line": L.line}),
                   "skip guards: %s" % desc, construct="%s/getEnergy/skip" % cls)
            # the accumulator starts at 0 and is what is returned
            car = L.carried.get(acc[0].target[1:])
            ok_ret = ret is not None and car is not None and car[1] == 0 and sym.is_zero(sp.sympify(ret) - car[0] - acc[0].delta)
            chk.ob("C04-R2", "%s returns the accumulated sum starting from zero" % cls, ok_ret, loc(f), "return value = 0 + increment",
                   construct="%s/getEnergy/return" % cls)
            guards = [e for e in I.effects if e.op == "guard-return"]
            ok_g = all(e.value == 0 for e in guards) and len(guards) <= 1
            chk.ob("C04-R2", "%s early exit returns 0 only when not initialised" % cls, ok_g, loc(f),
                   "early returns: %s" % [(e.guards, e.value) for e in guards], construct="%s/getEnergy/guard" % cls)
            # R3 published rows
            used = {a[0] for k2 in got for a in k2}
            chk.ob("C04-R3", "%s energy reads the published coefficient member" % cls, used == {M.m_coeffs}, loc(f),
                   "rows read: %s; member handed to the trajectory: %s (K=%d)" % (sorted(used), M.m_coeffs, M.K), construct="%s/getEnergy/published" % cls)
    chk.floor("C04-R1", 3 + 6 + 10)
    chk.floor("C04-R2", 12)
    chk.not_decided = ["rounding ('non-negative up to rounding'); non-negativity and additivity over coordinates follow from the Gram form"]
    chk.trusted.append("sympy expand/integrate as normal-form engine; spec self-check (integration by parts, dE/dT=H, boundary terms) passed")
