"""Helpers shared by the property modules."""
from ..facts import Broken, load, walk, pp, loc
from ..effects import Effects, roots, callee, Env

SPLINES = ("CubicSplineND", "QuinticSplineND", "SepticSplineND")
ORDER_OF = {"CubicSplineND": 3, "QuinticSplineND": 5, "SepticSplineND": 7}


def facts_for(chk, wit="wit_quick.cpp", defines=()):
    F = load(chk.root, wit, defines)
    from .. import roles
    roles.canonicalise(F)          # private members are known by their role, not by their name (sa/roles.py)
    return F


def classes(F, short):
    cs = F.classes(short)
    if not cs:
        raise Broken("no instantiation of %s in the facts" % short)
    return cs


def full_classes(F, short, need=("update",)):
    """Instantiations of `short` whose members were all instantiated (explicit instantiation in the
    witness TU), recognised by the presence of the named members."""
    out = []
    for c in F.classes(short):
        names = {f["name"] for f in F.funcs(c)}
        if all(n in names for n in need):
            out.append(c)
    if not out:
        raise Broken("no full instantiation of %s in the facts" % short)
    return out


def alg_classes(F, short, need=("update",)):
    """Full instantiations used by the algebraic engine: DIM >= 2 (for DIM == 1 the N x DIM storage type
    coincides with VectorXd; DIM == 1 is covered by the parametricity rule C13-R4)."""
    # shapes must tell row blocks (r x DIM) from scalar blocks (r x r) and N x DIM arrays from the
    # N x 4 / N x 9 block storage, hence the excluded dimensions per order
    bad = {"CubicSplineND": {1}, "QuinticSplineND": {1, 2, 4}, "SepticSplineND": {1, 3, 9}}.get(short, {1})
    out = [c for c in full_classes(F, short, need) if (F.record(c).get("targs") or [0])[0] not in bad]
    if not out:
        raise Broken("no DIM>=2 instantiation of " + short)
    return out


def strip_copy(e):
    """Peel copy-constructions, casts and default-arg wrappers."""
    while isinstance(e, dict):
        k = e.get("k")
        if k == "ctor" and len(e.get("args", [])) == 1 and (e.get("copy") or callee(e).get("ns") in ("Eigen", "std")):
            e = e["args"][0]
        elif k in ("cast", "defaultarg", "defaultinit", "stdinitlist"):
            e = e["e"]
        elif k == "call" and callee(e).get("ns") == "std" and callee(e).get("name") in ("move", "forward") and e.get("args"):
            e = e["args"][0]
        else:
            break
    return e


def write_rhs(node):
    """Right-hand side of a write event node (assign / operator= / ctor-init)."""
    k = node.get("k")
    if k == "assign":
        return node["r"]
    if k == "call" and callee(node).get("op") in ("=", "+=", "-=", "*=", "/="):
        return node["args"][0] if node.get("args") else None
    if "init" in node and "field" in node:
        return node["init"]
    return None


def is_mem_of_var(e, var_id, field=None):
    e = strip_copy(e)
    if not isinstance(e, dict) or e.get("k") != "mem":
        return False
    b = e["base"]
    if not (isinstance(b, dict) and b.get("k") == "var" and b.get("id") == var_id):
        return False
    return field is None or e["field"] == field


def is_this_mem(e, field=None):
    e = strip_copy(e)
    if not isinstance(e, dict) or e.get("k") != "mem":
        return False
    if not (isinstance(e["base"], dict) and e["base"].get("k") == "this"):
        return False
    return field is None or e["field"] == field


def lit_value(e):
    e = strip_copy(e)
    if isinstance(e, dict) and e.get("k") == "initlist" and len(e.get("elems", [])) == 1:
        e = strip_copy(e["elems"][0])
    if isinstance(e, dict) and e.get("k") == "lit":
        return e["v"]
    if isinstance(e, dict) and e.get("k") == "static" and "v" in e:
        return e["v"]
    return None


def optimizer_classes(F):
    return classes(F, "SplineOptimizer")


def spline_short(cls):
    for s in SPLINES:
        if ("::" + s + "<") in cls or cls.startswith(s + "<"):
            return s
    return None


def optimizer_spline_order(F, cls):
    """ORDER of the spline type an optimizer instantiation uses (from the Workspace's spline field)."""
    ws = F.record(cls + "::Workspace")
    for f in ws["fields"]:
        if f["name"] == "spline" or spline_short(f["ty"].get("n", "")):
            s = spline_short(f["ty"].get("n", ""))
            if s:
                return ORDER_OF[s], f["ty"]["n"]
    raise Broken("cannot determine the spline type of " + cls)


def is_void_waypoints_cost(F, e):
    """the expression is an object of the (stateless) VoidWaypointsCost type: a temporary, a named local, a member"""
    e = strip_copy(e)
    seen = 0
    while isinstance(e, dict) and e.get("k") in ("cast", "conv", "paren", "copy") and e.get("e") is not None and seen < 10:
        e = e["e"]
        seen += 1
    if not isinstance(e, dict):
        return False
    names = [((e.get("t") or {}).get("n") or ""), ((e.get("ty") or {}).get("n") or ""), ((e.get("callee") or {}).get("cls") or "")]
    if not any(n.split("::")[-1] == "VoidWaypointsCost" for n in names if n):
        return False
    rec = next((r for nm, r in F.records.items() if nm.split("::")[-1] == "VoidWaypointsCost"), None)
    return rec is not None and not rec.get("fields")


def fold_if_assign(f):
    """A copy of function f in which `if (c) X = a; else X = b;` (each branch a single assignment to the same l-value) is
    rewritten as `X = c ? a : b;` - the same meaning in one expression, for rules that compare result formulas."""
    import copy

    def single_assign(st):
        if isinstance(st, dict) and st.get("k") == "block" and len(st.get("body", [])) == 1:
            st = st["body"][0]
        if isinstance(st, dict) and st.get("k") == "expr" and isinstance(st.get("e"), dict) and st["e"].get("k") == "assign" and st["e"].get("op") == "=":
            return st["e"]
        return None

    def rec(n):
        if isinstance(n, list):
            return [rec(x) for x in n]
        if not isinstance(n, dict):
            return n
        if n.get("k") == "if" and n.get("else") is not None and not n.get("constexpr") and n.get("init") is None:
            a, b = single_assign(n.get("then")), single_assign(n["else"])
            if a is not None and b is not None and pp(a["l"]) == pp(b["l"]):
                e = {"k": "assign", "op": "=", "l": copy.deepcopy(a["l"]), "line": n.get("line"),
                     "r": {"k": "cond", "c": copy.deepcopy(n["cond"]), "a": copy.deepcopy(a["r"]), "b": copy.deepcopy(b["r"]), "line": n.get("line"), "t": a["r"].get("t")}}
                for key in ("t", "lt"):
                    if key in a:
                        e[key] = a[key]
                return {"k": "expr", "e": e, "line": n.get("line")}
        return {k_: (rec(v) if isinstance(v, (dict, list)) and k_ not in ("t", "ty", "lt", "to", "callee") else v) for k_, v in n.items()}
    g = dict(f)
    g["body"] = rec(f.get("body"))
    return g


def inline_bool_predicates(F, f, same_class_only=True, depth=0):
    """A copy of function f in which a call of a boolean helper whose body is a chain of `if (c) return <literal>;` ending in
    `return <expr>;` (locals initialised once, `if constexpr` resolved) is replaced by the equivalent boolean expression
    over the caller's arguments.  Rules that collect rejection conditions then see the tests themselves."""
    import copy
    BOOL = {"c": "bool"}

    def lit_bool(e):
        e = strip_copy(e)
        if isinstance(e, dict) and e.get("k") == "lit" and str(e.get("v")) in ("true", "false", "1", "0") and (e.get("lt") in ("bool",) or str(e.get("v")) in ("true", "false")):
            return str(e["v"]) in ("true", "1")
        return None

    def subst(e, env):
        if isinstance(e, list):
            return [subst(x, env) for x in e]
        if not isinstance(e, dict):
            return e
        if e.get("k") == "var" and e.get("id") in env:
            return copy.deepcopy(env[e["id"]])
        return {k_: (subst(v, env) if isinstance(v, (dict, list)) and k_ not in ("t", "ty", "lt", "to", "callee") else v) for k_, v in e.items()}

    def NOT(x):
        return {"k": "un", "op": "!", "e": x, "t": BOOL}

    def BIN(op, a, b):
        return {"k": "bin", "op": op, "l": a, "r": b, "t": BOOL, "lt": BOOL}

    def pred_expr(g, args):
        """boolean expression equivalent to g(args), or None when g is not of the supported form"""
        if g.get("body") is None or (g.get("ret") or {}).get("c") not in (None, "bool"):
            return None
        env = {p_["id"]: a_ for p_, a_ in zip(g["params"], args)}
        stmts = list(g["body"].get("body", []))
        flat = []

        def flatten(sts):
            for st in sts:
                if isinstance(st, dict) and st.get("k") == "block":
                    flatten(st.get("body", []))
                elif isinstance(st, dict) and st.get("k") == "if" and st.get("constexpr") and st.get("taken"):
                    br = st.get(st["taken"])
                    if br is not None:
                        flatten([br])
                else:
                    flat.append(st)
        flatten(stmts)
        chain = []
        final = None
        for st in flat:
            if not isinstance(st, dict):
                return None
            k = st.get("k")
            if k == "null":
                continue
            if k == "decl" and st.get("init") is not None and st.get("bind") != "alias":
                env[st["id"]] = subst(st["init"], env)
                continue
            if k == "if" and st.get("else") is None and not st.get("constexpr") and st.get("init") is None:
                th = st["then"]
                while isinstance(th, dict) and th.get("k") == "block" and len(th.get("body", [])) == 1:
                    th = th["body"][0]
                if not (isinstance(th, dict) and th.get("k") == "return" and th.get("e") is not None):
                    return None
                lv = lit_bool(th["e"])
                if lv is None:
                    return None
                chain.append((subst(st["cond"], env), lv))
                continue
            if k == "return" and st.get("e") is not None:
                final = subst(st["e"], env)
                break
            return None
        if final is None:
            return None
        expr = final
        fl = lit_bool(final)
        for c, lv in reversed(chain):
            if lv:      # c ? true : expr
                expr = c if fl is False else ({"k": "lit", "v": "true", "lt": "bool", "t": BOOL} if fl is True else BIN("||", c, expr))
            else:       # c ? false : expr
                expr = NOT(c) if fl is True else ({"k": "lit", "v": "false", "lt": "bool", "t": BOOL} if fl is False else BIN("&&", NOT(c), expr))
            fl = lit_bool(expr)
        return expr

    def rec(n):
        if isinstance(n, list):
            return [rec(x) for x in n]
        if not isinstance(n, dict):
            return n
        if n.get("k") == "call" and (n.get("callee") or {}).get("repo") and ((n.get("t") or {}).get("c") == "bool"):
            g = F.by_fid.get(n["callee"].get("fid"))
            if g is not None and g["fid"] != f["fid"] and (not same_class_only or g.get("cls") == f.get("cls")) and (n.get("obj") is None or (n["obj"] or {}).get("k") == "this") and depth < 4:
                g2 = inline_bool_predicates(F, g, same_class_only, depth + 1)
                ex = pred_expr(g2, [rec(a) for a in n.get("args", [])])
                if ex is not None:
                    return ex
        return {k_: (rec(v) if isinstance(v, (dict, list)) and k_ not in ("t", "ty", "lt", "to", "callee") else v) for k_, v in n.items()}
    g = dict(f)
    g["body"] = rec(f.get("body"))
    return g


def inline_expr_helpers(F, f, keep=(), depth=0):
    """A copy of function f in which a call of a small private helper of the same class whose body is `[const locals;]
    return <expr>;` is replaced by that expression over the caller's arguments (keep: fids never inlined - the routines
    the rules are about).  Canonical-form rules then see through such wrappers."""
    import copy

    def subst(e, env):
        if isinstance(e, list):
            return [subst(x, env) for x in e]
        if not isinstance(e, dict):
            return e
        if e.get("k") == "var" and e.get("id") in env:
            return copy.deepcopy(env[e["id"]])
        return {k_: (subst(v, env) if isinstance(v, (dict, list)) and k_ not in ("t", "ty", "lt", "to", "callee") else v) for k_, v in e.items()}

    def body_expr(g, args):
        if g.get("body") is None or len(g["params"]) != len(args):
            return None
        env = {p_["id"]: a_ for p_, a_ in zip(g["params"], args)}
        for st in g["body"].get("body", []):
            k = st.get("k") if isinstance(st, dict) else None
            if k == "null":
                continue
            if k == "decl" and st.get("init") is not None and st.get("bind") != "alias" and (st.get("ty") or {}).get("c") in ("int", "double", "bool"):
                env[st["id"]] = subst(st["init"], env)
                continue
            if k == "return" and st.get("e") is not None:
                return subst(st["e"], env)
            return None
        return None

    def pure_args(args):
        # an argument used more than once is duplicated: only side-effect free arguments (no assignment, no ++/--)
        return not any(x.get("k") == "assign" or (x.get("k") == "un" and x.get("op") in ("++", "--")) for a in args for x in walk(a))

    def rec(n):
        if isinstance(n, list):
            return [rec(x) for x in n]
        if not isinstance(n, dict):
            return n
        if n.get("k") == "call" and (n.get("callee") or {}).get("repo") and n["callee"].get("fid") not in keep:
            g = F.by_fid.get(n["callee"].get("fid"))
            if g is not None and g["fid"] != f["fid"] and g.get("cls") == f.get("cls") and (n.get("obj") is None or (n["obj"] or {}).get("k") == "this") and depth < 4 and g.get("kind") in (None, "method"):
                args = [rec(a) for a in n.get("args", [])]
                if pure_args(args):
                    ex = body_expr(inline_expr_helpers(F, g, keep, depth + 1), args)
                    if ex is not None:
                        return ex
        return {k_: (rec(v) if isinstance(v, (dict, list)) and k_ not in ("t", "ty", "lt", "to", "callee") else v) for k_, v in n.items()}
    g = dict(f)
    g["body"] = rec(f.get("body"))
    return g


def inline_value_lambdas(f):
    """A copy of function f in which a call of a local lambda whose body is `[const locals;] return <expr>;` is replaced by
    that expression over the call's arguments (captures are the enclosing function's own variables and stay as they are).
    Statement lambdas (no value returned) are left alone."""
    import copy
    lambdas = {}
    for n in walk(f.get("body")):
        if n.get("k") == "decl" and isinstance(n.get("init"), dict) and n["init"].get("k") == "lambda":
            lambdas[n["id"]] = n["init"]

    def subst(e, env):
        if isinstance(e, list):
            return [subst(x, env) for x in e]
        if not isinstance(e, dict):
            return e
        if e.get("k") == "var" and e.get("id") in env:
            return copy.deepcopy(env[e["id"]])
        return {k_: (subst(v, env) if isinstance(v, (dict, list)) and k_ not in ("t", "ty", "lt", "to", "callee") else v) for k_, v in e.items()}

    def body_expr(sp_, args):
        ps = sp_.get("params", [])
        b = sp_.get("body")
        if b is None or len(ps) != len(args):
            return None
        env = {p_["id"]: a_ for p_, a_ in zip(ps, args)}
        for st in (b.get("body", []) if b.get("k") == "block" else [b]):
            k = st.get("k") if isinstance(st, dict) else None
            if k == "null":
                continue
            if k == "decl" and st.get("init") is not None and st.get("bind") != "alias" and (st.get("ty") or {}).get("c") in ("int", "double", "bool"):
                env[st["id"]] = subst(st["init"], env)
                continue
            if k == "return" and st.get("e") is not None:
                return subst(st["e"], env)
            return None
        return None

    def rec(n, depth=0):
        if isinstance(n, list):
            return [rec(x, depth) for x in n]
        if not isinstance(n, dict):
            return n
        if n.get("k") == "call" and (n.get("callee") or {}).get("op") == "()" and isinstance(n.get("obj"), dict) and depth < 4:
            o = strip_copy(n["obj"])
            lam = lambdas.get(o.get("id")) if isinstance(o, dict) and o.get("k") == "var" else None
            if lam is not None:
                specs = [sp_ for sp_ in lam.get("specs", []) if sp_.get("fid") == n["callee"].get("fid")] or (lam.get("specs", []) if len(lam.get("specs", [])) == 1 else [])
                if len(specs) == 1:
                    ex = body_expr(specs[0], [rec(a, depth) for a in n.get("args", [])])
                    if ex is not None:
                        return rec(ex, depth + 1)
        return {k_: (rec(v, depth) if isinstance(v, (dict, list)) and k_ not in ("t", "ty", "lt", "to", "callee") else v) for k_, v in n.items()}
    g = dict(f)
    g["body"] = rec(f.get("body"))
    return g


def workspace_spline_field(F, wsrec):
    """(name, type name) of the workspace member that is the spline itself: the one whose type is a spline class"""
    cands = [x for x in F.record(wsrec)["fields"] if x["ty"].get("c") == "record" and (x["ty"].get("n") or "").count("::") == 1
             and any((x["ty"].get("n") or "").startswith("SplineTrajectory::" + s_ + "<") for s_ in SPLINES) and (x["ty"].get("n") or "").endswith(">")]
    if len(cands) != 1:
        raise Broken("workspace spline member not identified in %s (%s)" % (wsrec, [x["name"] for x in cands]))
    return cands[0]["name"], cands[0]["ty"]["n"]
