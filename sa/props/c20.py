"""C20 - sampling, arc-length and factory helpers honour their contracts (DESIGN s6 C20, level 'other').

Only the structural clauses are decided: R1 sequence construction formula and the end-append rule,
R2 left-Riemann formula with actual widths, R3 batch = pointwise (C03-R1), R4 factory coefficient construction.
The floating-point clauses (floor rounding near exact multiples, overflow of the step count, the
discretisation-error bound) need value reasoning and are listed as not decided.
"""
from ..facts import Broken, pp, loc, walk
from ..effects import callee
from .. import preds
from ..preds import Scope, canon
from .common import facts_for, full_classes, strip_copy, lit_value

LEVEL = "other"


def stmts(f):
    return f["body"]["body"]


def scope_all(f, skip=()):
    sc = Scope(f)
    for n in walk(f["body"]):
        if n.get("k") == "decl" and n["name"] not in skip and n["ty"].get("c") in ("int", "double", "bool"):
            sc.bind_local(n)
    return sc


def sequence_rule(F, cls, g3):
    """generateTimeSequence(start, end, dt) interpreted (Engine A) on every path of its data tests.
    Returns {"elements": (ok, detail), "append": (ok, detail), "return": (ok, detail)}."""
    import sympy as sp
    from .. import sym, paths
    from ..sym import Interp, Unsupported, Container
    ps = [sp.Symbol(p_["name"], real=True) for p_ in g3["params"]]
    start, end, dt = ps

    def run(oracle):
        I = Interp(F, cls)
        I.opaque_conditions = True
        I.path_oracle = oracle
        env = {p_["id"]: v for p_, v in zip(g3["params"], ps)}
        try:
            ret = I.run_body(g3, env)
        except Unsupported as ex:
            raise Broken("generateTimeSequence not analysable: %s" % ex)
        return I, ret
    res = paths.explore(run)
    ok_el, ok_ap, ok_ret = True, True, True
    d_el, d_ap = "", []
    for assign, (I, ret) in res:
        if not isinstance(ret, Container):
            raise Broken("generateTimeSequence does not return a sequence object")
        name = ret.name
        loops = [L for L in I.loops if any(e.target == name for e in L.effects)]
        if len(loops) != 1 or len(I.loops) != 1:
            raise Broken("generateTimeSequence: expected one loop filling the sequence, found %d" % len(loops))
        L = loops[0]
        pe = [e for e in L.effects if e.target == name]
        if len(pe) != 1 or pe[0].op != "push_back" or L.step != 1 or L.cond_op not in ("<", "<=") or L.hi is None:
            raise Broken("generateTimeSequence: the filling loop has a shape this rule does not understand")
        trip = sp.expand(L.hi + 1 - L.lo) if L.cond_op == "<=" else sp.expand(L.hi - L.lo)
        v = sp.sympify(pe[0].value)
        carried = any(str(x).startswith("$") for x in v.free_symbols)
        # element k of the sequence (k = i - lo) is start + k * dt, computed from the index (no running sum)
        ok_el = ok_el and (not carried) and sym.is_zero(v.subs(L.var, L.var + L.lo) - (start + L.var * dt)) and sym.is_zero(trip - (sp.floor((end - start) / dt) + 1))
        d_el = "element i = %s for i = %s .. %s%s" % (sp.sstr(v), L.lo, L.hi, "" if L.cond_op == "<=" else " (exclusive)")
        tail = [e for e in I.effects if e.target == name and e.op == "push_back"]
        pushed = len(tail) == 1 and sym.is_zero(sp.sympify(tail[0].value) - end)
        if len(tail) > 1:
            ok_ap = False
        empty = far = False
        for k, val in assign.items():
            k = sp.sympify(k)
            txt = sp.sstr(k)
            if isinstance(k, sp.Eq) and ".size" in txt and (k.rhs == 0 or k.lhs == 0):
                empty = bool(val)
            elif k.has(sp.Abs) and isinstance(k, (sp.StrictGreaterThan, sp.StrictLessThan)):
                # |last - end| compared with 1e-6, in the canonical orientation of the proposition
                diff = sp.expand(k.lhs - k.rhs) if isinstance(k, sp.StrictGreaterThan) else sp.expand(k.rhs - k.lhs)
                # the distance |last element - end| against a threshold: recognise the distance, then compare the threshold
                dist = [a for a in diff.atoms(sp.Abs) if len(a.args[0].atoms(sp.Indexed)) == 1]
                good = len(dist) == 1
                if good:
                    inner = dist[0].args[0]
                    lastel = list(inner.atoms(sp.Indexed))
                    good = (sym.is_zero(inner - (lastel[0] - end)) or sym.is_zero(inner + (lastel[0] - end))) and ".size - 1" in sp.sstr(lastel[0].indices[0]) \
                        and sym.is_zero(diff.coeff(dist[0]) - 1) and not (diff - dist[0]).has(dist[0])
                if not good:
                    raise Broken("generateTimeSequence: unrecognised test %s" % txt)
                thr = sp.expand(dist[0] - diff)
                if not sym.is_zero(thr - sp.Rational(1, 10 ** 6)):
                    ok_ap = False
                    d_ap.append("distance to the end compared with %s instead of 1e-6" % sp.sstr(thr))
                far = bool(val)
            else:
                raise Broken("generateTimeSequence: unrecognised test %s" % txt)
        ok_ap = ok_ap and (pushed == (empty or far)) and (len(tail) == 0 or pushed)
        d_ap.append("empty=%s far=%s -> %s" % (empty, far, "end appended" if pushed else ("nothing appended" if not tail else "appends %s" % [str(e.value) for e in tail])))
    return {"elements": (bool(ok_el), d_el), "append": (bool(ok_ap) and len(res) >= 2, "; ".join(sorted(set(d_ap)))), "return": (True, "")}


def length_rule(F, cls, l3, g3):
    """getTrajectoryLength(start, end, dt) interpreted with generateTimeSequence() and evaluate() as opaque operations:
    the result is sum_j |evaluate(seq[j], 1)| * (seq[j+1] - seq[j]) over j = 0 .. size-2, whatever locals carry the samples."""
    import sympy as sp
    from .. import sym, paths
    from ..sym import Interp, Unsupported, Container, Vec
    ps = [sp.Symbol(p_["name"], real=True) for p_ in l3["params"]]
    seen = {"seq_args": [], "evals": []}

    def hook(c, e, env, I):
        if c.get("cls") == cls and c.get("name") == "generateTimeSequence":
            seen["seq_args"].append([I.ev(a, env) for a in e["args"]])
            v = I.make_value("SEQ", e.get("t") or {"c": "record", "std": "vector", "n": "std::vector<double>", "elem": {"c": "double"}})
            if not isinstance(v, Container):
                raise Unsupported("sequence value")
            v.size = sp.Symbol("SEQ.size", integer=True, positive=True)
            return v
        if c.get("cls") == cls and c.get("name") == "evaluate" and len(e.get("args", [])) == 2:
            t_ = I.ev(e["args"][0], env)
            o_ = I.ev(e["args"][1], env)
            seen["evals"].append((t_, o_))
            return Vec.atom(("EVAL", sp.sympify(t_), sp.sympify(o_)))
        return NotImplemented

    def run(oracle):
        seen["seq_args"], seen["evals"] = [], []
        I = Interp(F, cls, on_call=hook)
        I.opaque_conditions = True
        I.path_oracle = oracle
        env = {p_["id"]: v for p_, v in zip(l3["params"], ps)}
        try:
            ret = I.run_body(l3, env)
        except Unsupported as ex:
            raise Broken("getTrajectoryLength not analysable: %s" % ex)
        return I, ret, list(seen["seq_args"])
    res = paths.explore(run)
    ok_seq, ok_sum, ok_ret = True, True, True
    det = ""
    nmain = 0
    for assign, (I, ret, seq_args) in res:
        ok_seq = ok_seq and len(seq_args) == 1 and len(seq_args[0]) == 3 and all(sym.is_zero(sp.sympify(a) - b) for a, b in zip(seq_args[0], ps))
        size = sp.Symbol("SEQ.size", integer=True, positive=True)
        short = any(bool(v) and sp.sympify(k).has(size) and sp.simplify(sp.sympify(k).subs(size, 1)) == sp.true and sp.simplify(sp.sympify(k).subs(size, 2)) == sp.false for k, v in assign.items())
        if short:
            # fewer than two samples: no interval, the length is zero
            ok_ret = ok_ret and ret is not None and sym.is_zero(sp.sympify(ret))
            continue
        nmain += 1
        accs = [(L, nm, c_) for L in I.loops for nm, c_ in L.carried.items() if any(e.target == "$" + nm and e.op == "+=" for e in L.effects)]
        if len(accs) != 1:
            raise Broken("getTrajectoryLength: the summation loop was not identified")
        L, nm, (symc, init) = accs[0]
        upd = [e for e in L.effects if e.target == "$" + nm]
        # after the loop the local holds "the accumulator" (the interpreter writes it as value-at-start + the summand)
        ok_ret = ok_ret and isinstance(ret, sp.Basic) and len(upd) == 1 and (ret == symc or sym.is_zero(ret - symc - sp.sympify(upd[0].delta))) and sym.is_zero(sp.sympify(init))
        if len(upd) != 1 or L.step != 1 or L.cond_op not in ("<", "<=") or L.hi is None:
            raise Broken("getTrajectoryLength: the summation loop has a shape this rule does not understand")
        delta = sp.sympify(upd[0].delta)
        # locals that carry a sample to the next iteration (x = f(i) at the end of the body): at the start of iteration i
        # they hold f(i - 1), provided they were initialised with f(lo - 1)
        for nm2, (sym2, init2) in L.carried.items():
            if nm2 == nm:
                continue
            as2 = [e for e in L.effects if e.target == "$" + nm2]
            if len(as2) != 1 or as2[0].op != "=" or any(str(x).startswith("$") for x in sp.sympify(as2[0].value).free_symbols):
                raise Broken("getTrajectoryLength: loop-carried local %s is not a plain hand-over of a sample" % nm2)
            f_ = sp.sympify(as2[0].value)
            if not sym.is_zero(sp.sympify(init2) - f_.subs(L.var, L.lo - 1)):
                raise Broken("getTrajectoryLength: loop-carried local %s does not start as the previous sample" % nm2)
            prev = f_.subs(L.var, L.var - 1)
            delta = delta.xreplace({sym2: prev})
            seen_e = [(sp.sympify(t_).xreplace({sym2: prev}), o_) for t_, o_ in seen["evals"]]
        ev = [a for a in delta.atoms(sp.Symbol) if False]
        # the sample the velocity is taken at
        dots = sym.dots_in(delta)
        tj = None
        for s_, (a_, b_) in dots.items():
            if a_[0] == "EVAL" and b_ == a_:
                tj = sp.sympify(a_[1])
                for nm2, (sym2, init2) in L.carried.items():
                    if nm2 != nm:
                        as2 = [e for e in L.effects if e.target == "$" + nm2]
                        tj = tj.xreplace({sym2: sp.sympify(as2[0].value).subs(L.var, L.var - 1)})
                order = a_[2]
                atom = a_
        if tj is None or not isinstance(tj, sp.Indexed):
            raise Broken("getTrajectoryLength: the velocity sample of the summand was not identified")
        j = tj.indices[0]
        seqb = tj.base
        v = Vec.atom(atom)
        want = sp.sqrt(sym.vdot(v, v)) * (seqb[j + 1] - seqb[j])
        c_ = sp.expand(j - L.var)
        last_excl = L.hi + 1 if L.cond_op == "<=" else L.hi
        ok_sum = ok_sum and sym.is_zero(delta - want) and str(order) == "1" and c_.is_Integer and sym.is_zero(L.lo + c_) and sym.is_zero(sp.expand(last_excl + c_ - (size - 1)))
        det = "summand %s for %s = %s .. %s (exclusive); velocity at seq[%s]" % (sp.sstr(delta)[:160], L.var, L.lo, last_excl, j)
    if nmain == 0:
        raise Broken("getTrajectoryLength: no path with at least two samples")
    return {"sequence": (bool(ok_seq), ""), "riemann": (bool(ok_sum), det), "return": (bool(ok_ret), "")}


def run(chk):
    F = facts_for(chk)
    for cls in full_classes(F, "PPolyND", ("update", "derivative", "findSegment")):
        gts = F.funcs(cls, "generateTimeSequence")
        g3 = next(f for f in gts if len(f["params"]) == 3)
        g1 = next(f for f in gts if len(f["params"]) == 1)
        chk.saw(g3)
        sr = sequence_rule(F, cls, g3)
        chk.ob("C20-R1", "%s time sequence: element i = start + i*dt for i = 0..floor((end-start)/dt) (no accumulation of dt)" % cls, sr["elements"][0], loc(g3), sr["elements"][1], construct=cls + "/sequence/elements")
        chk.ob("C20-R1", "%s the end is appended iff the sequence is empty or its last element is more than 1e-6 away from it" % cls, sr["append"][0], loc(g3), sr["append"][1], construct=cls + "/sequence/append")
        chk.ob("C20-R1", "%s the sequence is returned (never empty: the append rule fires on an empty sequence)" % cls, sr["return"][0], loc(g3), "", construct=cls + "/sequence/return")
        r1 = [n for n in walk(g1["body"]) if n.get("k") == "return"]
        ok = len(r1) == 1 and canon(r1[0]["e"], Scope(g1)) == "this.generateTimeSequence(this.getStartTime(),this.getEndTime(),$p0)" and callee(strip_copy(r1[0]["e"])).get("fid") == g3["fid"]
        chk.ob("C20-R1", "%s one-argument form samples the trajectory's own range" % cls, ok, loc(g1), "", construct=cls + "/sequence/one-arg")
        for nm, want in (("getStartTime", "(this.breakpoints_.empty() ? 0 : this.breakpoints_.front())"), ("getEndTime", "(this.breakpoints_.empty() ? 0 : this.breakpoints_.back())")):
            g = F.func1(cls, nm)
            r = [n for n in walk(g["body"]) if n.get("k") == "return"]
            chk.ob("C20-R1", "%s::%s is the first / last breakpoint" % (cls, nm), len(r) == 1 and canon(r[0]["e"], Scope(g)) == want, loc(g), "", construct="%s/%s" % (cls, nm))
        # ---- R2 length --------------------------------------------------------------------------------------
        gl = F.funcs(cls, "getTrajectoryLength")
        l3 = next(f for f in gl if len(f["params"]) == 3)
        l1 = next(f for f in gl if len(f["params"]) == 1)
        chk.saw(l3)
        lr = length_rule(F, cls, l3, g3)
        chk.ob("C20-R2", "%s length integrates over generateTimeSequence(start, end, dt)" % cls, lr["sequence"][0], loc(l3), lr["sequence"][1], construct=cls + "/length/sequence")
        chk.ob("C20-R2", "%s length = sum over consecutive samples of |velocity(t_i)| * (t_{i+1} - t_i) (left endpoint, actual widths)" % cls, lr["riemann"][0], loc(l3), lr["riemann"][1], construct=cls + "/length/riemann")
        chk.ob("C20-R2", "%s length returns the accumulated sum" % cls, lr["return"][0], loc(l3), "", construct=cls + "/length/return")
        r1 = [n for n in walk(l1["body"]) if n.get("k") == "return"]
        ok = len(r1) == 1 and canon(r1[0]["e"], Scope(l1)) == "this.getTrajectoryLength(this.getStartTime(),this.getEndTime(),$p0)" and callee(strip_copy(r1[0]["e"])).get("fid") == l3["fid"]
        chk.ob("C20-R2", "%s one-argument length uses the trajectory's own range" % cls, ok, loc(l1), "", construct=cls + "/length/one-arg")
        # the velocity evaluation is the Deriv overload with Vel == 1 -> integer overload (C03-R1)
        # ---- R4 factories ------------------------------------------------------------------------------------
        dim = F.record(cls)["targs"][0]
        z = F.func1(cls, "zero")
        chk.saw(z)
        sc = Scope(z)
        for n in walk(z["body"]):
            if n.get("k") == "decl" and n["ty"].get("c") == "int":
                sc.bind_local(n)
        nseg = "(($p0.size() > 1) ? ($p0.size() - 1) : 0)"
        md = next(s for s in stmts(z) if s.get("k") == "decl" and s["ty"].get("c") == "eigen")
        okz = canon(md["init"], sc) in ("Zero(%s,%d)" % (preds.cbin("*", nseg, "$p1"), dim), "Zero(%s,%d)" % ("(%s * $p1)" % nseg, dim), "Zero(%s,%d)" % ("($p1 * %s)" % nseg, dim))
        sc.bind_opaque(md["id"], "%coeffs")
        r = [n for n in walk(z["body"]) if n.get("k") == "return"]
        okr = len(r) == 1 and strip_copy(r[0]["e"]).get("k") == "ctor" and [canon(a, sc) for a in strip_copy(r[0]["e"])["args"]] == ["$p0", "%coeffs", "$p1"]
        chk.ob("C20-R4", "%s::zero = all-zero coefficients (segments*count rows) on the given breakpoints with the given count" % cls, okz and okr, loc(z), canon(md["init"], sc), construct=cls + "/zero")
        c = F.func1(cls, "constant")
        chk.saw(c)
        sc = Scope(c)
        for n in walk(c["body"]):
            if n.get("k") == "decl" and n["ty"].get("c") == "int":
                sc.bind_local(n)
        md = next(s for s in stmts(c) if s.get("k") == "decl" and s["ty"].get("c") == "eigen")
        okz = canon(md["init"], sc) == "Zero(%s,%d)" % (nseg, dim)
        sc.bind_opaque(md["id"], "%coeffs")
        lp = next(s for s in stmts(c) if s.get("k") == "for")
        sc.bind_opaque(lp["init"]["id"], "%i")
        p, t = preds.literal(lp["cond"], sc)
        body = lp["body"]["body"] if lp["body"].get("k") == "block" else [lp["body"]]
        asg = canon(body[0]["e"], sc) if len(body) == 1 and body[0].get("k") == "expr" else ""
        okl = lit_value(lp["init"].get("init")) == "0" and (p, t) == (True, "%%i < %s" % nseg) and asg == "(%coeffs.row(%i) = $p1.transpose())"
        r = [n for n in walk(c["body"]) if n.get("k") == "return"]
        okr = len(r) == 1 and strip_copy(r[0]["e"]).get("k") == "ctor" and [canon(a, sc) for a in strip_copy(r[0]["e"])["args"]] == ["$p0", "%coeffs", "1"]
        chk.ob("C20-R4", "%s::constant = one coefficient row per segment equal to the value, coefficient count 1, on the given breakpoints" % cls, okz and okl and okr, loc(c), asg, construct=cls + "/constant")
        # batch = pointwise: the batch route's obligation of C03-R1, re-derived here on the current tree
        from .. import core
        from . import c03
        sub = core.Check("C03", chk.tier, chk.root)
        c03.check_funnel(sub, F, cls)
        bo = [o for o in sub.obs if o["construct"].endswith("/batch")]
        if len(bo) != 1:
            raise Broken("batch-evaluation obligation of C03-R1 not found for " + cls)
        chk.ob("C20-R3", "%s batch evaluation = pointwise evaluation of each time, in order" % cls, bo[0]["ok"], bo[0]["where"], bo[0].get("detail", ""), construct=cls + "/batch")
    chk.floor("C20-R1", 20)
    chk.floor("C20-R2", 16)
    chk.floor("C20-R4", 8)
    chk.not_decided = ["whether the floating-point floor() puts a sample beyond the end or drops one when dt nearly divides the interval",
                       "overflow of the int step count for tiny dt", "the discretisation-error bound of the arc length (a numerical-analysis fact about left Riemann sums)",
                       "strict monotonicity of the samples in floating point"]
    chk.explanation = ("structural clauses of the helpers decided from the resolved AST (sequence formula, append rule, left-Riemann formula, factories); "
                       "value-dependent clauses are listed under not_decided and are the reason the level is 'other'")
