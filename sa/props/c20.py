"""C20 - sampling, arc-length and factory helpers honour their contracts (DESIGN s6 C20, level 'other').

Only the structural clauses are decided: R1 sequence construction formula and the end-append rule,
R2 left-Riemann formula with actual widths, R3 batch = pointwise (C03-R1), R4 factory coefficient construction.
The floating-point clauses (floor rounding near exact multiples, overflow of the step count, the
discretisation-error bound) need value reasoning and are listed as not decided.
"""
from ..facts import Broken, pp, loc, walk
from ..effects import callee
from .. import preds
from ..preds import Scope, canon
from .common import facts_for, full_classes, strip_copy, lit_value

LEVEL = "other"


def stmts(f):
    return f["body"]["body"]


def scope_all(f, skip=()):
    sc = Scope(f)
    for n in walk(f["body"]):
        if n.get("k") == "decl" and n["name"] not in skip and n["ty"].get("c") in ("int", "double", "bool"):
            sc.bind_local(n)
    return sc


def run(chk):
    F = facts_for(chk)
    for cls in full_classes(F, "PPolyND", ("update", "derivative", "findSegment")):
        gts = F.funcs(cls, "generateTimeSequence")
        g3 = next(f for f in gts if len(f["params"]) == 3)
        g1 = next(f for f in gts if len(f["params"]) == 1)
        chk.saw(g3)
        sc = scope_all(g3)
        seqd = next(s for s in stmts(g3) if s.get("k") == "decl" and s["ty"].get("std") == "vector")
        sc.bind_opaque(seqd["id"], "%seq")
        loops = [s for s in stmts(g3) if s.get("k") == "for"]
        if len(loops) != 1 or len([s for s in stmts(g3) if s.get("k") == "if"]) != 1:
            raise Broken("generateTimeSequence no longer has the shape 'one counting loop + one conditional append' this rule understands")
        ok = True
        det = ""
        if ok:
            lp = loops[0]
            sc.bind_opaque(lp["init"]["id"], "%i")
            p, t = preds.literal(lp["cond"], sc)
            steps = "floor((($p1 - $p0) / $p2))"
            body = lp["body"]["body"] if lp["body"].get("k") == "block" else [lp["body"]]
            pb = body[0]["e"] if len(body) == 1 and body[0].get("k") == "expr" else {}
            val = canon(pb["args"][0], sc) if pb.get("k") == "call" and callee(pb).get("name") == "push_back" else None
            ok = (lit_value(lp["init"].get("init")) == "0" and (p, t) == (False, "%s < %%i" % steps) and lp["inc"].get("k") == "un" and lp["inc"]["op"] == "++"
                  and val == preds.cbin("+", "$p0", preds.cbin("*", "$p2", "%i")) and canon(pb["obj"], sc) == "%seq")
            det = "for i = 0; not(%s); ++i: push %s" % (t, val)
        chk.ob("C20-R1", "%s time sequence: element i = start + i*dt for i = 0..floor((end-start)/dt) (no accumulation of dt)" % cls, ok, loc(g3), det, construct=cls + "/sequence/elements")
        ifs = [s for s in stmts(g3) if s.get("k") == "if"]
        ok = len(ifs) == 1 and stmts(g3).index(ifs[0]) > stmts(g3).index(loops[0]) if loops else False
        det = ""
        if ok:
            c = canon(ifs[0]["cond"], sc)
            want1 = "(%seq.empty() || (abs((%seq.back() - $p1)) > 1e-06))"
            th = ifs[0]["then"]["body"] if ifs[0]["then"].get("k") == "block" else [ifs[0]["then"]]
            pb = th[0]["e"] if len(th) == 1 and th[0].get("k") == "expr" else {}
            ok = c in (want1, want1.replace("(abs((%seq.back() - $p1)) > 1e-06)", "(1e-06 < abs((%seq.back() - $p1)))")) and ifs[0].get("else") is None \
                and pb.get("k") == "call" and callee(pb).get("name") == "push_back" and canon(pb["args"][0], sc) == "$p1" and canon(pb["obj"], sc) == "%seq"
            det = c
        chk.ob("C20-R1", "%s the end is appended iff the sequence is empty or its last element is more than 1e-6 away from it" % cls, ok, loc(g3), det, construct=cls + "/sequence/append")
        rets = [n for n in walk(g3["body"]) if n.get("k") == "return"]
        chk.ob("C20-R1", "%s the sequence is returned (never empty: the append rule fires on an empty sequence)" % cls, len(rets) == 1 and canon(rets[0]["e"], sc) == "%seq", loc(g3), "",
               construct=cls + "/sequence/return")
        r1 = [n for n in walk(g1["body"]) if n.get("k") == "return"]
        ok = len(r1) == 1 and canon(r1[0]["e"], Scope(g1)) == "this.generateTimeSequence(this.getStartTime(),this.getEndTime(),$p0)" and callee(strip_copy(r1[0]["e"])).get("fid") == g3["fid"]
        chk.ob("C20-R1", "%s one-argument form samples the trajectory's own range" % cls, ok, loc(g1), "", construct=cls + "/sequence/one-arg")
        for nm, want in (("getStartTime", "(this.breakpoints_.empty() ? 0 : this.breakpoints_.front())"), ("getEndTime", "(this.breakpoints_.empty() ? 0 : this.breakpoints_.back())")):
            g = F.func1(cls, nm)
            r = [n for n in walk(g["body"]) if n.get("k") == "return"]
            chk.ob("C20-R1", "%s::%s is the first / last breakpoint" % (cls, nm), len(r) == 1 and canon(r[0]["e"], Scope(g)) == want, loc(g), "", construct="%s/%s" % (cls, nm))
        # ---- R2 length --------------------------------------------------------------------------------------
        gl = F.funcs(cls, "getTrajectoryLength")
        l3 = next(f for f in gl if len(f["params"]) == 3)
        l1 = next(f for f in gl if len(f["params"]) == 1)
        chk.saw(l3)
        sc = Scope(l3)
        seqd = next(s for s in stmts(l3) if s.get("k") == "decl" and s["ty"].get("std") == "vector")
        oki = canon(seqd["init"], sc) == "this.generateTimeSequence($p0,$p1,$p2)"
        chk.ob("C20-R2", "%s length integrates over generateTimeSequence(start, end, dt)" % cls, oki, loc(l3), canon(seqd["init"], sc), construct=cls + "/length/sequence")
        sc.bind_opaque(seqd["id"], "%seq")
        accd = next(s for s in stmts(l3) if s.get("k") == "decl" and s["ty"].get("c") == "double")
        sc.bind_opaque(accd["id"], "%total")
        lp = next(s for s in stmts(l3) if s.get("k") == "for")
        sc.bind_opaque(lp["init"]["id"], "%i")
        for n in walk(lp["body"]):
            if n.get("k") == "decl":
                sc.bind_local(n)
        p, t = preds.literal(lp["cond"], sc)
        body = lp["body"]["body"]
        upd = [s for s in body if s.get("k") == "expr"]
        nxt = preds.cbin("+", "%i", "1")
        want = "(%%total += (%s))" % None
        got = canon(upd[-1]["e"], sc) if upd else ""
        w1 = "(%%total += (this.evaluate(%%seq[%%i],1).norm() * (%%seq[%s] - %%seq[%%i])))" % nxt
        w2 = "(%%total += ((%%seq[%s] - %%seq[%%i]) * this.evaluate(%%seq[%%i],1).norm()))" % nxt
        okl = lit_value(lp["init"].get("init")) == "0" and (p, t) == (True, "%i < (%seq.size() - 1)") and got in (w1, w2) and float(lit_value(accd.get("init")) or "1") == 0.0
        chk.ob("C20-R2", "%s length = sum over consecutive samples of |velocity(t_i)| * (t_{i+1} - t_i) (left endpoint, actual widths)" % cls, okl, loc(l3, lp), got, construct=cls + "/length/riemann")
        rets = [n for n in walk(l3["body"]) if n.get("k") == "return"]
        chk.ob("C20-R2", "%s length returns the accumulated sum" % cls, len(rets) == 1 and canon(rets[0]["e"], sc) == "%total", loc(l3), "", construct=cls + "/length/return")
        r1 = [n for n in walk(l1["body"]) if n.get("k") == "return"]
        ok = len(r1) == 1 and canon(r1[0]["e"], Scope(l1)) == "this.getTrajectoryLength(this.getStartTime(),this.getEndTime(),$p0)" and callee(strip_copy(r1[0]["e"])).get("fid") == l3["fid"]
        chk.ob("C20-R2", "%s one-argument length uses the trajectory's own range" % cls, ok, loc(l1), "", construct=cls + "/length/one-arg")
        # the velocity evaluation is the Deriv overload with Vel == 1 -> integer overload (C03-R1)
        # ---- R4 factories ------------------------------------------------------------------------------------
        dim = F.record(cls)["targs"][0]
        z = F.func1(cls, "zero")
        chk.saw(z)
        sc = Scope(z)
        for n in walk(z["body"]):
            if n.get("k") == "decl" and n["ty"].get("c") == "int":
                sc.bind_local(n)
        nseg = "(($p0.size() > 1) ? ($p0.size() - 1) : 0)"
        md = next(s for s in stmts(z) if s.get("k") == "decl" and s["ty"].get("c") == "eigen")
        okz = canon(md["init"], sc) in ("Zero(%s,%d)" % (preds.cbin("*", nseg, "$p1"), dim), "Zero(%s,%d)" % ("(%s * $p1)" % nseg, dim), "Zero(%s,%d)" % ("($p1 * %s)" % nseg, dim))
        sc.bind_opaque(md["id"], "%coeffs")
        r = [n for n in walk(z["body"]) if n.get("k") == "return"]
        okr = len(r) == 1 and strip_copy(r[0]["e"]).get("k") == "ctor" and [canon(a, sc) for a in strip_copy(r[0]["e"])["args"]] == ["$p0", "%coeffs", "$p1"]
        chk.ob("C20-R4", "%s::zero = all-zero coefficients (segments*count rows) on the given breakpoints with the given count" % cls, okz and okr, loc(z), canon(md["init"], sc), construct=cls + "/zero")
        c = F.func1(cls, "constant")
        chk.saw(c)
        sc = Scope(c)
        for n in walk(c["body"]):
            if n.get("k") == "decl" and n["ty"].get("c") == "int":
                sc.bind_local(n)
        md = next(s for s in stmts(c) if s.get("k") == "decl" and s["ty"].get("c") == "eigen")
        okz = canon(md["init"], sc) == "Zero(%s,%d)" % (nseg, dim)
        sc.bind_opaque(md["id"], "%coeffs")
        lp = next(s for s in stmts(c) if s.get("k") == "for")
        sc.bind_opaque(lp["init"]["id"], "%i")
        p, t = preds.literal(lp["cond"], sc)
        body = lp["body"]["body"] if lp["body"].get("k") == "block" else [lp["body"]]
        asg = canon(body[0]["e"], sc) if len(body) == 1 and body[0].get("k") == "expr" else ""
        okl = lit_value(lp["init"].get("init")) == "0" and (p, t) == (True, "%%i < %s" % nseg) and asg == "(%coeffs.row(%i) = $p1.transpose())"
        r = [n for n in walk(c["body"]) if n.get("k") == "return"]
        okr = len(r) == 1 and strip_copy(r[0]["e"]).get("k") == "ctor" and [canon(a, sc) for a in strip_copy(r[0]["e"])["args"]] == ["$p0", "%coeffs", "1"]
        chk.ob("C20-R4", "%s::constant = one coefficient row per segment equal to the value, coefficient count 1, on the given breakpoints" % cls, okz and okl and okr, loc(c), asg, construct=cls + "/constant")
        # batch = pointwise: the batch route's obligation of C03-R1, re-derived here on the current tree
        from .. import core
        from . import c03
        sub = core.Check("C03", chk.tier, chk.root)
        c03.check_funnel(sub, F, cls)
        bo = [o for o in sub.obs if o["construct"].endswith("/batch")]
        if len(bo) != 1:
            raise Broken("batch-evaluation obligation of C03-R1 not found for " + cls)
        chk.ob("C20-R3", "%s batch evaluation = pointwise evaluation of each time, in order" % cls, bo[0]["ok"], bo[0]["where"], bo[0].get("detail", ""), construct=cls + "/batch")
    chk.floor("C20-R1", 20)
    chk.floor("C20-R2", 16)
    chk.floor("C20-R4", 8)
    chk.not_decided = ["whether the floating-point floor() puts a sample beyond the end or drops one when dt nearly divides the interval",
                       "overflow of the int step count for tiny dt", "the discretisation-error bound of the arc length (a numerical-analysis fact about left Riemann sums)",
                       "strict monotonicity of the samples in floating point"]
    chk.explanation = ("structural clauses of the helpers decided from the resolved AST (sequence formula, append rule, left-Riemann formula, factories); "
                       "value-dependent clauses are listed under not_decided and are the reason the level is 'other'")
