"""C12 - evaluation is schedule independent and safe to run concurrently (DESIGN s6 C12).

R1 effect isolation of the per-segment callable: every access to a location that the callable
   writes and that lives outside it is indexed injectively by the segment index;
R2 executors call the callable exactly once per index; reductions are outside (follows from R1);
R3 const-path purity: writes to optimizer members reachable from evaluate() (own workspace supplied);
R4 typestate of the layout cache: clean at the exit of every constructor / non-const public member,
   which is what makes the lazy rebuild dead code on const paths.
"""
from ..facts import Broken, walk, pp, loc
from ..effects import (Effects, roots, callee, ASSIGN_OPS, EIGEN_MUTATORS, STD_MUTATORS, EIGEN_VIEWS, STD_VIEWS, Env)
from ..flow import Flow
from .. import preds
from ..preds import Scope, canon
from .common import facts_for, classes, strip_copy, write_rhs, is_this_mem, lit_value, optimizer_classes

ROW_SELECT = {"row", "operator()", "operator[]", "coeffRef", "at"}
BLOCK_SELECT = {"block": (0, 2), "middleRows": (0, 1), "segment": (0, 1), "topRows": None, "bottomRows": None, "head": None, "tail": None}


def lambda_locals(spec):
    ids = {p["id"] for p in spec["params"]}
    for n in walk(spec.get("body")):
        if n.get("k") == "decl":
            ids.add(n["id"])
        if n.get("k") == "rfor":
            ids.add(n["var"]["id"])
    return ids


def access_chains(e, sels=()):
    """Yield (root_node, selectors, top_node) for every access chain in expression e.
    selectors: list of (name, [arg exprs], template ints) from outermost to innermost."""
    if isinstance(e, list):
        for x in e:
            yield from access_chains(x)
        return
    if not isinstance(e, dict):
        return
    k = e.get("k")
    if k == "var":
        yield (e, list(sels), e)
        return
    if k == "this":
        yield (e, list(sels), e)
        return
    if k == "mem":
        for r, s, t in access_chains(e["base"], (("." + e["field"], [], None),) + tuple(sels)):
            yield (r, s, t)
        return
    if k in ("call",) and "obj" in e:
        c = callee(e)
        nm, ns, op = c.get("name"), c.get("ns"), c.get("op")
        if (ns == "Eigen" and (nm in EIGEN_VIEWS or op in ("()", "[]"))) or (ns == "std" and (nm in STD_VIEWS or op in ("[]",))):
            name = nm if not op else "operator" + op
            for r, s, t in access_chains(e["obj"], ((name, e.get("args", []), c.get("targs")),) + tuple(sels)):
                yield (r, s, t)
            for a in e.get("args", []):
                yield from access_chains(a)
            return
        yield from access_chains(e["obj"])
        for a in e.get("args", []):
            yield from access_chains(a)
        return
    if k == "lambda":
        return
    for key in ("obj", "base", "args", "l", "r", "e", "c", "a", "b", "idx", "init", "elems", "fn"):
        if key in e:
            yield from access_chains(e[key])


def index_class(sels, sc, param_txt):
    """'inj' when some selector pins the row/element to the lambda parameter injectively,
    'whole' when no index selector at all, else ('other', text)."""
    saw_index = False
    for name, args, targs in sels:
        if name.startswith("."):
            continue
        if name in ROW_SELECT:
            saw_index = True
            if args and canon(args[0], sc) == param_txt:
                return "inj"
        elif name in BLOCK_SELECT:
            saw_index = True
            if name == "block":
                if len(args) == 4:
                    r0, nr = canon(args[0], sc), canon(args[2], sc)
                elif len(args) == 2 and targs and isinstance(targs[0], int):
                    r0, nr = canon(args[0], sc), str(targs[0])
                else:
                    continue
            elif name in ("middleRows", "segment"):
                if len(args) == 2:
                    r0, nr = canon(args[0], sc), canon(args[1], sc)
                elif len(args) == 1 and targs and isinstance(targs[0], int):
                    r0, nr = canon(args[0], sc), str(targs[0])
                else:
                    continue
            else:
                continue
            if nr.isdigit() and int(nr) > 0:
                for mult in range(int(nr), int(nr) * 4 + 1):
                    if r0 == preds.cbin("*", str(mult), param_txt):
                        return "inj"
    return "whole" if not saw_index else ("other", "; ".join("%s(%s)" % (n, ",".join(canon(a, sc) for a in args)) for n, args, _ in sels if not n.startswith(".")))


def root_key(root, sels, env):
    if root.get("k") == "this":
        base = ("this",)
    else:
        if env is not None and root["id"] in env.alias:
            base = env.alias[root["id"]][0]
        else:
            base = ("v", root["id"], root["name"])
    flds = tuple(n[1:] for n, _, _ in sels if n.startswith("."))
    # fields come before index selectors in these chains (buffer members of the workspace)
    return base + flds


def check_lambda(chk, F, E, f, call, lam, spec):
    """Footprint of the per-segment callable: every write to a location that outlives one call must be indexed
    injectively by the segment index.  Member functions of the same class called from the callable are followed with
    their reference parameters bound to what they are given and the segment-index argument still being the index."""
    sc0 = Scope(params=spec["params"])
    for n in walk(spec.get("body")):
        if n.get("k") == "decl":
            sc0.bind_local(n)
    param_txt = "$p0"
    written = {}
    nwrites = [0]
    handed_on = set()

    def scan(body, locals_, sc, env, depth, via):
        def targets(n):
            k = n.get("k")
            if k == "assign":
                yield n["l"], "assign"
            elif k == "un" and n["op"] in ("++", "--"):
                yield n["e"], n["op"]
            elif k == "call":
                c = callee(n)
                nm, ns, op = c.get("name"), c.get("ns"), c.get("op")
                if "obj" in n and ((op in ASSIGN_OPS and op != ",") or nm in EIGEN_MUTATORS or nm in STD_MUTATORS):
                    yield n["obj"], "op" + str(op or nm)
                pm = c.get("pm", [])
                g = F.by_fid.get(c.get("fid"))
                if g is not None and g.get("cls") == f.get("cls") and g.get("body") is not None and depth < 4 and ("obj" not in n or n["obj"].get("k") == "this"):
                    follow(n, g)
                    return
                if ns not in ("Eigen",) and not (ns == "std" and nm in ("move", "forward", "max", "min", "isfinite", "abs", "sqrt")):
                    for i, a in enumerate(n.get("args", [])):
                        if i < len(pm) and pm[i] in ("ref", "rref", "ptr"):
                            fid = c.get("fid")
                            if fid in F.by_fid:
                                if i not in E.summary(fid)["params"]:
                                    continue
                            yield a, "by-ref argument of " + str(nm)
                if "obj" in n and c.get("fid") in F.by_fid and not c.get("const") and not op:
                    yield n["obj"], "non-const member " + str(nm)

        def follow(n, g):
            # the callee's body is part of the callable: reference parameters denote the caller's locations, value
            # parameters are the callee's own locals; the parameter that receives the segment index keeps being the index
            sc2 = Scope(params=[])
            env2 = Env(env)
            loc2 = set()
            for i, (p_, a_) in enumerate(zip(g["params"], n.get("args", []))):
                ty = p_["ty"]
                if ty.get("ref") or ty.get("c") == "ptr":
                    for m_ in walk(a_):
                        handed_on.add(id(m_))       # what the callee does with it is analysed in the callee
                    chains = list(access_chains(a_))
                    if chains and not (chains[0][0].get("k") == "var" and chains[0][0]["id"] in locals_):
                        r_, s_, t_ = chains[0]
                        env2.alias[p_["id"]] = [root_key(r_, s_, env)]
                    else:
                        loc2.add(p_["id"])         # bound to a local of the caller: private to this call
                else:
                    loc2.add(p_["id"])
                    try:
                        txt = canon(a_, sc)
                    except Exception:
                        txt = "?"
                    sc2.param[p_["id"]] = txt if txt == param_txt else "$arg%d_%d" % (depth, i)
            for m_ in walk(g.get("body")):
                if m_.get("k") == "decl":
                    loc2.add(m_["id"])
                    sc2.bind_local(m_)
                if m_.get("k") == "rfor":
                    loc2.add(m_["var"]["id"])
            scan(g["body"], loc2, sc2, env2, depth + 1, via + [g["name"]])

        for n in walk(body):
            for tgt, how in targets(n):
                for root, sels, top in access_chains(tgt):
                    if root.get("k") == "var" and root["id"] in locals_:
                        continue
                    nwrites[0] += 1
                    key = root_key(root, sels, env)
                    ic = index_class(sels, sc, param_txt)
                    inst = "write %s (%s)%s" % (pp(tgt), how, (" in " + "/".join(via)) if via else "")
                    if ic == "inj":
                        written.setdefault(key, []).append(n)
                        chk.ob("C12-R1", "%s :: %s" % (f["full"][:90], inst), True, loc(f, n),
                               "location outside the callable, indexed injectively by the segment index", construct="%s/lambda/%s%s" % (f["cls"], "/".join(via + [""]) if via else "", pp(tgt)))
                    else:
                        chk.ob("C12-R1", "%s :: %s" % (f["full"][:90], inst), False, loc(f, n),
                               "the per-segment callable writes %s, which is shared by all iterations (%s); concurrent iterations race and the result depends on the schedule"
                               % (pp(tgt), "not indexed by the segment index" if ic == "whole" else "index form " + str(ic[1])),
                               construct="%s/lambda/%s%s" % (f["cls"], "/".join(via + [""]) if via else "", pp(tgt)))
                    break  # the outermost chain of the target is the written location
        # every access (read or write) to the written buffers uses the same injective index
        for root, sels, top in _all_chains(body):
            if root.get("k") == "var" and root["id"] in locals_:
                continue
            if id(top) in handed_on or id(root) in handed_on:
                continue
            key = root_key(root, sels, env)
            if key in written:
                ic = index_class(sels, sc, param_txt)
                if ic != "inj":
                    chk.ob("C12-R1", "%s :: access %s" % (f["full"][:90], pp(top)), False, loc(f, top),
                           "buffer written per segment is accessed with another iteration's index (%s)" % (ic,), construct="%s/lambda/access/%s" % (f["cls"], pp(top)))

    scan(spec.get("body"), lambda_locals(spec), sc0, Env(), 0, [])
    return nwrites[0]


def _is_prefix_chain(a, b):
    return True


def _all_chains(body):
    for n in walk(body):
        k = n.get("k")
        if k in ("expr", "return") and n.get("e") is not None:
            yield from access_chains(n["e"])
        elif k == "decl" and n.get("init") is not None:
            yield from access_chains(n["init"])
        elif k == "if":
            yield from access_chains(n.get("cond"))
        elif k == "for":
            yield from access_chains(n.get("cond"))
            yield from access_chains(n.get("inc"))


def check_executors(chk, F):
    n = 0
    for f in F.functions:
        if not f.get("clsname", "").endswith("Executor") or f["name"] != "operator()":
            continue
        chk.saw(f)
        body = f["body"]
        stmts = [s for s in body["body"] if s.get("k") != "null"]
        while len(stmts) == 1 and stmts[0].get("k") == "omp":
            inner = stmts[0].get("body")
            stmts = [inner] if inner and inner.get("k") != "block" else (inner["body"] if inner else [])
        ok = False
        why = pp(body).strip()
        if len(stmts) == 1 and stmts[0].get("k") == "for":
            lp = stmts[0]
            sc = Scope(f)
            init, cond, inc = lp.get("init"), lp.get("cond"), lp.get("inc")
            if init and init.get("k") == "decl":
                sc.bind_opaque(init["id"], "%i")
                starts = canon(init.get("init"), sc) == "$p0"
                p, t = preds.literal(cond, sc)
                ends = p and t == "%i < $p1"
                step = inc and inc.get("k") == "un" and inc["op"] == "++"
                b = lp["body"]
                bs = b["body"] if b.get("k") == "block" else [b]
                call_ok = (len(bs) == 1 and bs[0].get("k") == "expr" and bs[0]["e"].get("k") == "call"
                           and callee(bs[0]["e"]).get("op") == "()" and canon(bs[0]["e"]["obj"], sc) == "$p2"
                           and [canon(a, sc) for a in bs[0]["e"]["args"]] == ["%i"])
                ok = bool(starts and ends and step and call_ok)
        chk.ob("C12-R2", f["cls"] + " visits every index once", ok, loc(f), why[:300], construct=f["cls"] + "/loop-shape")
        n += 1
    return n


def layout_roles(F, E, cls):
    """dirty flag, rebuild function, its inputs (members it reads) and outputs (mutable members it writes)."""
    rec = F.record(cls)
    mut_bools = [x["name"] for x in rec["fields"] if x["mutable"] and x["ty"].get("c") == "bool"]
    rebuild = None
    dirty = None
    for f in F.funcs(cls):
        if not f.get("const"):
            continue
        for path, how, node in E.function_writes_local(f):
            if path[0] == "this" and len(path) == 2 and path[1] in mut_bools and lit_value(write_rhs(node)) == "false":
                if rebuild and rebuild is not f:
                    raise Broken("two functions clear a mutable flag in " + cls)
                rebuild, dirty = f, path[1]
    if not rebuild:
        raise Broken("layout rebuild routine not found in " + cls)
    outs = set()
    for path, how, node in E.function_writes_local(rebuild):
        if path[0] == "this" and len(path) >= 2 and path[1] != dirty:
            outs.add(path[1])
    ins = set()
    for g in F.reachable(rebuild, stop=lambda h: h.get("cls") != cls):
        for n in walk(g.get("body")):
            if n.get("k") == "mem" and is_this_mem(n):
                fld = F.field(cls, n["field"])
                if fld and not fld["mutable"]:
                    ins.add(n["field"])
    return dirty, rebuild, ins, outs


def layout_flow(F, E, cls, dirty, ins, outs, on_write=None):
    def enter_any(call):
        g = F.by_fid.get(callee(call).get("fid"))
        return bool(g) and g.get("cls") == cls and (call.get("obj") is None or call["obj"].get("k") == "this")

    def transfer(node, st, ctx):
        d, stale, ow = st
        k = node.get("k")
        if k == "ctorinit":
            fld = node["field"]
            if fld == dirty:
                v = lit_value(node.get("init"))
                rhs = strip_copy(node.get("init"))
                if v in ("true", "false"):
                    d = v == "true"
                elif isinstance(rhs, dict) and rhs.get("k") == "mem" and rhs["field"] == dirty:
                    d = False   # copied from an object for which the invariant holds (induction)
                else:
                    d = True
            elif fld in ins:
                # copied together with the cache in the copy operations: coherent snapshot
                rhs = strip_copy(node.get("init"))
                if not (isinstance(rhs, dict) and rhs.get("k") == "mem" and rhs["field"] == fld and ctx.f.get("copyctor")):
                    stale, ow = True, frozenset()
            elif fld in outs:
                ow = ow | {fld}
            return [(d, stale, ow)]
        if k in ("assign", "call", "un"):
            for path, how in E.node_writes(node, ctx.env, follow=lambda c: not enter_any(c)):
                if path[0] != "this" or len(path) < 2:
                    continue
                fld = path[1]
                if on_write:
                    on_write(ctx, node, fld, st)
                if fld == dirty:
                    v = lit_value(write_rhs(node))
                    rhs = strip_copy(write_rhs(node))
                    if v in ("true", "false"):
                        d = v == "true"
                    elif isinstance(rhs, dict) and rhs.get("k") == "mem" and rhs["field"] == dirty:
                        d = False
                    else:
                        d = True
                elif fld in ins:
                    rhs = strip_copy(write_rhs(node))
                    from_other = any(n_.get("k") == "mem" and n_["field"] == fld and not is_this_mem(n_) and n_["base"].get("k") == "var" and n_["base"].get("vk") == "param"
                                     for n_ in walk(write_rhs(node)))
                    if from_other and (ctx.f.get("copyctor") or ctx.f.get("kind") == "copyassign"):
                        pass  # member-wise (or re-bound) copy from another optimizer: the cache is copied alongside
                    else:
                        stale, ow = True, frozenset()
                elif fld in outs:
                    ow = ow | {fld}
        return [(d, stale, ow)]

    def branch(cond, pol, st, ctx):
        c = strip_copy(cond)
        neg = False
        while isinstance(c, dict) and c.get("k") == "un" and c["op"] == "!":
            neg = not neg
            c = strip_copy(c["e"])
        if is_this_mem(c, dirty):
            val = pol != neg
            if st[0] != val:
                return []
        return None

    def enter(g, call):
        return g.get("cls") == cls and (call.get("obj") is None or call["obj"].get("k") == "this")

    return Flow(F, transfer, branch=branch, enter_call=enter)


def run(chk):
    F = facts_for(chk)
    E = Effects(F)
    nl = 0
    for cls in optimizer_classes(F):
        # ---- R1 ----------------------------------------------------------------
        for f in F.funcs(cls):
            for n in walk(f.get("body")):
                if n.get("k") == "call" and callee(n).get("op") == "()":
                    lams = [a for a in n.get("args", []) if isinstance(a, dict) and a.get("k") == "lambda"]
                    objty = (n.get("obj") or {}).get("t", {})
                    if lams and "Executor" in str(objty.get("n", "")) or (lams and n.get("obj", {}).get("k") == "var" and "xecutor" in n["obj"].get("name", "")):
                        for lam in lams:
                            for spec in lam["specs"]:
                                chk.saw(f)
                                nl += check_lambda(chk, F, E, f, n, lam, spec)
    if nl == 0:
        raise Broken("no callable handed to an executor found")
    chk.floor("C12-R1", 16)
    ne = check_executors(chk, F)
    chk.floor("C12-R2", 2)

    # ---- R4 / R3 ----------------------------------------------------------------
    for cls in optimizer_classes(F):
        rec = F.record(cls)
        dirty, rebuild, ins, outs = layout_roles(F, E, cls)
        fld = F.field(cls, dirty)
        init_dirty = lit_value(fld.get("init"))
        invariant = True
        for f in F.funcs(cls):
            if f.get("access") != "public" or f.get("static") or f.get("kind") == "dtor":
                continue
            if f.get("const") and f.get("kind") != "ctor":
                continue
            fl = layout_flow(F, E, cls, dirty, ins, outs)
            start = ((init_dirty != "false"), False, frozenset()) if f.get("kind") == "ctor" else (False, False, frozenset())
            out, exits = fl.run(f, start)
            ends = [(s, None) for s in out] + exits
            bad = [(s, r) for s, r in ends if s[0]]
            chk.saw(f)
            inst = "%s (%d params)" % (f["full"], len(f["params"]))
            if bad:
                invariant = False
                chk.ob("C12-R4", inst, False, loc(f, bad[0][1]),
                       "exit reached with the layout cache marked dirty: the next const call (evaluate/getDimension/generateInitialGuess) "
                       "rebuilds the mutable layout members, which races when two threads evaluate concurrently",
                       construct="%s::%s/%d/layout-clean-at-exit" % (cls, f["name"], len(f["params"])))
            else:
                chk.ob("C12-R4", inst, True, loc(f), "layout cache clean on all %d exits" % len(ends),
                       construct="%s::%s/%d/layout-clean-at-exit" % (cls, f["name"], len(f["params"])))
        # R3: writes to members reachable from evaluate() with a caller-supplied workspace
        evals = [f for f in F.funcs(cls, "evaluate")]
        if not evals:
            raise Broken("no evaluate instantiation for " + cls)
        seen = set()
        for f in evals:
            found = []

            def on_write(ctx, node, fldname, st, found=found):
                found.append((ctx.f, node, fldname))

            fl = layout_flow(F, E, cls, dirty, ins, outs, on_write=on_write)

            def branch_ws(cond, pol, st, ctx, base=fl.branch, f=f):
                # premise of the property: each thread passes its own workspace (ws != nullptr)
                c = strip_copy(cond)
                if c.get("k") == "bin" and c["op"] in ("!=", "==") and {lit_value(c["l"]), lit_value(c["r"])} & {"nullptr"}:
                    other = c["r"] if lit_value(c["l"]) == "nullptr" else c["l"]
                    o = strip_copy(other)
                    if o.get("k") == "var" and o.get("vk") == "param" and o.get("t", {}).get("c") == "ptr":
                        nonnull = (c["op"] == "!=") == pol
                        if not nonnull:
                            return []
                return base(cond, pol, st, ctx)

            fl.branch = branch_ws
            start = (False, False, frozenset()) if invariant else (True, False, frozenset())
            # when the invariant (R4) does not hold the cache may be dirty on entry: analyse that case
            fl.run(f, start)
            chk.saw(f)
            inst = "%s" % f["full"][:160]
            if found:
                g, node, fldname = found[0]
                keyc = "%s::evaluate -> %s writes %s" % (cls, g["name"], fldname)
                allw = sorted({"%s in %s" % (fn, gg["name"]) for gg, _, fn in found})
                chk.ob("C12-R3", inst, False, loc(g, node),
                       "const evaluate() reaches writes of mutable optimizer members (%s) (path: evaluate -> ... -> %s); two threads evaluating one optimizer, each with "
                       "its own workspace, race on them" % (", ".join(allw), g["name"]), construct=keyc)
            else:
                chk.ob("C12-R3", inst, True, loc(f), "no write to an optimizer member is reachable (own workspace supplied, layout cache clean on entry by R4)",
                       construct="%s::evaluate/%d/pure" % (cls, len(f["params"])))
    chk.floor("C12-R4", 20)
    chk.floor("C12-R3", 8)
    chk.not_decided = ["thread-safety of user functors and maps (assumed re-entrant)",
                       "evaluate() with ws == nullptr uses the optimizer's built-in workspace and is outside the property's premise"]
    chk.trusted.append("C++ memory model: a data race needs two unordered accesses to one location, one a write")
