"""C13 - spatial dimensions are solved independently (DESIGN s6 C13).

R1 coordinate uniformity: data of shape (.. x DIM) is only combined by whole-vector operations; a coordinate is selected
   only by the index of a uniform loop `for (j = 0; j < DIM; ++j)` (typed scan of every spline / PPolyND member, plus the
   fact that Engine A - which rejects any other coordinate access - interprets the solvers, adjoints and energy code);
R2 scalar factor caches, duration powers and knot times never depend on waypoint / boundary / gradient data;
R3 the DIM<=3 and DIM>3 branches of the septic adjoint have equal summaries (both equal the same reference, C05-R2/R4);
R4 parametricity: member bodies of different DIM instantiations are identical after erasing DIM, except inside
   `if constexpr` branches on DIM;
R5 no run-time condition in the members reachable from the interface (arc length aside) depends - directly, through locals
   or through the value of a called repository function - on a reduction that mixes the coordinates numerically (norm,
   dot, isApprox, sum, maxCoeff, ...).
"""
import json

import sympy as sp

from ..facts import Broken, pp, loc, walk
from ..effects import callee, EIGEN_VIEWS
from .. import sym, core, rawview, history
from ..sym import Interp, Vec, Unsupported
from ..model import spline_model
from ..blocks import BlockRun
from .common import facts_for, alg_classes, full_classes, SPLINES
from . import c01, c05

COORD_SELECTORS = {"col", "x", "y", "z", "w", "leftCols", "rightCols", "middleCols"}


def dim_of(F, cls):
    t = F.record(cls).get("targs") or [None]
    return t[0]


def writes_numeric(body):
    """does the statement tree store into anything that is not a truth value?"""
    for x in walk(body):
        k = x.get("k")
        if k == "assign":
            t = (x.get("l") or {}).get("t") or x.get("lt") or {}
            if t.get("c") != "bool":
                return True
        elif k == "un" and x.get("op") in ("++", "--"):
            return True
        elif k == "call" and (callee(x).get("op") in ("=", "+=", "-=", "*=", "/=", "<<") or callee(x).get("name") in ("noalias", "setZero", "setConstant", "fill", "push_back", "emplace_back")) and "obj" in x:
            return True
    return False


# reductions whose value combines the coordinates numerically (an all-coordinates predicate such as allFinite(), or an
# exact comparison of whole arrays, is the conjunction of per-coordinate verdicts and is not in this set)
MIXING = {"norm", "squaredNorm", "stableNorm", "blueNorm", "hypotNorm", "lpNorm", "isApprox", "isMuchSmallerThan", "isApproxToConstant", "dot", "sum", "mean", "prod",
          "maxCoeff", "minCoeff", "trace", "determinant", "cross"}
ARC_LENGTH = ("getTrajectoryLength",)       # the length of the curve is a cross-coordinate quantity by definition (C20)


def _coord_wide(t, dim):
    return isinstance(t, dict) and t.get("c") == "eigen" and (t.get("cols") == dim or (t.get("cols") == 1 and t.get("rows") == dim))


def _mixing_sites(e):
    out = []
    for n in walk(e):
        if n.get("k") == "call" and callee(n).get("ns") == "Eigen" and callee(n).get("name") in MIXING and isinstance(n.get("obj"), dict):
            out.append(n)
    return out


class MixTaint:
    """which conditions of the numeric members depend on a cross-coordinate reduction of DIM-wide data (flow-insensitive
    over locals, through the values returned by repository functions)"""

    def __init__(self, F, cls, dim, twin):
        self.F, self.cls, self.dim, self.twin = F, cls, dim, twin
        self.ret = {}

    def wide_sites(self, f, e):
        """mixing reductions in e over data as wide as the instantiation's DIM - and, where the same member exists in an
        instantiation of another DIM, as wide as that DIM there (a 3 x 3 solver block is 3 wide for every DIM)"""
        sites = [n for n in _mixing_sites(e) if _coord_wide((n.get("obj") or {}).get("t"), self.dim)]
        if not sites or self.twin is None:
            return sites
        tcls, tdim = self.twin
        g = [h for h in self.F.funcs(tcls, f["name"]) if len(h["params"]) == len(f["params"]) and h.get("const") == f.get("const")]
        if len(g) != 1:
            return sites
        mine = [n for n in _mixing_sites(f.get("body"))]
        theirs = [n for n in _mixing_sites(g[0].get("body"))]
        if len(mine) != len(theirs):
            return sites
        keep = []
        for n in sites:
            k = next((i for i, m in enumerate(mine) if m is n), None)
            if k is None or _coord_wide((theirs[k].get("obj") or {}).get("t"), tdim) or callee(theirs[k]).get("name") != callee(n).get("name"):
                keep.append(n)
        return keep

    def tainted_vars(self, f):
        defs = {}
        for n in walk(f.get("body")):
            if n.get("k") == "decl" and n.get("init") is not None:
                defs.setdefault(n["id"], []).append(n["init"])
            elif n.get("k") == "assign" and isinstance(n.get("l"), dict) and n["l"].get("k") == "var":
                defs.setdefault(n["l"]["id"], []).append(n["r"])
        bad = {}
        changed = True
        while changed:
            changed = False
            for vid, rhss in defs.items():
                if vid in bad:
                    continue
                for r in rhss:
                    w = self.expr_taint(f, r, bad)
                    if w:
                        bad[vid] = w
                        changed = True
                        break
        return bad

    def expr_taint(self, f, e, badvars, depth=0):
        ws = self.wide_sites(f, e)
        if ws:
            return "%s (line %s)" % (pp(ws[0])[:70], ws[0].get("line"))
        for n in walk(e):
            if n.get("k") == "var" and n.get("id") in badvars:
                return "%s <- %s" % (n.get("name"), badvars[n["id"]])
            if n.get("k") == "call" and callee(n).get("fid") in self.F.by_fid and depth < 3:
                w = self.returns_taint(self.F.by_fid[callee(n)["fid"]], depth + 1)
                if w:
                    return "%s() <- %s" % (callee(n).get("name"), w)
        return None

    def returns_taint(self, g, depth):
        if g["fid"] in self.ret:
            return self.ret[g["fid"]]
        self.ret[g["fid"]] = None
        if g.get("body") is None or (g.get("ret") or {}).get("c") not in ("bool", "double", "int"):
            return None
        bad = self.tainted_vars(g)
        out = None
        for n in walk(g["body"]):
            if n.get("k") == "return" and n.get("e") is not None:
                out = out or self.expr_taint(g, n["e"], bad, depth)
            elif n.get("k") in ("if", "while", "dowhile", "for") and not n.get("constexpr") and n.get("cond") is not None:
                out = out or self.expr_taint(g, n["cond"], bad, depth)     # which value is returned is decided by it
        self.ret[g["fid"]] = out
        return out

    def conditions(self, f):
        """[(node, taint or None)] for every run-time condition of f"""
        bad = self.tainted_vars(f)
        out = []
        for n in walk(f.get("body")):
            k = n.get("k")
            if k in ("if", "while", "dowhile", "for") and not n.get("constexpr") and n.get("cond") is not None:
                out.append((n, self.expr_taint(f, n["cond"], bad)))
            elif k == "cond" and n.get("c") is not None:
                out.append((n, self.expr_taint(f, n["c"], bad)))
        return out


def scan_function(f, dim):
    """[(node, why)] coordinate accesses outside a uniform component loop"""
    out = []
    n_ok = [0]

    def is_dim_lit(e):
        return isinstance(e, dict) and e.get("k") == "lit" and e.get("nttp") == "DIM"

    loops = []       # enclosing loops, innermost last: True for a uniform coordinate loop

    def rec(n, comp_vars):
        if isinstance(n, list):
            for x in n:
                rec(x, comp_vars)
            return
        if not isinstance(n, dict):
            return
        k = n.get("k")
        # an early exit from a coordinate loop that accumulates or stores numeric data couples the coordinates: whether a
        # later coordinate contributes depends on an earlier one.  (A loop that only computes a truth value - any / all
        # over the coordinates - may stop early: the result does not depend on the order.)
        if k == "break" and loops and loops[-1]:
            out.append((n, "a coordinate loop that stores or accumulates data stops early: whether later coordinates are processed depends on an earlier one"))
        if k == "return" and any(loops):
            out.append((n, "return from inside a coordinate loop that stores or accumulates data: later coordinates are processed only if earlier ones do not return"))
        if k in ("while", "do", "rfor"):
            loops.append(False)
            try:
                for key, v in n.items():
                    if isinstance(v, (dict, list)) and key not in ("t", "ty", "callee", "lt", "to"):
                        rec(v, comp_vars)
            finally:
                loops.pop()
            return
        if k == "lambda":
            saved = list(loops)
            del loops[:]
            try:
                for sp_ in n.get("specs", []):
                    rec(sp_.get("body"), comp_vars)
                if not n.get("specs"):
                    rec(n.get("body"), comp_vars)
            finally:
                loops.extend(saved)
            return
        if k == "for":
            init, cond, inc = n.get("init"), n.get("cond"), n.get("inc")
            cv = set(comp_vars)
            if (init and init.get("k") == "decl" and isinstance(init.get("init"), dict) and init["init"].get("k") == "lit" and init["init"].get("v") == "0"
                    and cond and cond.get("k") == "bin" and cond["op"] == "<" and cond["l"].get("k") == "var" and cond["l"]["id"] == init["id"] and is_dim_lit(cond["r"])
                    and inc and inc.get("k") == "un" and inc["op"] == "++"):
                cv.add(init["id"])
            rec(n.get("init"), comp_vars)
            rec(n.get("cond"), comp_vars)
            rec(n.get("inc"), comp_vars)
            loops.append(len(cv) > len(comp_vars) and writes_numeric(n.get("body")))
            try:
                rec(n.get("body"), cv)
            finally:
                loops.pop()
            return
        if k == "call" and callee(n).get("ns") == "Eigen" and "obj" in n:
            c = callee(n)
            nm, op = c.get("name"), c.get("op")
            t = n["obj"].get("t", {}) if isinstance(n["obj"], dict) else {}
            rows, cols = t.get("rows"), t.get("cols")
            shaped = t.get("c") == "eigen" and (cols == dim or (rows == dim and cols == 1))
            square_amb = rows == dim and cols == dim
            args = n.get("args", [])
            if shaped and not square_amb:
                coord_arg = None
                if op in ("()", "[]"):
                    if len(args) == 2:
                        coord_arg = args[1] if cols == dim else None
                    elif len(args) == 1 and (rows == 1 or cols == 1):
                        coord_arg = args[0]
                    elif len(args) == 1 and rows == -1 and cols == 1 and dim == 1:
                        coord_arg = None
                    if coord_arg is not None:
                        ok = isinstance(coord_arg, dict) and coord_arg.get("k") == "var" and coord_arg.get("id") in comp_vars
                        if ok:
                            n_ok[0] += 1
                        else:
                            out.append((n, "coordinate %s selected outside a uniform `j < DIM` loop" % pp(coord_arg)))
                elif nm in COORD_SELECTORS:
                    out.append((n, "coordinate selector .%s() on data of width DIM" % nm))
                elif nm == "block" and cols == dim and len(args) == 4:
                    if not (args[1].get("k") == "lit" and args[1].get("v") == "0" and is_dim_lit(args[3])):
                        out.append((n, "block() selects a column range other than [0, DIM)"))
                elif nm in ("segment", "head", "tail") and (rows == 1 or cols == 1) and (rows == dim or cols == dim):
                    out.append((n, ".%s() selects part of a DIM-vector" % nm))
        for key, v in n.items():
            if isinstance(v, (dict, list)) and key not in ("t", "ty", "callee", "lt", "to"):
                rec(v, comp_vars)

    rec(f.get("body"), set())
    for ini in f.get("inits") or []:
        rec(ini.get("init"), set())
    return out, n_ok[0]


def run(chk):
    F = facts_for(chk)
    # ---- R1 typed scan ----------------------------------------------------------------------------------------
    nfun = 0
    nacc = 0
    for short in ("PPolyND",) + SPLINES:
        need = ("update",)
        for cls in full_classes(F, short, need):
            dim = dim_of(F, cls)
            if dim == 1:
                continue   # a single coordinate: nothing to mix
            for f in F.functions:
                if not f.get("cls", "").startswith(cls):
                    continue
                bad, okc = scan_function(f, dim)
                nfun += 1
                nacc += okc
                chk.saw(f)
                if bad:
                    n, why = bad[0]
                    chk.ob("C13-R1", "%s treats all coordinates alike" % f["full"][:140], False, loc(f, n), "%s: %s" % (why, pp(n)[:120]), construct="%s/uniform/%s" % (f["full"][:120], pp(n)[:60]))
                else:
                    chk.ob("C13-R1", "%s treats all coordinates alike" % f["full"][:140], True, loc(f), "%d coordinate accesses, all under a uniform loop" % okc, construct="%s/uniform" % f["full"][:120])
    chk.note("R1 scanned %d member functions, %d coordinate accesses (all inside uniform loops)" % (nfun, nacc))
    chk.floor("C13-R1", 300)
    # ---- R5 no run-time decision of the numeric members rests on a cross-coordinate reduction -----------------------------
    # (what is computed for one coordinate would then depend on the others: a tolerance relative to the norm of the whole
    # waypoint matrix, a threshold on a dot product, ...)
    ncond = 0
    for short in ("PPolyND",) + SPLINES:
        fulls = full_classes(F, short, ("update",))
        for cls in fulls:
            dim = dim_of(F, cls)
            if dim == 1:
                continue
            others = [c for c in fulls if dim_of(F, c) != dim and (F.record(c).get("targs") or [])[1:] == (F.record(cls).get("targs") or [])[1:]]
            twin = (others[0], dim_of(F, others[0])) if others else None
            T = MixTaint(F, cls, dim, twin)
            entries = [f for f in F.funcs(cls) if f.get("access") == "public" and f["name"] not in ARC_LENGTH and f.get("body")]
            scope = {}
            for f in entries:
                scope[f["fid"]] = f
                for g in F.reachable(f, stop=lambda h: not any(("::" + s_ + "<") in h.get("cls", "") for s_ in ("PPolyND",) + SPLINES)):
                    if g.get("body") and g["name"] not in ARC_LENGTH:
                        scope[g["fid"]] = g
            nhere = 0
            badc = []
            for f in scope.values():
                for n, w in T.conditions(f):
                    nhere += 1
                    if w:
                        badc.append((f, n, w))
            ncond += nhere
            chk.ob("C13-R5", "%s: no run-time condition of the members reachable from its interface (arc length aside) depends on a reduction that mixes the coordinates" % cls,
                   not badc, loc(badc[0][0], badc[0][1]) if badc else loc(entries[0]) if entries else "",
                   "%d conditions in %d functions inspected%s" % (nhere, len(scope), "; first: %s in %s" % (badc[0][2], badc[0][0]["name"]) if badc else ""),
                   construct=cls + "/no-mixing-decision")
            for f, n, w in badc[1:6]:
                chk.ob("C13-R5", "%s::%s condition independent of cross-coordinate reductions" % (cls, f["name"]), False, loc(f, n), w, construct="%s/%s/mixing-decision/%s" % (cls, f["name"], pp(n.get("cond") or n.get("c"))[:50]))
    chk.note("R5 inspected %d run-time conditions" % ncond)
    if ncond < 100:
        raise Broken("C13-R5 inspected only %d conditions" % ncond)
    chk.floor("C13-R5", 4)
    if any(not o["ok"] for o in chk.obs):
        # Engine A rejects exactly these constructs; the typed scan has already reported them as violations
        chk.note("R2/R3/R4 skipped: the typed scan found coordinate accesses outside uniform loops")
        return
    # ---- R1 (second half) + R2: Engine A interprets the numeric code; scalar stores are free of data ------------
    for short in SPLINES:
        for cls in alg_classes(F, short, ("update", "propagateGrad")):
            def per_class(chk, short=short, cls=cls):
                M = spline_model(F, cls)
                runs = []
                for kind in ("middle", "first"):
                    I, ret = c01.run_solver(F, M, {"first": kind == "first", "last": False})
                    runs.append(("solve/" + kind, I))
                for g in M.sequence:
                    if g is M.solve_fn or g["fid"] == M.handover[0]["fid"]:
                        continue
                    I = Interp(F, cls)
                    I.field_assumptions[M.m_count] = {"positive": True}
                    I.case = {"first": False, "last": False}
                    try:
                        I.run_body(g, {})
                    except Unsupported as ex:
                        raise Broken("cannot interpret %s: %s" % (g["name"], ex))
                    runs.append((g["name"], I))
                fA, IA, envA = c05.run_adjoint(F, M, "middle")
                runs.append(("adjoint/middle", IA))
                nsc = 0
                tainted = []
                for nm, I in runs:
                    effs = list(I.effects)
                    stack = list(I.loops)
                    while stack:
                        L = stack.pop()
                        effs.extend(L.effects)
                    for e in effs:
                        v = e.value
                        if e.target.startswith("$"):
                            continue
                        if isinstance(v, sp.Basic) and not e.target.startswith("grad") and not e.target.endswith("Grad") and e.target not in ("gradByTimes",):
                            nsc += 1
                            if sym.dots_in(v):
                                tainted.append((nm, e.target, str(e.key)))
                chk.ob("C13-R2", "%s scalar stores (factor caches, duration powers, knot times) are independent of waypoint / boundary / gradient data" % cls, not tainted, loc(M.solve_fn),
                       "%d scalar stores inspected; data-dependent: %s" % (nsc, tainted[:4]), construct=cls + "/data-independent-factors")
                chk.ob("C13-R1", "%s solver, precomputation and adjoint are expressible in the coordinate-uniform abstract domain" % cls, True, loc(M.solve_fn),
                       "interpreted: %s" % [nm for nm, _ in runs], construct=cls + "/engine-A-uniform")
            history.for_each_outcome(chk, per_class)
    chk.floor("C13-R2", 4)
    # ---- R3 branch agreement ----------------------------------------------------------------------------------------
    sept = alg_classes(F, "SepticSplineND", ("update", "propagateGrad"))
    dims = sorted(dim_of(F, c) for c in sept)
    if not (any(d <= 3 for d in dims) and any(d > 3 for d in dims)):
        raise Broken("need septic instantiations on both sides of the DIM<=3 switch, have %s" % dims)
    for cls in sept:
        sub = core.Check("C05", chk.tier, chk.root)
        c05.check_class(sub, F, spline_model(F, cls), "SepticSplineND")
        rel = [o for o in sub.obs if o["rule"] in ("C05-R2", "C05-R4")]
        bad = [o for o in rel if not o["ok"]]
        chk.ob("C13-R3", "%s (DIM %s 3 branch): duration terms of the adjoint equal the common reference" % (cls, "<=" if dim_of(F, cls) <= 3 else ">"), bool(rel) and not bad,
               bad[0]["where"] if bad else "", "%d obligations of C05-R2/R4; first failing: %s" % (len(rel), bad[0]["instance"] if bad else "-"), construct=cls + "/branch-agreement")
    chk.floor("C13-R3", 2)
    # ---- R4 parametricity ---------------------------------------------------------------------------------------------
    # premise: the matrices whose storage order depends on DIM (column-major for DIM == 1, row-major otherwise) are
    # touched through Eigen's index-based interface, or through raw-storage views that resolve to the same rows of the
    # same object in every instantiation (sa/rawview.py).  A view that denotes different rows for different DIM makes
    # the result of one coordinate depend on how many coordinates there are: a violation.  Raw access that cannot be
    # resolved is not decidable here (analysis-broken).
    check_raw_views(chk, F)
    check_parametricity(chk, F)
    if chk.tier == "thorough":
        F2 = facts_for(chk, "wit_thorough.cpp")
        check_parametricity(chk, F2)
        chk.note("parametricity additionally checked over DIM = 1..10 (wit_thorough.cpp)")
    chk.floor("C13-R4", 10)
    chk.not_decided = ["nothing value dependent; DIM = 5..10 are covered by the thorough tier's witness set and by parametricity"]


ERASE_KEYS = {"t", "ty", "lt", "to", "line", "id", "fid", "lid", "cls", "q", "full", "endline", "tystr", "targs", "ret", "approx", "file"}


def erased(n):
    if isinstance(n, list):
        return [erased(x) for x in n]
    if not isinstance(n, dict):
        return n
    if n.get("k") == "lit" and n.get("nttp") == "DIM":
        return {"k": "DIM"}
    if n.get("k") == "if" and n.get("constexpr"):
        # the only place where DIM may change behaviour: compare the condition text, not the branches
        return {"k": "if-constexpr", "cond": erased(n.get("cond"))}
    out = {}
    for k, v in n.items():
        if k in ERASE_KEYS:
            continue
        if k == "callee":
            out[k] = {kk: vv for kk, vv in v.items() if kk in ("name", "op", "ns", "static", "const", "pm")}
            continue
        out[k] = erased(v)
    return out


def dim_branch_equivalent(F, fname):
    """(True / False / None, detail) for a function whose body is `if constexpr (<test on DIM>) return A; else return B;`:
    in every instantiation that takes the one-coordinate branch, A must equal what B denotes for a vector with a single
    component."""
    import sympy as sp
    inst = [f for f in F.functions if f["name"] == fname and any(("::" + s_ + "<") in f.get("cls", "") for s_ in ("PPolyND",) + SPLINES)]

    def taken(f):
        ifs = [n for n in walk(f.get("body")) if n.get("k") == "if" and n.get("constexpr") and any(x.get("nttp") == "DIM" for x in walk(n.get("cond")))]
        if len(ifs) != 1 or not ifs[0].get("taken"):
            return None
        br = ifs[0].get(ifs[0]["taken"])
        sts = br.get("body", []) if isinstance(br, dict) and br.get("k") == "block" else [br]
        sts = [x for x in sts if isinstance(x, dict) and x.get("k") != "null"]
        if len(sts) == 1 and sts[0].get("k") == "return" and sts[0].get("e") is not None:
            return sts[0]["e"]
        if len(sts) == 1 and sts[0].get("k") == "expr":
            e_ = sts[0]["e"]
            if e_.get("k") == "assign" and e_.get("op") == "=":
                return {"k": "bin", "op": "-", "l": {"k": "var", "name": "lhs:" + pp(e_["l"])}, "r": e_["r"]}
            if e_.get("k") == "call" and callee(e_).get("op") == "=" and e_.get("obj") is not None and len(e_.get("args", [])) == 1:
                return {"k": "bin", "op": "-", "l": {"k": "var", "name": "lhs:" + pp(e_["obj"])}, "r": e_["args"][0]}
        return None

    def scal(e):
        while isinstance(e, dict) and e.get("k") in ("cast", "paren", "conv", "copy", "implicit") and e.get("e") is not None:
            e = e["e"]
        if not isinstance(e, dict):
            return None
        k = e.get("k")
        if k == "lit":
            try:
                return sp.nsimplify(sp.Float(str(e.get("v"))), rational=True)
            except Exception:
                return None
        if k == "var":
            return sp.Symbol("v_" + str(e.get("name")), real=True)
        if k == "mem":
            return sp.Symbol("m_" + pp(e), real=True)
        if k == "un" and e.get("op") in ("-", "+"):
            x = scal(e["e"])
            return None if x is None else (-x if e["op"] == "-" else x)
        if k == "bin" and e.get("op") in ("+", "-", "*", "/"):
            a, b = scal(e["l"]), scal(e["r"])
            if a is None or b is None:
                return None
            return {"+": a + b, "-": a - b, "*": a * b, "/": a / b}[e["op"]]
        if k == "call":
            c = callee(e)
            nm, op = c.get("name"), c.get("op")
            args = [scal(a) for a in e.get("args", []) if not (isinstance(a, dict) and a.get("k") == "defaultarg")]
            if any(a is None for a in args):
                return None
            if e.get("obj") is not None:
                o = scal(e["obj"])
                if o is None:
                    return None
                if op in ("()", "[]") and all(a == 0 for a in args):
                    return o
                if nm in ("x", "value", "sum", "prod", "mean", "transpose", "array", "matrix", "eval", "maxCoeff", "minCoeff") and not args:
                    return o
                if nm in ("norm", "cwiseAbs", "abs", "lpNorm") and not args:
                    return sp.Abs(o)
                if nm == "squaredNorm" and not args:
                    return o ** 2
                if nm == "dot" and len(args) == 1:
                    return o * args[0]
                if op in ("+", "-", "*", "/") and len(args) == 1:
                    return {"+": o + args[0], "-": o - args[0], "*": o * args[0], "/": o / args[0]}[op]
                if nm in ("row", "col", "middleRows", "block", "segment", "head", "tail", "topRows", "bottomRows"):
                    return sp.Symbol("e_" + pp(e), real=True)      # a part of an array: the same text denotes the same part
                return None
            if nm in ("abs", "fabs") and len(args) == 1:
                return sp.Abs(args[0])
            if nm == "sqrt" and len(args) == 1:
                return sp.sqrt(args[0])
            if op in ("+", "-", "*", "/") and len(args) == 2:
                return {"+": args[0] + args[1], "-": args[0] - args[1], "*": args[0] * args[1], "/": args[0] / args[1]}[op]
        return None
    by_dim = {}
    for f in inst:
        t = taken(f)
        if t is None:
            return None, "the branches are not single return / assignment statements"
        d = (F.record(f["cls"]).get("targs") or [None])[0]
        by_dim.setdefault(d, []).append((f, t))
    if 1 not in by_dim or len(by_dim) < 2:
        return None, "no instantiation takes the one-coordinate branch, or only one branch is instantiated"
    gen_dim = max(d for d in by_dim if d != 1)
    a, b = scal(by_dim[1][0][1]), scal(by_dim[gen_dim][0][1])
    if a is None or b is None:
        return None, "branch expressions outside the one-coordinate vocabulary: %s | %s" % (pp(by_dim[1][0][1])[:60], pp(by_dim[gen_dim][0][1])[:60])
    try:
        same = sp.simplify(a - b) == 0
    except Exception:
        return None, "comparison failed"
    return bool(same), "DIM = 1 computes %s; the general branch denotes %s for one coordinate" % (a, b)


def check_raw_views(chk, F):
    per = {}      # (template, other template arguments) -> {class: {(function, arity): [(object, first row, row step, rows)]}}
    nviews = 0
    for f in F.functions:
        c = f.get("cls", "")
        short = next((s_ for s_ in ("PPolyND",) + SPLINES if c.startswith("SplineTrajectory::" + s_ + "<")), None)
        if short is None or not any(rawview.is_map_ctor(n) or rawview.is_eigen_data_call(n) for n in walk(f.get("body"))):
            continue
        vs = rawview.resolve_views(F, f)
        nviews += len(vs)
        key = (short, tuple((F.record(c).get("targs") or [])[1:]))
        per.setdefault(key, {}).setdefault(c, {})[(f["name"], len(f["params"]))] = (f, [(o, a, b, r) for (_n, o, a, b, r) in vs])
    if not per:
        chk.note("R4 premise: no raw storage access (data(), Eigen::Map) in the spline / trajectory classes")
        return
    for key, by_cls in per.items():
        clss = sorted(by_cls, key=lambda c: dim_of(F, c))
        if len(clss) < 2:
            raise Broken("raw-storage views in %s are instantiated for one DIM only; their meaning for the other storage order is not decided" % clss[0])
        ref = clss[-1]
        for cls in clss[:-1]:
            for sig, (f, vs) in sorted(by_cls[cls].items()):
                if sig not in by_cls[ref]:
                    continue
                want = by_cls[ref][sig][1]
                ok = vs == want
                chk.ob("C13-R4", "%s::%s raw-storage views denote the same rows of the same objects as in %s" % (cls, sig[0], ref), ok, loc(f),
                       "DIM=%s: %s ; DIM=%s: %s (object, first row, row step, rows)" % (dim_of(F, cls), vs, dim_of(F, ref), want), construct="%s/%s/raw-views" % (cls, sig[0]))
    chk.note("R4 premise: %d raw-storage views resolved to row maps and compared across DIM" % nviews)


def check_parametricity(chk, F):
    for short in ("PPolyND",) + SPLINES:
        groups = {}
        for cls in full_classes(F, short, ("update", "derivative", "findSegment") if short == "PPolyND" else ("update", "propagateGrad")):
            targs = F.record(cls).get("targs") or []
            key = tuple(targs[1:])       # other template arguments (ORDER of PPolyND)
            groups.setdefault(key, []).append(cls)
        for key, clss in groups.items():
            if len(clss) < 2:
                continue
            clss = sorted(clss, key=lambda c: dim_of(F, c))
            ref = clss[-1]
            sig = lambda f: (f["name"], len(f["params"]), f.get("kind"), f.get("const"), json.dumps([p["ty"].get("c") for p in f["params"]]))
            ref_f = {}
            for f in F.funcs(ref):
                ref_f.setdefault(sig(f), []).append(f)
            for cls in clss[:-1]:
                nsame = ndiff = 0
                firstdiff = None
                for f in F.funcs(cls):
                    cands = ref_f.get(sig(f))
                    if not cands:
                        continue
                    a = json.dumps(erased({"body": f.get("body"), "inits": f.get("inits")}), sort_keys=True)
                    if any(a == json.dumps(erased({"body": g.get("body"), "inits": g.get("inits")}), sort_keys=True) for g in cands):
                        nsame += 1
                    else:
                        ndiff += 1
                        firstdiff = firstdiff or f
                chk.ob("C13-R4", "%s and %s: member bodies identical after erasing DIM (outside if-constexpr branches)" % (cls, ref), ndiff == 0 and nsame > 10,
                       loc(firstdiff) if firstdiff else "", "%d members identical, %d differ" % (nsame, ndiff), construct="%s~%s/parametric" % (cls, ref))
    # where DIM may change behaviour at all: the constexpr conditions mentioning DIM
    conds = set()
    for f in F.functions:
        if not any(("::" + s + "<") in f.get("cls", "") for s in ("PPolyND",) + SPLINES):
            continue
        for n in walk(f.get("body")):
            if n.get("k") == "if" and n.get("constexpr") and any(x.get("nttp") == "DIM" for x in walk(n.get("cond"))):
                conds.add((f["name"], pp(n["cond"])))
    chk.note("DIM-dependent compile-time branches: %s" % sorted(conds))
    for nm, c in sorted(conds):
        if nm == "propagateGradInternal":
            chk.ob("C13-R4", "DIM-dependent branch in %s: %s (both sides compared by R3)" % (nm, c), True, "", "the septic adjoint branches on DIM; its branches are compared by R3", construct="dim-branch/%s/%s" % (nm, c))
            continue
        # any other branch on DIM: the branch taken for one DIM must compute what the branch taken for the other DIMs computes
        # there.  Decided for expression-bodied branches of a one-coordinate special case (a vector with one component is
        # its component: norm = |x|, dot = product, sum = x); anything else is not decided here.
        eq, det = dim_branch_equivalent(F, nm)
        if eq is None:
            raise Broken("DIM-dependent branch in %s (%s): %s" % (nm, c, det))
        chk.ob("C13-R4", "DIM-dependent branch in %s: %s - the special case computes what the general code computes for that DIM" % (nm, c), eq, "", det, construct="dim-branch/%s/%s" % (nm, c))
