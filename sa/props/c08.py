"""C08 - optimizer cost = time + waypoint + trapezoid integral + weighted energy (DESIGN s6 C08).

R1 the returned scalar receives exactly the four specified addends;
R2 sample arguments handed to the running cost (alpha, local time, global time, index, p..s from the workspace
   spline's published coefficients);
R3 basis rows of each order: row 0 = monomials, row d+1 = d/dt row d;
R4 trapezoid rule: k = 0..K inclusive, weights 1/2,1,..,1,1/2 times T/K;
R5 the two-cost overload forwards every argument with a waypoint functor that returns 0 and writes nothing.
"""
import sympy as sp
from sympy import Integer, Rational

from ..facts import Broken, pp, loc, walk
from ..effects import callee
from .. import preds, sym, spec
from ..preds import Scope, canon
from ..sym import Interp, Unsupported, Vec, SmallMat, Struct
from .common import facts_for, optimizer_classes, optimizer_spline_order, strip_copy, SPLINES, full_classes, is_void_waypoints_cost

GNAMES = ["gp", "gv", "ga", "gj", "gs"]


def integral_summary(F, cls, f):
    """Interpret calculateIntegralCost with the user's running cost as an opaque symbol."""
    info = {}

    def on_call(c, e, env, I):
        if c.get("op") == "()" and not c.get("repo") and c.get("ns") is None and len(e.get("args", [])) == 14:
            args = e["args"]
            info["sample"] = [I.ev(a, env) for a in args[:8]]
            for a, nm in zip(args[8:13], GNAMES):
                I.assign(I.evl(a, env), Vec.atom((nm,)), e)
            I.assign(I.evl(args[13], env), sp.Symbol("gt", real=True), e)
            info["ncalls"] = info.get("ncalls", 0) + 1
            return sp.Symbol("cval", real=True)
        return NotImplemented

    def interpret(positive):
        info.clear()
        I = Interp(F, cls, on_call=on_call)
        I.case = {"first": False, "last": False}
        for nm in positive:
            I.field_assumptions[nm] = {"positive": True}
        env = {p["id"]: I.make_value(p["name"], p["ty"]) for p in f["params"]}
        I.run_body(f, env)
        info["I"] = I
        info["env"] = env
        info["params"] = [p["name"] for p in f["params"]]
    # roles are read off the interpreted routine, not assumed by name: a first pass finds the segment count and the number
    # of quadrature steps (the bounds of the two nested loops), the second pass knows they are positive
    interpret(())
    ints = {x["name"] for x in F.record(cls)["fields"] if x["ty"].get("c") == "int"}
    Lseg, Lk = find_loops(info)[:2]

    def bound_member(L):
        nm = [x.name for x in sp.sympify(L.hi).free_symbols if x.name in ints] if L.hi is not None else []
        if len(nm) != 1:
            raise Broken("calculateIntegralCost: loop bound %s is not one integer member of the class" % L.hi)
        return nm[0]
    n_name, ks_name = bound_member(Lseg), bound_member(Lk)
    interpret((n_name, ks_name))
    Lseg, Lk = find_loops(info)[:2]
    i = Lseg.var
    ws, gdC, gdT, cost = info["params"][:4]
    sample = info.get("sample") or []
    base = lambda a: str(a.base).split("#")[0]
    t_at = sorted({base(a) for a in sp.sympify(sample[0]).atoms(sp.Indexed)}) if sample else []
    g_at = sorted({base(a) for a in sp.sympify(sample[1]).atoms(sp.Indexed)} - set(t_at)) if sample else []
    # when the sample times do not have the expected shape (that is for the rules to report), fall back on the workspace
    # members of those names, if they exist; only when there is neither is the routine not understood
    wsrec_fields = {x["name"] for x in F.record(cls + "::Workspace")["fields"]} if (cls + "::Workspace") in F.records else set()
    if len(t_at) != 1:
        t_at = [ws + ".cache_times"] if "cache_times" in wsrec_fields else t_at
    if len(g_at) != 1:
        g_at = [ws + ".segment_start_times"] if "segment_start_times" in wsrec_fields else g_at
    if len(t_at) != 1 or len(g_at) != 1:
        raise Broken("calculateIntegralCost: duration array / segment start-time array not identified from the sample times (%s ; %s)" % (t_at, g_at))
    slot = [e for e in Lseg.effects if len(e.key) == 1 and sym.is_zero(e.key[0] - i) and e.target not in (gdC, gdT) and not e.target.startswith("$")]
    segc = sorted({e.target for e in slot if e.op == "="})
    expl = sorted({e.target for e in slot if e.op == "+="})
    from .c16 import discover_roles
    from ..effects import Effects
    _f, r16 = discover_roles(F, Effects(F), cls)
    info["roles"] = {"n": n_name, "Ks": ks_name, "T": t_at[0], "starts": g_at[0], "segc": segc[0] if len(segc) == 1 else None, "expl": expl[0] if len(expl) == 1 else None,
                     "start": r16["START"]}
    return info


def find_loops(info):
    I = info["I"]
    ws, gdC, gdT, cost = info["params"][:4]
    main = [L for L in I.loops if L.inner and any(e.target == gdC for e in L.effects)]
    if len(main) != 1:
        raise Broken("per-segment quadrature loop not identified")
    Lseg = main[0]
    Lk = Lseg.inner[0]
    stn = (info.get("roles") or {}).get("starts")
    Lstart = next((L for L in I.loops if L is not Lseg and stn is not None and any(e.target == stn for e in L.effects)), None)
    Lcost = next((L for L in I.loops if L is not Lseg and any(e.target == "$" + cost for e in L.effects)), None)
    Lsuffix = next((L for L in I.loops if L.step == -1), None)
    return Lseg, Lk, Lstart, Lcost, Lsuffix


def start_times_content(I, tgt, ws, n, roles=None):
    """Content of the segment start-time array before the quadrature: start[k] = start time + T_0 + ... + T_{k-1} for every
    k in [0, N), however it is computed (a running local, a recurrence on the previous element, point writes).  Claimed
    closed form C(k) = start + PS(k) with PS(0) = 0, PS(k) = PS(k-1) + T[k-1]; every piece is checked against it by
    induction over the index.  Returns (ok, description); an array filled in a way that is not understood is broken."""
    from . import c01
    kk = sp.Symbol("k_", integer=True, nonnegative=True)
    roles = roles or {}
    start = sp.Symbol(roles.get("start", "start_time_"), real=True)
    PS = sp.Function("PS")
    Tb = sp.IndexedBase(roles.get("T", ws + ".cache_times"), real=True)
    # a running local (t = start; loop { ...; t += T[i]; }) holds start + PS(i) at the start of iteration i
    for L in I.loops:
        for nm, (symc, init) in list(L.carried.items()):
            upd = [e for e in L.effects if e.target == "$" + nm]
            if len(upd) == 1 and upd[0].delta is not None and isinstance(init, sp.Basic) and L.lo == 0 and L.step == 1 and sym.is_zero(sp.sympify(upd[0].delta) - Tb[L.var]):
                for e in L.effects:
                    if e.target == tgt and e.op == "=" and isinstance(e.value, sp.Basic) and symc in e.value.free_symbols:
                        e.value = e.value.xreplace({symc: init + PS(L.var)})
    pieces, shape_ok = c01.content_pieces(I, tgt, kk, presized=True)
    if not shape_ok or not pieces:
        raise Broken("the segment start times are filled in a way this rule does not understand")
    is_self = lambda a: str(a.base).split("#")[0] == tgt

    def closed(v, at):
        """v with the array's own elements replaced by the claimed closed form, and every PS(.) expressed through PS(at - 1)"""
        v = sp.sympify(v)
        v = v.xreplace({a: start + PS(a.indices[0]) for a in v.atoms(sp.Indexed) if is_self(a)})
        rep = {}
        for t_ in v.atoms(PS):
            x = sp.expand(t_.args[0])
            if x.is_Integer:
                rep[t_] = sum((Tb[j] for j in range(int(x))), sp.Integer(0))
                continue
            d = sp.expand(x - (at - 1))
            if d.is_Integer and d >= 0:
                rep[t_] = PS(at - 1) + sum((Tb[sp.expand(at - 1 + j)] for j in range(int(d))), sp.Integer(0))
        return sp.expand(v.xreplace(rep))
    ok = c01.tiles(pieces, 0, n, n)
    det = []
    for lo, hi, val in pieces:
        det.append("start[%s..%s) = %s" % (lo, hi, sp.sstr(val)))
        if sym.is_zero(hi - lo - 1) and sp.expand(lo).is_Integer:
            at = sp.expand(lo)
            ok = ok and sym.is_zero(closed(sp.sympify(val).subs(kk, at), at + 1) - closed(start + PS(at), at + 1))
        else:
            # a run of indices: k >= lo; for k = 0 the claim is start itself
            res = closed(val, kk) - closed(start + PS(kk), kk)
            ok = ok and sym.is_zero(res)
            if sym.is_zero(lo):
                ok = ok and sym.is_zero(sp.expand(sp.sympify(val).subs(kk, 0).xreplace({PS(sp.Integer(0)): sp.Integer(0)})) - start)
    return bool(ok), "; ".join(det)


def run(chk):
    F = facts_for(chk)
    # ---- R3 basis rows per spline order ----------------------------------------------------------
    for short in SPLINES:
        for cls in full_classes(F, short, ("update", "computeBasisFunctions")):
            f = F.func1(cls, "computeBasisFunctions")
            chk.saw(f)
            I = Interp(F, cls)
            t = sp.Symbol("t", real=True)
            env = {f["params"][0]["id"]: t}
            mats = []
            for p in f["params"][1:]:
                m = SmallMat(p["ty"]["rows"], p["ty"]["cols"])
                env[p["id"]] = m
                mats.append(m)
            I.run_body(f, env)
            K = mats[0].c
            for d, m in enumerate(mats):
                for r in range(K):
                    want = sp.diff(t ** r, t, d)
                    got = m.e[0][r]
                    ok = got is not None and sp.simplify(got - want) == 0
                    chk.ob("C08-R3", "%s basis row %d entry %d = d^%d/dt^%d t^%d" % (cls, d, r, d, d, r), ok, loc(f), "code %s, derivative %s" % (got, want), construct="%s/basis/%d/%d" % (cls, d, r))
    chk.floor("C08-R3", 6 * (4 + 6 + 8))
    for cls in optimizer_classes(F):
        order, spl = optimizer_spline_order(F, cls)
        Kc = {3: 4, 5: 6, 7: 8}[order]
        for f in F.funcs(cls, "calculateIntegralCost"):
            chk.saw(f)
            inst = f["full"].split("calculateIntegralCost")[1][:50]
            info = integral_summary(F, cls, f)
            I = info["I"]
            ws, gdC, gdT, cost = info["params"][:4]
            Lseg, Lk, Lstart, Lcost, Lsuffix = find_loops(info)
            i, k = Lseg.var, Lk.var
            R_ = info["roles"]
            n = sp.Symbol(R_["n"], integer=True, positive=True)
            Ks = sp.Symbol(R_["Ks"], integer=True, positive=True)
            T = sp.Indexed(sp.IndexedBase(R_["T"], real=True), i)
            where = loc(f, {"line": Lseg.line})
            # ---- R4 -----------------------------------------------------------------------------------
            okk = Lk.lo == 0 and sym.is_zero(Lk.hi - Ks) and Lk.cond_op == "<=" and Lk.step == 1
            chk.ob("C08-R4", "%s%s samples k = 0..K inclusive" % (cls, inst), okk, where, "k from %s while k %s %s" % (Lk.lo, Lk.cond_op, Lk.hi), construct="%s/integral%s/k-range" % (cls, inst))
            acc = [e for e in Lk.effects if e.target == "$local_acc_cost" or (e.target.startswith("$") and e.delta is not None and e.delta.has(sp.Symbol("cval", real=True)) and not e.delta.has(sp.Symbol("gt", real=True)) and sp.sympify(e.delta).has(T))]
            cv = sp.Symbol("cval", real=True)
            cost_acc = None
            for e in Lk.effects:
                if e.target.startswith("$") and e.op == "+=" and e.delta is not None and sp.simplify(sp.diff(e.delta, cv)).has(T) and not any(sm in e.delta.free_symbols for sm in sym._DOTS):
                    cost_acc = e
            okw = False
            det = ""
            if cost_acc is not None:
                w = sp.simplify(sp.diff(cost_acc.delta, cv))
                w0 = sp.simplify(w.subs(k, 0))
                wK = sp.simplify(w.subs(k, Ks))
                r_, q_ = sp.Symbol("r_int", integer=True, nonnegative=True), sp.Symbol("q_int", integer=True, nonnegative=True)
                # generic interior sample: k = r+1, K = r+q+2  (0 < k < K for all r, q >= 0)
                wmid = sp.simplify(w.subs({k: r_ + 1, Ks: r_ + q_ + 2}, simultaneous=True)).subs(r_ + q_ + 2, Ks)
                Tm = T
                okw = sym.is_zero(w0 - T / (2 * Ks)) and sym.is_zero(wK - T / (2 * Ks)) and sym.is_zero(wmid - T / Ks) and sym.is_zero(cost_acc.delta - cv * w)
                det = "weight(0)=%s weight(K)=%s weight(interior)=%s" % (w0, wK, sp.simplify(wmid))
            chk.ob("C08-R4", "%s%s trapezoid weights T/K * (1/2, 1, ..., 1, 1/2)" % (cls, inst), okw, where, det, construct="%s/integral%s/weights" % (cls, inst))
            segc = [e for e in Lseg.effects if R_["segc"] is not None and e.target == R_["segc"]]
            car = Lk.carried.get(cost_acc.target[1:]) if cost_acc is not None else None
            oks = len(segc) == 1 and segc[0].op == "=" and sym.is_zero(segc[0].key[0] - i) and car is not None and car[1] == 0 and cost_acc is not None and sym.is_zero(segc[0].value - car[0] - cost_acc.delta)
            chk.ob("C08-R4", "%s%s segment cost i = sum of the weighted samples, starting from 0" % (cls, inst), oks, where, "", construct="%s/integral%s/segment-cost" % (cls, inst))
            okr = Lseg.lo == 0 and sym.is_zero(Lseg.hi - n) and Lseg.step == 1
            chk.ob("C08-R4", "%s%s every segment is integrated" % (cls, inst), okr, where, "", construct="%s/integral%s/seg-range" % (cls, inst))
            # ---- R2 ------------------------------------------------------------------------------------
            sample = info.get("sample")
            if not sample:
                raise Broken("running-cost call not found")
            alpha = k / Ks
            tloc = alpha * T
            chk.ob("C08-R2", "%s%s local time = (k/K) * T_i" % (cls, inst), sym.is_zero(sample[0] - tloc), where, str(sample[0]), construct="%s/sample%s/t" % (cls, inst))
            # global time
            tg = sample[1]
            okg = False
            det = str(tg)
            st_atoms = [a for a in sp.sympify(tg).atoms(sp.Indexed) if str(a.base).split("#")[0] == R_["starts"]]
            if len(st_atoms) == 1:
                okg = sym.is_zero(tg - st_atoms[0] - tloc) and sym.is_zero(st_atoms[0].indices[0] - i)
                okc, detc = start_times_content(I, str(st_atoms[0].base).split("#")[0], ws, n, R_)
                okg = okg and okc
                det += " ; " + detc
            chk.ob("C08-R2", "%s%s global time = (start time + durations of the earlier segments) + local time" % (cls, inst), okg, where, det, construct="%s/sample%s/t_global" % (cls, inst))
            chk.ob("C08-R2", "%s%s segment index argument is the segment being integrated" % (cls, inst), sample[2] == i, where, str(sample[2]), construct="%s/sample%s/index" % (cls, inst))
            coef_names = {a[0] for v in sample[3:8] if isinstance(v, Vec) for a in v.t}
            from .common import workspace_spline_field
            spn = workspace_spline_field(F, cls + "::Workspace")[0]
            # the coefficient array reached through the workspace's spline member and that spline's trajectory (whatever
            # the members are called: the path goes workspace . spline . <PPolyND member> . <its coefficient member>)
            okc = len(coef_names) == 1 and next(iter(coef_names)).startswith(ws + "." + spn + ".") and next(iter(coef_names)).count(".") == 3
            chk.ob("C08-R2", "%s%s states are built from the workspace spline's published coefficients" % (cls, inst), okc, where, str(coef_names), construct="%s/sample%s/coeff-source" % (cls, inst))
            cname = next(iter(coef_names)) if coef_names else "?"
            cs = spec.coeff_atoms(cname, Kc * i, Kc)
            for d, nm in enumerate(["position", "velocity", "acceleration", "jerk", "snap"]):
                want = spec.deriv_at(cs, d, tloc)
                got = sample[3 + d]
                ok = isinstance(got, Vec) and got.add(want, -1).is_zero()
                chk.ob("C08-R2", "%s%s %s sample = d^%d/dt^%d of segment i's polynomial at the local time" % (cls, inst, nm, d, d), ok, where, "", construct="%s/sample%s/%s" % (cls, inst, nm))
        # ---- R1 / R5 on evaluate -------------------------------------------------------------------------
        for k_, f in enumerate([g for g in F.funcs(cls, "evaluate") if len(g["params"]) == 7]):
            check_cost_addends(chk, F, cls, f, first=(k_ == 0))
        for f in [g for g in F.funcs(cls, "evaluate") if len(g["params"]) == 6]:
            check_forward(chk, F, cls, f)
    void = [g for g in F.functions if g.get("clsname") == "VoidWaypointsCost" and g["name"] == "operator()"]
    for g in void:
        rets = [n for n in walk(g["body"]) if n.get("k") == "return"]
        ok = len(rets) == 1 and float(strip_copy(rets[0]["e"]).get("v", "1")) == 0.0 and len(g["body"]["body"]) == 1
        chk.ob("C08-R5", "VoidWaypointsCost returns 0 and writes nothing", ok, loc(g), pp(g["body"]).strip(), construct="VoidWaypointsCost/" + g["full"][-40:])
    chk.floor("C08-R1", 16)
    chk.floor("C08-R2", 60)
    chk.floor("C08-R4", 30)
    chk.floor("C08-R5", 5)
    chk.not_decided = ["values returned by the user functors; rounding"]


def check_cost_addends(chk, F, cls, f, ctx=None, first=True):
    """R1 on the algebraic summary of evaluate(): on every path the returned value is time cost + quadrature +
    waypoint cost (when there is one) + rho * energy (when rho > 0), each functor seeing the decoded quantities."""
    from .. import evalrules
    from ..effects import Effects
    from . import evalctx
    inst = f["full"].split("evaluate")[1][:60]
    if ctx is None:
        ctx = evalctx.context(F, Effects(F), cls)
    c2 = dict(ctx, void="VoidWaypointsCost" in f["full"])
    V, npaths = evalrules.analyse_cached(F, cls, f, c2, full=(first or chk.tier == "thorough"))
    where = loc(f)
    for rid, text in (("cost", "returned cost = time cost + quadrature + waypoint cost + rho * energy (rho > 0), nothing else"),
                      ("time-buffer", "the time cost is evaluated on the decoded durations, after the spline update"),
                      ("wp-buffer", "the waypoint cost is evaluated on the decoded waypoints"),
                      ("energy-source", "the energy is the workspace spline's, fetched once when the weight is positive"),
                      ("update-once", "all terms refer to the one spline built from this decision vector"),
                      ("decode-times", "that spline is built from the durations decoded from x"),
                      ("decode-waypoints", "that spline and the waypoint cost use the waypoints decoded from x (reference elsewhere), on every path"),
                      ("decode-bc", "that spline is built from the boundary state decoded from x (reference elsewhere)")):
        okv, detv = V.v[rid]
        chk.ob("C08-R1", "%s%s %s" % (cls, inst, text), okv, where, detv or "%d paths" % npaths, construct="%s/cost%s/%s" % (cls, inst, rid))
    # the by-reference accumulation inside the integral routine: cost += segment_costs[i] for all i, serially
    g = next((h for h in F.funcs(cls, "calculateIntegralCost") if any(c_.get("fid") == h["fid"] for c_, _ in F.callees(f))), None)
    if g is None:
        gs = [h for c_, h in F.callees(f) if h.get("cls") == cls and len(h["params"]) >= 4 and any(p_["ty"].get("c") == "double" and p_["ty"].get("ref") for p_ in h["params"])]
        g = gs[0] if gs else None
    if g is None:
        raise Broken("%s%s: the quadrature routine called by evaluate() was not identified" % (cls, inst))
    info = integral_summary(F, cls, g)
    Lseg, Lk, Lstart, Lcost, Lsuffix = find_loops(info)
    cidx = next(k_ for k_, p_ in enumerate(g["params"]) if p_["ty"].get("c") == "double" and p_["ty"].get("ref") and not p_["ty"].get("const"))
    cost_name = info["params"][cidx]
    n = sp.Symbol(info["roles"]["n"], integer=True, positive=True)
    segc_name = info["roles"]["segc"] or "?"
    ok = Lcost is not None
    if ok:
        e = [x for x in Lcost.effects if x.target == "$" + cost_name]
        iv = Lcost.var
        ok = len(e) == 1 and e[0].op == "+=" and len(e[0].delta.atoms(sp.Indexed)) == 1 and str(list(e[0].delta.atoms(sp.Indexed))[0].base).split("#")[0] == segc_name \
            and sym.is_zero(list(e[0].delta.atoms(sp.Indexed))[0].indices[0] - iv) and sym.is_zero(e[0].delta - list(e[0].delta.atoms(sp.Indexed))[0]) and Lcost.lo == 0 and sym.is_zero(Lcost.hi - n)
        others = [x for L in info["I"].loops for x in L.effects if x.target == "$" + cost_name and L is not Lcost]
        ok = ok and not others and not [x for x in info["I"].effects if x.target == "$" + cost_name]
    else:
        # the same sum written with std::accumulate over [begin, begin + N)
        fin = info["env"].get(g["params"][cidx]["id"])
        ini = sp.Symbol(cost_name, real=True)
        d_ = sp.expand(fin - ini) if isinstance(fin, sp.Basic) else None
        ok = (d_ is not None and d_.func == sp.Function("rangesum") and str(d_.args[0]).split("#")[0] == segc_name and sym.is_zero(d_.args[1]) and sym.is_zero(d_.args[2] - n)
              and not [x for L in info["I"].loops for x in L.effects if x.target == "$" + cost_name])
    chk.ob("C08-R1", "%s%s the integral routine adds exactly the sum of all segment costs to the cost" % (cls, inst), ok, loc(g), "", construct="%s/cost%s/segment-sum" % (cls, inst))


def lit_zero(e):
    e = strip_copy(e)
    try:
        return isinstance(e, dict) and e.get("k") == "lit" and float(e["v"]) == 0.0
    except Exception:
        return False


def check_forward(chk, F, cls, f):
    chk.saw(f)
    sc = Scope(f)
    rets = [n for n in walk(f["body"]) if n.get("k") == "return"]
    ok = len(rets) == 1
    det = ""
    if ok:
        c = strip_copy(rets[0]["e"])
        prim = {g["fid"] for g in F.funcs(cls, "evaluate") if len(g["params"]) == 7}
        ok = c.get("k") == "call" and callee(c).get("fid") in prim
        if ok:
            a = [canon(x, sc) for x in c["args"]]
            ok = a[0] == "$p0" and a[1] == "$p1" and a[2] == "$p2" and is_void_waypoints_cost(F, c["args"][3]) and a[4:] == ["$p3", "$p4", "$p5"]
            det = str(a)
    chk.ob("C08-R5", "%s two-cost evaluate forwards x, grad, both functors, workspace and executor with a void waypoint cost" % cls, ok, loc(f), det, construct="%s/evaluate-forward%s" % (cls, f["full"].split("evaluate")[1][:40]))
