"""C09 - decision-vector layout, dimension and initial-guess round trip (DESIGN s6 C09).

R1 layout builder formulas (offsets, per-point widths, derivative offset, total dimension, which points);
R2 sibling agreement of the block counter and the encode / decode / gradient traversals (same guarded sequence,
   DIM slots per block from the derivative offset; the three spatial loops use the stored triple; time slots);
R3 every writer of a layout input leaves the cache dirty or rebuilt (typestate shared with C12-R4);
R4 pinning: decoded quantities start as copies of the reference, only flagged parts are overwritten;
R5 the exposed spline is the built-in workspace's spline, which evaluate() updates from the decoded vector.
"""
import sympy as sp
from sympy import Integer

from ..facts import Broken, pp, loc, walk
from ..effects import Effects, callee, roots
from .. import preds, sym
from ..preds import Scope, canon
from ..sym import Interp, Unsupported, Struct
from ..wsdef import WsDef
from .common import facts_for, optimizer_classes, optimizer_spline_order, strip_copy, is_this_mem, lit_value, write_rhs, workspace_spline_field
from . import c12

FIELD_OF_FLAG = {"start_v": "start_velocity", "start_a": "start_acceleration", "start_j": "start_jerk",
                 "end_v": "end_velocity", "end_a": "end_acceleration", "end_j": "end_jerk"}
GRAD_OF_FLAG = {"start_v": "start.v", "start_a": "start.a", "start_j": "start.j", "end_v": "end.v", "end_a": "end.a", "end_j": "end.j"}
NEED = {"start_v": 3, "end_v": 3, "start_a": 5, "end_a": 5, "start_j": 7, "end_j": 7}
ORDERED = ["start_v", "start_a", "start_j", "end_v", "end_a", "end_j"]


def guarded_sequence(body, sc, flags_member):
    """[(flag, canonical statement kind/arg)] in execution order from a straight sequence of guarded statements."""
    out = []

    def rec(s, flag):
        if s is None:
            return
        k = s.get("k")
        if k == "block":
            for x in s["body"]:
                rec(x, flag)
        elif k == "if":
            if s.get("constexpr") and s.get("taken"):
                rec(s["then"] if s["taken"] == "then" else s.get("else"), flag)
                return
            c = canon(s["cond"], sc)
            pre = "this.%s." % flags_member
            if not c.startswith(pre) or s.get("else") is not None or flag is not None:
                raise Broken("unrecognised guard in a derivative-block traversal: %s" % pp(s["cond"]))
            rec(s["then"], c[len(pre):])
        elif k == "expr":
            e = s["e"]
            if e.get("k") == "call" and callee(e).get("op") == "()":
                out.append((flag, "call", canon(e["args"][0], sc) if e.get("args") else ""))
            elif e.get("k") == "un" and e["op"] == "++":
                out.append((flag, "count", canon(e["e"], sc)))
            else:
                raise Broken("unrecognised statement in a derivative-block traversal: %s" % pp(e))
        elif k in ("null",):
            pass
        elif k == "decl":
            sc.bind_local(s)
        elif k == "return":
            pass
        else:
            raise Broken("unrecognised statement kind %s in a derivative-block traversal" % k)

    rec(body, None)
    return out


def find_traversals(f):
    """generic lambdas taking a callable + the lambda passed to them, in order of appearance"""
    gens = {}
    order = []
    for n in walk(f["body"]):
        if n.get("k") == "lambda" and n.get("generic"):
            gens[n["lid"]] = n
    calls = []
    for n in walk(f["body"]):
        if n.get("k") == "call" and callee(n).get("lid") in gens and n.get("args") and n["args"][0].get("k") == "lambda":
            calls.append((gens[callee(n)["lid"]], n["args"][0], n))
    return calls


COUNT = {"name": "num_segments_"}


def run(chk):
    F = facts_for(chk)
    E = Effects(F)
    for cls in optimizer_classes(F):
        order, spl = optimizer_spline_order(F, cls)
        rec = F.record(cls)
        dim = rec["targs"][0]
        dirty, rebuild, ins, outs = c12.layout_roles(F, E, cls)
        flags_member = next(x["name"] for x in rec["fields"] if "OptimizationFlags" in x["ty"].get("n", ""))
        from .c16 import discover_roles
        count_member = discover_roles(F, E, cls)[1]["COUNT"]        # the segment-count member, whatever it is called
        COUNT["name"] = count_member
        expected_flags = [fl for fl in ORDERED if order >= NEED[fl]]
        # ---------------------------------------------------------------- R1
        roles, members = check_builder(chk, F, cls, rebuild, flags_member, dim, expected_flags, dirty, count_member)
        # ---------------------------------------------------------------- R2
        gi = F.func1(cls, "generateInitialGuess")
        evs = [f for f in F.funcs(cls, "evaluate") if len(f["params"]) == 7]
        if not evs:
            raise Broken("primary evaluate not instantiated for " + cls)
        check_initial_guess(chk, F, E, cls, gi, roles, members, flags_member, dim, expected_flags, dirty, count_member)
        check_time_point_overload(chk, F, cls)
        # evaluate(): decode and encode decided on the algebraic summary of each instantiation (evalsum / evalrules):
        # full enumeration of the flag assignments for the first instantiation, all-set / none-set for its siblings
        # (quick tier), full for every instantiation in the thorough tier
        from .. import evalrules
        from . import evalctx
        ctx = evalctx.context(F, E, cls, roles, members)
        R2 = [("decode-times", "duration i handed to the spline = toTime(x[i]), i < N"),
              ("decode-waypoints", "waypoints handed to the spline = reference with row point_index <- toPhysical(x[offset, offset+dof)) per layout entry"),
              ("decode-before-update", "decoding is complete before the spline is updated and untouched afterwards"),
              ("update-once", "the workspace spline is updated exactly once"),
              ("flags-consulted", "exactly the derivative flags the spline order has are consulted"),
              ("encode-zero", "grad_out is sized to x and zeroed before its slots are written"),
              ("encode-times", "gradient slot i <- backward(x[i], duration i, dCost/dT_i), i < N"),
              ("encode-spatial", "gradient slots [offset, offset+dof) <- backwardGrad(x slice, gradient of that very waypoint, its index)"),
              ("encode-blocks", "gradient block j (j-th set flag, canonical order) at derivative offset + j*DIM <- gradient of that boundary derivative")]
        for k_, f in enumerate(evs):
            chk.saw(f)
            inst = f["name"] + f["full"].split("evaluate")[1][:50]
            c2 = dict(ctx, void="VoidWaypointsCost" in f["full"])
            V, npaths = evalrules.analyse_cached(F, cls, f, c2, full=(k_ == 0 or chk.tier == "thorough"))
            for rid, text in R2:
                okv, detv = V.v[rid]
                chk.ob("C09-R2", "%s %s: %s" % (cls, inst, text), okv, loc(f), detv or "%d paths" % npaths, construct="%s/%s/%s" % (cls, inst, rid))
            okv, detv = V.v["decode-bc"]
            chk.ob("C09-R4", "%s %s: boundary state handed to the spline = reference, with exactly the flagged blocks taken from x (block j at derivative offset + j*DIM); start time = reference" % (cls, inst),
                   okv, loc(f), detv or "%d paths" % npaths, construct="%s/%s/pinning-bc" % (cls, inst))
            okv, detv = V.v["reference-untouched"]
            chk.ob("C09-R4", "%s %s: evaluate() leaves the reference state, the flags and the cached layout untouched" % (cls, inst), okv, loc(f), detv or "%d paths" % npaths,
                   construct="%s/%s/reference-untouched" % (cls, inst))
            okv, detv = V.v["decode-waypoints"]
            chk.ob("C09-R4", "%s %s: decoded waypoints start as a copy of the reference; only layout entries are overwritten" % (cls, inst), okv, loc(f), detv or "%d paths" % npaths,
                   construct="%s/%s/pinning-waypoints" % (cls, inst))
        # ---------------------------------------------------------------- R3
        for f in F.funcs(cls):
            if f.get("access") != "public" or f.get("static") or f.get("kind") == "dtor":
                continue
            if f.get("const") and f.get("kind") != "ctor":
                continue
            if f.get("copyctor") or f.get("kind") == "copyassign":
                # copy operations: the cache is consistent with its inputs in the copy iff it was in the source - provided the
                # inputs, the cached members and the dirty flag all end as copies from the same source (pointers re-bound
                # as C15-R2 requires); decided by the provenance interpretation, whatever helpers the operation uses
                from ..own import Sim, Unknown
                from . import c15
                import itertools
                selfptr = {}
                for g_ in F.funcs(cls):
                    for path, how, node in E.function_writes(g_):
                        if path[0] == "this" and len(path) == 2 and (F.field(cls, path[1]) or {}).get("ty", {}).get("c") == "ptr":
                            for n_ in walk(write_rhs(node)):
                                if n_.get("k") == "un" and n_["op"] == "&" and is_this_mem(n_["e"]):
                                    selfptr[path[1]] = strip_copy(n_["e"])["field"]
                owning = [x["name"] for x in rec["fields"] if x["ty"].get("std") == "unique_ptr"]
                is_ctor = bool(f.get("copyctor"))
                bad = None
                for cfg in [dict(zip(sorted(selfptr), c_)) for c_ in itertools.product(("own", "ext"), repeat=len(selfptr))]:
                    from ..own import layout_hook, cache_consistent
                    S_ = Sim(F, cls, {"ptr": cfg, "other_ws": True, "this_ws": not is_ctor, "self": False}, selfptr, owning, is_ctor, other_id=f["params"][0]["id"])
                    S_.hook = layout_hook(rebuild, dirty, ins, outs)
                    try:
                        S_.run(f)
                    except Unknown as ex:
                        raise Broken("%s: %s" % (f["full"], ex))
                    want_in = {m_: ((("addr", "this", selfptr[m_]) if cfg[m_] == "own" else ("ext", m_)) if m_ in selfptr else ("val", "other", m_)) for m_ in ins}
                    why = cache_consistent(S_.state, dirty, ins, [o for o in outs if o in S_.state], want_in)
                    if why:
                        bad = why
                chk.saw(f)
                chk.ob("C09-R3", "%s (%d params): layout inputs written => cache dirty or rebuilt" % (f["full"], len(f["params"])), bad is None, loc(f),
                       bad or "inputs come from the source; the cached layout is copied with them, or rebuilt / marked dirty after the last input received its final value", construct="%s::%s/%d/layout-stale" % (cls, f["name"], len(f["params"])))
                continue
            fl = c12.layout_flow(F, E, cls, dirty, ins, outs)
            fld = F.field(cls, dirty)
            init_dirty = lit_value(fld.get("init"))
            start = ((init_dirty != "false"), f.get("kind") == "ctor" and not f.get("copyctor"), frozenset()) if f.get("kind") == "ctor" else (False, False, frozenset())
            out, exits = fl.run(f, start)
            ends = [(s, None) for s in out] + exits
            bad = [(s, r) for s, r in ends if s[1] and not s[0] and set(s[2]) != set(outs)]
            chk.saw(f)
            chk.ob("C09-R3", "%s (%d params): layout inputs written => cache dirty or rebuilt" % (f["full"], len(f["params"])), not bad, loc(f, bad[0][1] if bad else None),
                   "inputs %s; an exit is reached with the cache marked clean but not rebuilt" % sorted(ins) if bad else "inputs %s" % sorted(ins),
                   construct="%s::%s/%d/layout-stale" % (cls, f["name"], len(f["params"])))
        # ---------------------------------------------------------------- R5
        g = F.func1(cls, "getOptimalSpline")
        chk.saw(g)
        rets = [n for n in walk(g["body"]) if n.get("k") == "return"]
        owned = next(x["name"] for x in rec["fields"] if x["ty"].get("std") == "unique_ptr")
        vals = [canon(r["e"], Scope(g)) for r in rets]
        spn = workspace_spline_field(F, cls + "::Workspace")[0]
        ok = sorted(vals) == sorted(["(&(*this.%s).%s)" % (owned, spn), "nullptr"]) or sorted(vals) == sorted(["(&this.%s.%s)" % (owned, spn), "nullptr"])
        chk.ob("C09-R5", "%s::getOptimalSpline exposes the built-in workspace's spline (or nullptr before it exists)" % cls, ok, loc(g), str(vals), construct=cls + "/getOptimalSpline")
        # the accessor of the built-in workspace, by what it does: the member function that returns a Workspace pointer and
        # fills the owned workspace member
        gocs = [g_ for g_ in F.funcs(cls) if (g_.get("ret") or {}).get("c") == "ptr" and ((g_.get("ret") or {}).get("pointee") or {}).get("n") == cls + "::Workspace"
                and any(p_[:2] == ("this", owned) for p_, h_, n_ in E.function_writes_local(g_))]
        if len(gocs) != 1:
            raise Broken("built-in workspace accessor not identified in %s (%d candidates)" % (cls, len(gocs)))
        goc = gocs[0]
        for f in evs:
            sc = Scope(f)
            ws_alias = None
            for n in walk(f["body"]):
                if n.get("k") == "decl" and n.get("bind") == "alias" and n.get("init", {}).get("k") == "cond":
                    ws_alias = n
            okw = False
            if ws_alias is not None:
                c = ws_alias["init"]
                okw = canon(c["c"], sc) in ("($p5 != nullptr)", "(nullptr != $p5)") and canon(c["a"], sc) == "(*$p5)" and canon(c["b"], sc) == "(*this.%s())" % goc["name"]
            chk.ob("C09-R5", "%s evaluate without a workspace uses the built-in one" % cls, okw, loc(f), pp(ws_alias["init"]) if ws_alias else "", construct="%s/evaluate%s/internal-ws" % (cls, f["full"].split("evaluate")[1][:40]))
        rets = [n for n in walk(goc["body"]) if n.get("k") == "return"]
        ok = len(rets) == 1 and canon(rets[0]["e"], Scope(goc)) == "this.%s.get()" % owned
        chk.ob("C09-R5", "%s built-in workspace accessor returns the owned workspace" % cls, ok, loc(goc), "", construct=cls + "/getOrCreate")
    chk.floor("C09-R1", 20)
    chk.floor("C09-R2", 60)
    chk.floor("C09-R3", 20)
    chk.floor("C09-R5", 8)
    chk.not_decided = ["the round trip of the initial guess additionally needs the time-map inverse (C17) and a user spatial map that honours toPhysical(toUnconstrained(p)) = p"]


def check_time_point_overload(chk, F, cls):
    """the reference problem may be given by absolute time points: that overload must hand the durations overload
    duration k = point[k+1] - point[k] for every k in [0, #points - 1) and start time = point[0] (otherwise the initial
    guess decodes to other durations than the reference the caller gave)"""
    from .c01 import content_pieces
    fs = [f for f in F.funcs(cls, "setInitState") if f.get("body")]
    f4 = [f for f in fs if len(f["params"]) == 4]
    f3 = [f for f in fs if len(f["params"]) == 3 and f["params"][0]["ty"].get("std") == "vector"]
    if len(f4) != 1 or len(f3) != 1:
        raise Broken("setInitState overloads (durations / time points) not found in %s" % cls)
    f4, f3 = f4[0], f3[0]
    chk.saw(f3)
    cap = {}

    def on_call(c, e, env, I):
        if c.get("fid") == f4["fid"]:
            a0 = e["args"][0]
            while isinstance(a0, dict) and a0.get("k") in ("cast", "paren", "copy", "implicit") and a0.get("e") is not None:
                a0 = a0["e"]
            cap["durations"] = a0
            cap["start"] = I.ev(e["args"][2], env)
            cap["n"] = cap.get("n", 0) + 1
            return sp.Symbol("verdict")
        ot = ((e.get("obj") or {}).get("t") or {})
        if ot.get("std") == "basic_string" or "basic_string" in str(ot.get("n")):
            return None
        return NotImplemented

    def oracle(s_, c, I):
        return False        # the guards of this overload reject empty / too short inputs: outside the property's domain

    I = Interp(F, cls, on_call=on_call, branch_oracle=oracle)
    env = {p["id"]: I.make_value(p["name"], p["ty"]) for p in f3["params"]}
    try:
        I.run_body(f3, env)
    except Unsupported as ex:
        raise Broken("time-point overload of setInitState not analysable: %s" % ex)
    if cap.get("n") != 1 or not isinstance(cap.get("durations"), dict) or cap["durations"].get("k") != "var":
        raise Broken("time-point overload of setInitState does not forward one local duration list to the durations overload")
    name = cap["durations"]["name"]
    tp = f3["params"][0]["name"]
    T = sp.IndexedBase(tp, real=True)
    size = sp.Symbol(tp + ".size", integer=True, nonnegative=True)
    kk = sp.Symbol("k_", integer=True, nonnegative=True)
    ev_list = [e for e in I.effects if e.target == name]
    loops_d = [(L, e) for L in I.loops for e in L.effects if e.target == name]
    if not [e for e in ev_list if e.op not in ("reserve",)] and len(loops_d) == 1 and loops_d[0][1].op == "push_back" and loops_d[0][0].step == 1 and loops_d[0][0].cond_op == "<":
        L, e = loops_d[0]
        pieces, shape_ok = [(sp.Integer(0), sp.expand(L.hi - L.lo), sp.sympify(e.value).subs(L.var, kk + L.lo))], True
    else:
        pieces, shape_ok = content_pieces(I, name, kk, presized=True)
    if not shape_ok or not pieces:
        raise Broken("time-point overload of setInitState fills its duration list in a shape this rule does not understand")
    ok_val = True
    det = []
    for lo, hi, val in pieces:
        want = T[kk + 1] - T[kk]
        good = sym.is_zero(sp.sympify(val) - want)
        if not good and sym.is_zero(hi - lo - 1):
            good = sym.is_zero(sp.sympify(val).subs(kk, lo) - want.subs(kk, lo))
        ok_val = ok_val and good
        det.append("durations[%s..%s) = %s" % (lo, hi, sp.sstr(val)))
    ps = sorted(pieces, key=lambda p_: sp.sympify(p_[0]).subs(size, 1000))
    ok_tile = sym.is_zero(ps[0][0]) and sym.is_zero(ps[-1][1] - (size - 1)) and all(sym.is_zero(a[1] - b[0]) for a, b in zip(ps, ps[1:]))
    chk.ob("C09-R2", "%s setInitState(time points): duration k = point[k+1] - point[k] for every k in [0, #points-1)" % cls, ok_val and ok_tile, loc(f3), "; ".join(det),
           construct=cls + "/setInitState-timepoints/durations")
    chk.ob("C09-R2", "%s setInitState(time points): start time = first point" % cls, sym.is_zero(sp.sympify(cap["start"]) - T[0]), loc(f3), "start = %s" % sp.sstr(cap["start"]),
           construct=cls + "/setInitState-timepoints/start")


def is_copy_of_member(f, name, sc):
    """`name` is a local value object initialised as a copy of a member (the reference state)"""
    for n in walk(f["body"]):
        if n.get("k") == "decl" and ("%" + n["name"]) == name and n.get("init") is not None and not n["ty"].get("ref"):
            return canon(n["init"], sc).startswith("this.")
    return False


def classify_op(op, sc, dim):
    """The per-block lambda: encode (x.segment<DIM>(off) = v), decode (target = x.segment<DIM>(off)), gradient (grad.segment<DIM>(off) = g)."""
    spec = op["specs"][0]
    sc2 = Scope(params=spec["params"])
    sc2.local_init = dict(sc.local_init)
    sc2.opaque = dict(sc.opaque)
    st = spec["body"]["body"]
    out = {"kind": "unknown", "ok": False, "detail": pp(spec["body"]).strip()}
    if len(st) != 2:
        return out
    a, inc = st[0].get("e", {}), st[1].get("e", {})
    off = None
    if inc.get("k") == "assign" and inc["op"] == "+=" and canon(inc["r"], sc2) == str(dim) and inc["l"].get("k") == "var":
        off = inc["l"]
    if off is None:
        return out
    out["offset_id"] = off["id"]
    seg = None
    lhs = a.get("obj") if a.get("k") == "call" and callee(a).get("op") == "=" else None
    rhs = a.get("args", [None])[0] if lhs is not None else None
    if lhs is None:
        return out

    def is_seg(e):
        e = strip_copy(e)
        if e.get("k") == "call" and callee(e).get("name") == "segment":
            args = e.get("args", [])
            targs = callee(e).get("targs") or []
            if targs and targs[0] == dim and args and args[0].get("k") == "var" and args[0]["id"] == off["id"]:
                return canon(e["obj"], sc2)
        return None
    l_seg, r_seg = is_seg(lhs), is_seg(rhs)
    if l_seg and canon(rhs, sc2) == "$p0":
        out["kind"] = "gradient" if "grad" in l_seg else "encode"
        out["ok"] = True
        out["vector"] = l_seg
    elif r_seg and canon(lhs, sc2) == "$p0":
        out["kind"] = "decode"
        out["ok"] = True
        out["vector"] = r_seg
    out["detail"] = pp(spec["body"]).strip().replace("\n", " ; ")
    return out


def offset_starts_at(f, call, off_id, outs):
    """the last write to the running offset before `call` assigns the derivative-offset member"""
    if off_id is None:
        return False
    last = None
    for s in f["body"]["body"]:
        if any(n is call for n in walk(s)):
            break
        if s.get("k") == "decl" and s["id"] == off_id:
            last = s.get("init")
        # an earlier traversal whose per-block callable advances the same offset
        if s.get("k") == "expr" and any(n.get("k") == "lambda" and any(m.get("k") == "assign" and m["l"].get("k") == "var" and m["l"]["id"] == off_id for m in walk(n.get("specs")))
                                       for n in walk(s)):
            last = {"k": "lit", "v": "advanced-by-earlier-traversal", "lt": "string"}
            continue
        for n in walk(s):
            if n.get("k") == "assign" and n["l"].get("k") == "var" and n["l"]["id"] == off_id and not any(m is n for m in walk(call)):
                if s.get("k") == "expr" and s["e"] is n:
                    last = n["r"]
    e = strip_copy(last) if last is not None else None
    return isinstance(e, dict) and e.get("k") == "mem" and is_this_mem(e) and e["field"] in outs


MAP_API = {"getUnconstrainedDim": "dof", "toTau": "toTau", "toTime": "toTime", "backward": "backward", "toUnconstrained": "toUnconstrained", "toPhysical": "toPhysical",
           "backwardGrad": "backwardGrad"}


def map_hook(c, e, env, I):
    """calls into the (user-replaceable) time / spatial maps are opaque functions of their scalar arguments"""
    nm = c.get("name")
    if nm in MAP_API and e.get("obj") is not None:
        args = []
        for a in e["args"]:
            v = I.ev(a, env)
            if isinstance(v, sym.BlockVec) and v.r == 1:
                v = v.rows[0]
            if isinstance(v, sym.Vec):
                v = sp.Symbol(repr(sym.norm_atoms(v)))      # a vector argument, named by its canonical content
            args.append(v)
        if all(isinstance(a, sp.Basic) for a in args):
            return sp.Function(MAP_API[nm])(*args)
        raise Unsupported("map call %s with argument kinds %s (line %s)" % (nm, [type(a).__name__ for a in args], e.get("line")))
    return NotImplemented


def builder_phases(F, cls, rebuild, flags_member, dim, expected_flags, dirty, count_member, run):
    """The layout builder written as several phases (a statement for waypoint 0, a loop over the inner waypoints, a
    statement for waypoint N, ...).  Per flag assignment the pushes are taken in program order and threaded:
      * the first entry's offset is N; every further entry's offset is the previous entry's offset + its width
        (for a loop: the running local starts at that value and grows by dof(i) per iteration);
      * every entry is (waypoint, running offset, dof(waypoint));
      * the waypoints entered are, in increasing order, 0 iff start_p, 1 .. N-1 always, N iff end_p;
      * the members written afterwards are the offset after the last entry and that + DIM * (flagged blocks)."""
    from .. import paths
    n = sp.Symbol(count_member, integer=True, positive=True)
    dofF = sp.Function("dof")
    fsym = lambda nm: sp.Symbol("%s.%s" % (flags_member, nm))
    facts = {"range": True, "first": True, "entry": True, "advance": True, "clear": True, "doff": True, "total": True, "flags": True}
    det = {}
    roles = None
    members = {}
    okw = True
    results = paths.explore(lambda o: run("middle", o))
    # loops must not depend on the kind of iteration (no first / last special case inside them): otherwise it is the
    # single-loop form in disguise and this reading would be wrong
    for kind in ("first", "last"):
        other = paths.explore(lambda o, kind=kind: run(kind, o))
        sig = lambda res: sorted((sorted((str(k), v) for k, v in a.items()), [(L.lo, str(L.hi), [(e.target, e.op) for e in L.effects]) for L in I.loops]) for a, I in res)
        if str(sig(other)) != str(sig(results)):
            raise Broken("layout builder: a loop treats its first / last iteration differently and entries are also pushed outside it")
    nwhich = [0, 0]
    for assign, I in results:
        evs = []
        for e in I.effects:
            if e.op == "push_back":
                evs.append((getattr(e, "seq", 0), "push", e))
        for L in I.loops:
            if any(e.op == "push_back" for e in L.effects):
                evs.append((getattr(L, "pos", 0), "loop", L))
            elif L.effects:
                raise Broken("layout builder: a loop that does something else than entering waypoints")
        evs.sort(key=lambda t: t[0])
        expected = n
        cover = []
        cont = None
        for _, what, x in evs:
            if what == "push":
                v = x.value.f if isinstance(x.value, Struct) else {}
                vals = {k_: sp.sympify(x_) for k_, x_ in v.items() if isinstance(x_, sp.Basic)}
                r = {}
                for fw_, w_ in vals.items():
                    for fp_, p_ in vals.items():
                        if fp_ != fw_ and sym.is_zero(w_ - dofF(p_)):
                            r["width"], r["point"] = fw_, fp_
                rest = [k_ for k_ in vals if k_ not in r.values()]
                if len(vals) != 3 or len(r) != 2 or len(rest) != 1:
                    facts["entry"] = False
                    det["entry"] = "entry pushed: %s" % {k_: str(x_) for k_, x_ in v.items()}
                    continue
                r["offset"] = rest[0]
                pt, off = vals[r["point"]], vals[r["offset"]]
                lo_, hi_ = pt, pt + 1
                nxt = off + dofF(pt)
                cont = x.target
            else:
                L = x
                push = [e for e in L.effects if e.op == "push_back"]
                upd = [e for e in L.effects if e.target.startswith("$")]
                ue = c06_upper_excl(L)
                if len(push) != 1 or ue is None or L.step != 1 or any(e.guards for e in push):
                    raise Broken("layout builder: the waypoint loop has a shape this rule does not understand")
                v = push[0].value.f if isinstance(push[0].value, Struct) else {}
                vals = {k_: sp.sympify(x_) for k_, x_ in v.items() if isinstance(x_, sp.Basic)}
                car = [(nm, cs) for nm, cs in L.carried.items() if any(x_ == cs[0] for x_ in vals.values())]
                r = {}
                for fld, x_ in vals.items():
                    if car and x_ == car[0][1][0]:
                        r["offset"] = fld
                    elif sym.is_zero(sp.diff(x_, L.var) - 1) and not x_.has(dofF):
                        r["point"] = fld
                if "point" in r:
                    for fld, x_ in vals.items():
                        if fld not in r.values() and sym.is_zero(x_ - dofF(vals[r["point"]])):
                            r["width"] = fld
                if len(r) != 3 or len(vals) != 3 or len(car) != 1:
                    facts["entry"] = False
                    det["entry"] = "entry pushed in the loop: %s" % {k_: str(x_) for k_, x_ in v.items()}
                    continue
                pt = vals[r["point"]]
                delta = sum((sp.sympify(e.delta) for e in upd if e.delta is not None), sp.Integer(0)) if all(e.delta is not None for e in upd) else None
                if delta is None or not sym.is_zero(delta - dofF(pt)) or any(e.target != "$" + car[0][0] for e in upd):
                    facts["advance"] = False
                    det["advance"] = "offset changes by %s when waypoint %s is entered" % (delta, pt)
                off = sp.sympify(car[0][1][1])           # value of the running offset when the loop starts
                c_ = sp.expand(pt - L.var)
                lo_, hi_ = sp.expand(L.lo + c_), sp.expand(ue + c_)
                nxt = car[0][1][0] + dofF(pt)            # the running offset after the loop, as the interpreter names it
                cont = push[0].target
                r = dict(r, carried=car[0][0])
            if roles is None:
                roles = dict(r, container=cont)
                roles.setdefault("carried", None)
            elif any(roles.get(k_) != r[k_] for k_ in ("point", "offset", "width")):
                facts["entry"] = False
                det["entry"] = "field roles differ between the entries"
            if what == "loop" and roles.get("carried") is None:
                roles["carried"] = r.get("carried")
            if not sym.is_zero(off - expected):
                key = "first" if not cover else "advance"
                facts[key] = False
                det[key] = "entry for waypoint %s gets offset %s where the running offset is %s" % (lo_, off, expected)
            expected = nxt
            cover.append((lo_, hi_))
        sp_v, ep_v = assign.get(fsym("start_p")), assign.get(fsym("end_p"))
        want_lo = sp.Integer(0) if sp_v is True else sp.Integer(1)
        want_hi = (n + 1) if ep_v is True else n
        good = bool(cover) and sp_v is not None and ep_v is not None and sym.is_zero(cover[0][0] - want_lo) and sym.is_zero(cover[-1][1] - want_hi) and all(sym.is_zero(a_[1] - b_[0]) for a_, b_ in zip(cover, cover[1:]))
        nwhich[0] += 1
        nwhich[1] += 1 if good else 0
        if not good:
            okw = False
            facts["range"] = facts["range"] and bool(cover)
            det["range"] = "with start_p=%s end_p=%s the waypoints entered are %s" % (sp_v, ep_v, [(str(a_), str(b_)) for a_, b_ in cover])
        if not any(e.op == "clear" for e in I.effects):
            facts["clear"] = False
        finals = {e.target: e.value for e in I.effects if e.op == "=" and e.target not in (dirty,) and isinstance(e.value, sp.Basic) and e.target != cont}
        D = [t for t, val in finals.items() if sym.is_zero(sp.sympify(val) - expected)]
        cnt = sum(1 for fl in expected_flags if assign.get(fsym(fl)) is True)
        if len(D) == 2 and len(finals) == 2 and cnt == 0:
            continue
        if len(D) != 1 or len(finals) != 2:
            facts["doff"] = False
            det["doff"] = "members written after the entries: %s (running offset %s)" % ({t: str(x_) for t, x_ in finals.items()}, expected)
            continue
        T = [t for t in finals if t != D[0]][0]
        members.setdefault("D", D[0])
        members.setdefault("T", T)
        if members["D"] != D[0] or members["T"] != T:
            facts["doff"] = False
        if not sym.is_zero(finals[T] - finals[D[0]] - dim * cnt):
            facts["total"] = False
            det["total"] = "with %s: total - derivative offset = %s, expected %d * %d" % ({str(k_): v_ for k_, v_ in assign.items()}, sp.expand(finals[T] - finals[D[0]]), dim, cnt)
        consulted = {str(k_)[len(flags_member) + 1:] for k_ in assign} - {"start_p", "end_p"}
        if consulted != set(expected_flags):
            facts["flags"] = False
            det["flags"] = "derivative flags consulted: %s" % sorted(consulted)
    if roles is None:
        raise Broken("layout builder: no path pushes a layout entry")
    wdet = "waypoints entered as required on %d of %d flag assignments (phases form)" % (nwhich[1], nwhich[0])
    return facts, det, roles, members, okw, wdet, len(results)


def check_builder(chk, F, cls, rebuild, flags_member, dim, expected_flags, dirty, count_member):
    """R1 on the meaning of the layout builder, not on its shape: the builder is interpreted once per kind of waypoint
    (first / inner / last) and per assignment of the flags it consults (paths.explore), with helper functions followed in
    place; what is compared is the set of entries pushed, the running offset and the two totals."""
    chk.saw(rebuild)
    from .. import paths
    n = sp.Symbol(count_member, integer=True, positive=True)
    dofF = sp.Function("dof")
    where = loc(rebuild)

    def run(kind, oracle):
        I = Interp(F, cls, on_call=map_hook)
        I.field_assumptions[count_member] = {"positive": True}
        I.case = {"first": kind == "first", "last": kind == "last"}
        I.path_oracle = oracle
        try:
            I.run_body(rebuild, {})
        except Unsupported as ex:
            raise Broken("layout builder not analysable: %s" % ex)
        return I

    fsym = lambda nm: sp.Symbol("%s.%s" % (flags_member, nm))

    def single_loop():
        results = {kind: paths.explore(lambda o, kind=kind: run(kind, o)) for kind in ("first", "middle", "last")}
        facts = {"range": True, "first": True, "entry": True, "advance": True, "clear": True, "doff": True, "total": True, "flags": True}
        det = {}
        roles = None
        pushing = {"first": [], "middle": [], "last": []}
        members = {}
        for kind, res in results.items():
            for assign, I in res:
                loops = [L for L in I.loops]
                if len(loops) != 1:
                    raise Broken("layout builder: expected one loop over the waypoints, found %d" % len(loops))
                L = loops[0]
                i = L.var
                ue = c06_upper_excl(L)
                if not (L.lo == 0 and ue is not None and sym.is_zero(ue - (n + 1))):
                    facts["range"] = False
                    det["range"] = "%s .. %s" % (L.lo, ue)
                push = [e for e in L.effects if e.op == "push_back"]
                cont = push[0].target if push else None
                upd = [e for e in L.effects if e.target.startswith("$")]
                if len(push) > 1:
                    facts["entry"] = False
                    det["entry"] = "several entries pushed for one waypoint"
                    continue
                delta = sum((sp.sympify(e.delta) for e in upd if e.delta is not None), sp.Integer(0)) if all(e.delta is not None for e in upd) else None
                if push:
                    pushing[kind].append(assign)
                    v = push[0].value.f if isinstance(push[0].value, Struct) else {}
                    car = [(nm, cs) for nm, cs in L.carried.items() if any(sp.sympify(x) == cs[0] for x in v.values() if isinstance(x, sp.Basic))]
                    r = {}
                    for fld, x in v.items():
                        if not isinstance(x, sp.Basic):
                            continue
                        if sym.is_zero(x - i):
                            r["point"] = fld
                        elif car and sym.is_zero(x - car[0][1][0]):
                            r["offset"] = fld
                        elif sym.is_zero(x - dofF(i)):
                            r["width"] = fld
                    if len(r) != 3 or len(v) != 3 or len(car) != 1:
                        facts["entry"] = False
                        det["entry"] = "entry pushed for waypoint %s: %s" % (i, {k_: str(x) for k_, x in v.items()})
                        continue
                    if roles is None:
                        roles = dict(r, container=cont, carried=car[0][0])
                    elif {k_: roles[k_] for k_ in r} != r:
                        facts["entry"] = False
                        det["entry"] = "field roles differ between paths"
                    if not sym.is_zero(car[0][1][1] - n):
                        facts["first"] = False
                        det["first"] = "running offset starts at %s" % car[0][1][1]
                    if delta is None or not sym.is_zero(delta - dofF(i)) or any(e.target != "$" + car[0][0] for e in upd):
                        facts["advance"] = False
                        det["advance"] = "offset changes by %s when waypoint %s is entered" % (delta, i)
                    carsym = car[0][1][0]
                else:
                    if upd:
                        facts["advance"] = False
                        det["advance"] = "offset changes (%s) although waypoint %s is skipped" % ([str(e.delta) for e in upd], i)
                    carsym = None
                if not any(e.op == "clear" for e in I.effects):
                    facts["clear"] = False
                # the two totals written after the loop
                finals = {e.target: e.value for e in I.effects if e.op == "=" and e.target not in (dirty,) and isinstance(e.value, sp.Basic) and e.target != cont}
                if kind == "last":
                    cs = carsym if carsym is not None else (list(L.carried.values())[0][0] if len(L.carried) == 1 else None)
                    fin = (cs + dofF(i)) if push else cs
                    D = [t for t, val in finals.items() if cs is not None and sym.is_zero(val - fin)]
                    cnt = sum(1 for fl in expected_flags if assign.get(fsym(fl)) is True)
                    if len(D) == 2 and len(finals) == 2 and cnt == 0:
                        continue          # no block flagged: both totals equal the final offset, as they must
                    if len(D) != 1 or len(finals) != 2:
                        facts["doff"] = False
                        det["doff"] = "members written after the loop: %s" % {t: str(x) for t, x in finals.items()}
                        continue
                    T = [t for t in finals if t != D[0]][0]
                    members.setdefault("D", D[0])
                    members.setdefault("T", T)
                    if members["D"] != D[0] or members["T"] != T:
                        facts["doff"] = False
                    cnt = sum(1 for fl in expected_flags if assign.get(fsym(fl)) is True)
                    if not sym.is_zero(finals[T] - finals[D[0]] - dim * cnt):
                        facts["total"] = False
                        det["total"] = "with %s: total - derivative offset = %s, expected %d * %d" % ({str(k_): v_ for k_, v_ in assign.items()}, sp.expand(finals[T] - finals[D[0]]), dim, cnt)
                    consulted = {str(k_)[len(flags_member) + 1:] for k_ in assign} - {"start_p", "end_p"}
                    if consulted != set(expected_flags):
                        facts["flags"] = False
                        det["flags"] = "derivative flags consulted: %s" % sorted(consulted)
        if roles is None:
            raise Broken("layout builder: no path pushes a layout entry")
        sp_, ep_ = fsym("start_p"), fsym("end_p")
        all_first, all_last = [a for a, _ in results["first"]], [a for a, _ in results["last"]]
        okw = (all(a.get(sp_) is True for a in pushing["first"]) and all(a.get(sp_) is False for a in all_first if a not in pushing["first"]) and
               all(a.get(ep_) is True for a in pushing["last"]) and all(a.get(ep_) is False for a in all_last if a not in pushing["last"]) and
               len(pushing["middle"]) == len(results["middle"]) and bool(pushing["first"]) and bool(pushing["last"]))
        wdet = "entered: first on %d of %d flag assignments, last on %d of %d, inner on %d of %d" % (len(pushing["first"]), len(all_first), len(pushing["last"]), len(all_last), len(pushing["middle"]), len(results["middle"]))
        return facts, det, roles, members, okw, wdet, len(results["last"])

    # the shape of the builder: one loop over all waypoints (entries pushed by the loop only), or several phases (a
    # statement for the first waypoint, a loop over the inner ones, a statement for the last, in whatever mix)
    probe = run("middle", lambda s_, c_, I_: True if isinstance(c_, sp.Basic) else None)
    straight = [e for e in probe.effects if e.op == "push_back"]
    if len(probe.loops) == 1 and not straight:
        facts, det, roles, members, okw, wdet, nassign = single_loop()
    else:
        facts, det, roles, members, okw, wdet, nassign = builder_phases(F, cls, rebuild, flags_member, dim, expected_flags, dirty, count_member, run)
    chk.ob("C09-R1", "%s layout loop visits waypoints 0..N inclusive" % cls, facts["range"], where, det.get("range", ""), construct=cls + "/layout/range")
    chk.ob("C09-R1", "%s offsets start right after the N time variables" % cls, facts["first"], where, det.get("first", ""), construct=cls + "/layout/first-offset")
    chk.ob("C09-R1", "%s entry = (waypoint index, running offset, that waypoint's unconstrained width)" % cls, facts["entry"], where, det.get("entry", str(roles)), construct=cls + "/layout/entry")
    chk.ob("C09-R1", "%s running offset advances by that width exactly when the waypoint is entered" % cls, facts["advance"], where, det.get("advance", ""), construct=cls + "/layout/advance")
    chk.ob("C09-R1", "%s the layout list is emptied before it is rebuilt" % cls, facts["clear"], where, "", construct=cls + "/layout/clear")
    chk.ob("C09-R1", "%s waypoint 0 / N optimised iff start_p / end_p, inner waypoints always" % cls, okw, where, wdet, construct=cls + "/layout/which")
    chk.ob("C09-R1", "%s derivative offset = offset after the last waypoint" % cls, facts["doff"] and "D" in members, where, det.get("doff", str(members)), construct=cls + "/layout/derivative-offset")
    chk.ob("C09-R1", "%s total dimension = derivative offset + (flagged blocks the order has) * DIM, for every flag assignment" % cls, facts["total"] and facts["flags"], where,
           det.get("total", det.get("flags", "%d assignments" % nassign)), construct=cls + "/layout/total")
    # getDimension: the cached total after ensuring the cache, on both states of the dirty flag
    gd = F.func1(cls, "getDimension")
    chk.saw(gd)

    def run_gd(oracle):
        I = Interp(F, cls, on_call=map_hook)
        I.field_assumptions[count_member] = {"positive": True}
        I.case = {"first": False, "last": True}
        I.path_oracle = oracle
        try:
            return I, I.run_body(gd, {})
        except Unsupported as ex:
            raise Broken("getDimension not analysable: %s" % ex)
    okg = "T" in members
    seen = set()
    detg = ""
    for assign, (I, ret) in (paths.explore(run_gd) if okg else []):
        dflag = assign.get(sp.Symbol(dirty))
        seen.add(dflag)
        tw = [e.value for e in I.effects if e.target == members["T"] and e.op == "="]
        if dflag is True:
            good = bool(tw) and isinstance(ret, sp.Basic) and sym.is_zero(ret - tw[-1])
        else:
            good = not tw and isinstance(ret, sp.Basic) and ret == sp.Symbol(members["T"], integer=True)
        if not good:
            okg = False
            detg = "with the cache %s it returns %s" % ("dirty" if dflag else "clean", ret)
    chk.ob("C09-R1", "%s::getDimension reports the cached total after ensuring the cache" % cls, okg and seen == {True, False}, loc(gd), detg, construct=cls + "/getDimension")
    return roles, members


def c06_upper_excl(L):
    if L.step != 1 or L.hi is None:
        return None
    return L.hi if L.cond_op == "<" else (L.hi + 1 if L.cond_op == "<=" else None)


def check_initial_guess(chk, F, E, cls, gi, roles, members, flags_member, dim, expected_flags, dirty, count_member):
    """R2 for generateInitialGuess on its meaning: interpreted once per assignment of the flags it consults; compared are
    the slots written and what is written there (time slots, one run per layout entry, one DIM-block per set flag in the
    canonical order starting at the derivative offset), whatever traversal helper, counter or index arithmetic is used."""
    from .. import paths
    from . import c16
    _, rl = c16.discover_roles(F, E, cls)
    n = sp.Symbol(count_member, integer=True, positive=True)
    chk.saw(gi)
    where = loc(gi)

    def run(oracle):
        I = Interp(F, cls, on_call=map_hook)
        I.field_assumptions[count_member] = {"positive": True}
        I.case = {"first": False, "last": False}
        I.path_oracle = oracle
        try:
            ret = I.run_body(gi, {})
        except Unsupported as ex:
            raise Broken("generateInitialGuess not analysable: %s" % ex)
        return I, ret
    res = [(a, r) for a, r in paths.explore(run) if a.get(sp.Symbol(dirty)) is False]
    if not res:
        raise Broken("generateInitialGuess: no path with a clean layout cache")
    D = sp.Symbol(members["D"], integer=True)
    Tt = sp.Symbol(members["T"], integer=True)
    ok = {"time": True, "spatial": True, "blocks": True, "size": True}
    det = {}
    fsym = lambda nm: sp.Symbol("%s.%s" % (flags_member, nm))
    lay = roles["container"]
    for assign, (I, ret) in res:
        if not isinstance(ret, sym.Container):
            raise Broken("generateInitialGuess does not return a vector the interpreter tracks")
        xn = ret.name
        sz = [e for e in I.effects if e.target == xn and e.op == "resize"]
        if not ((sz and sym.is_zero(sz[0].value[0] - Tt)) or (ret.size is not None and sym.is_zero(ret.size - Tt))):
            ok["size"] = False
            det["size"] = "sized %s" % (sz[0].value if sz else ret.size)
        tl = [L for L in I.loops if not getattr(L, "over", None) and any(e.target == xn for e in L.effects)]
        sl = [L for L in I.loops if getattr(L, "over", None) == lay and any(e.target == xn for e in L.effects)]
        if len(tl) != 1 or len(sl) != 1:
            raise Broken("generateInitialGuess: time / layout loops not identified (%d / %d)" % (len(tl), len(sl)))
        # time slots
        L = tl[0]
        te = [e for e in L.effects if e.target == xn]
        Tm = sp.IndexedBase(rl["TIMES"], real=True)
        good = len(te) == 1 and te[0].op == "="
        if good:
            i = L.var
            c_ = sp.expand(te[0].key[0] - i)
            ue = c06_upper_excl(L)
            good = (i not in c_.free_symbols and ue is not None and sym.is_zero(L.lo + c_) and sym.is_zero(ue + c_ - n)
                    and sym.is_zero(sp.sympify(te[0].value).xreplace({i: i - c_}) - sp.Function("toTau")(Tm[i])))
        if not good:
            ok["time"] = False
            det["time"] = str([(str(e.key), str(e.value)) for e in te])
        # one run of slots per layout entry
        L = sl[0]
        se = [e for e in L.effects if e.target == xn]
        ev = L.var
        offI = sp.Indexed(sp.IndexedBase("%s.%s" % (lay, roles["offset"]), real=True), ev)
        good = len(se) == 1 and se[0].op == "="
        if good:
            key = se[0].key[0]
            idx = [a for a in sp.sympify(key).atoms(sp.Indexed)]
            rng = [r for r in I.effects_ranges if r[0] == xn and r[4] == se[0].line]
            def fld(a):
                return str(a.base).split("#")[0]
            good = (len(idx) == 1 and fld(idx[0]) == "%s.%s" % (lay, roles["offset"]) and sym.is_zero(idx[0].indices[0] - ev) and sym.is_zero(key - idx[0] - sym.RSYM) and len(rng) == 1)
            if good:
                cnt = sp.sympify(rng[0][2])
                ci = list(cnt.atoms(sp.Indexed))
                good = len(ci) == 1 and fld(ci[0]) == "%s.%s" % (lay, roles["width"]) and sym.is_zero(cnt - ci[0]) and sym.is_zero(ci[0].indices[0] - ev)
            if good:
                val = sp.sympify(rng[0][3])
                good = val.func == sp.Function("toUnconstrained") and len(val.args) == 2
                if good:
                    pi = list(sp.sympify(val.args[1]).atoms(sp.Indexed))
                    good = (len(pi) == 1 and fld(pi[0]) == "%s.%s" % (lay, roles["point"]) and sym.is_zero(val.args[1] - pi[0]) and sym.is_zero(pi[0].indices[0] - ev)
                            and str(val.args[0]).replace(str(pi[0]), "PT").startswith("(('%s[PT]'," % rl["WPTS"]) and str(val.args[0]).endswith("'1'),)"))
        if not good:
            ok["spatial"] = False
            det["spatial"] = str([(str(e.key), str(e.value)[:120]) for e in se])
        # boundary-derivative blocks
        be = [e for e in I.effects if e.target == xn and e.op == "=" and sym.RSYM in sp.sympify(e.key[0]).free_symbols]
        setf = [fl for fl in expected_flags if assign.get(fsym(fl)) is True]
        consulted = {str(k_)[len(flags_member) + 1:] for k_ in assign if str(k_).startswith(flags_member + ".")} - {"start_p", "end_p"}
        good = len(be) == len(setf) and consulted == set(expected_flags)
        for j, (fl, e) in enumerate(zip(setf, be)):
            want_v = sp.Function("comp")(sp.Symbol(repr((("%s.%s[]" % (rl["BC"], FIELD_OF_FLAG[fl]), "1"),))), sym.RSYM)
            rng = [r for r in I.effects_ranges if r[0] == xn and sym.is_zero(r[1] + sym.RSYM - e.key[0])]
            good = good and sym.is_zero(e.key[0] - (D + dim * j + sym.RSYM)) and sp.sympify(e.value) == want_v and len(rng) >= 1 and sym.is_zero(rng[0][2] - dim)
        if not good:
            ok["blocks"] = False
            det["blocks"] = "flags set %s: %s" % (setf, [(str(e.key[0]), str(e.value)) for e in be])
    inst = "generateInitialGuess"
    chk.ob("C09-R2", "%s %s: the vector has the reported dimension" % (cls, inst), ok["size"], where, det.get("size", ""), construct="%s/%s/size" % (cls, inst))
    chk.ob("C09-R2", "%s %s: time slot i <- toTau(reference duration i), i < N" % (cls, inst), ok["time"], where, det.get("time", ""), construct="%s/%s/time" % (cls, inst))
    chk.ob("C09-R2", "%s %s: slots [offset, offset+dof) <- toUnconstrained(reference waypoint point_index)" % (cls, inst), ok["spatial"], where, det.get("spatial", ""), construct="%s/%s/spatial" % (cls, inst))
    chk.ob("C09-R2", "%s %s: block j (j-th set flag the order has, canonical order) at derivative offset + j*DIM <- that reference boundary derivative, for every flag assignment" % (cls, inst),
           ok["blocks"], where, det.get("blocks", "%d flag assignments" % len(res)), construct="%s/%s/blocks" % (cls, inst))


def check_spatial_and_time(chk, F, cls, f, sc, is_guess):
    inst = f["name"] + ("" if is_guess else f["full"].split("evaluate")[1][:50])
    rfors = [s for s in f["body"]["body"] if s.get("k") == "rfor"]
    fors = [s for s in f["body"]["body"] if s.get("k") == "for"]
    layout_member = None
    for lp in rfors:
        sc.bind_opaque(lp["var"]["id"], "%var")
        layout_member = canon(lp["range"], sc)
    # time variables
    for lp in fors:
        sc.bind_opaque(lp["init"]["id"], "%i")
    tm, sm = "(*this.active_time_map_)", "(*this.active_spatial_map_)"
    stm = []
    for lp in fors:
        b = lp["body"]["body"] if lp["body"].get("k") == "block" else [lp["body"]]
        for s in b:
            if s.get("k") == "decl":
                sc.bind_local(s)
        p, t = preds.literal(lp["cond"], sc)
        for s in b:
            if s.get("k") == "expr" and s["e"].get("k") == "assign":
                stm.append((t, canon(s["e"]["l"], sc), canon(s["e"]["r"], sc)))
    def norm(x):
        return x.replace("(*this.active_time_map_)", "TM").replace("this.active_time_map_", "TM").replace("(*this.active_spatial_map_)", "SM").replace("this.active_spatial_map_", "SM")
    stm = [(a, norm(b), norm(c)) for a, b, c in stm]
    if is_guess:
        want = (("%i < this." + COUNT["name"]), "%x[%i]", "TM.toTau(this.ref_times_[%i])")
        ok = any(s[0] == want[0] and s[2] == want[2] and s[1].endswith("[%i]") for s in stm)
        chk.ob("C09-R2", "%s %s: time slot i <- toTau(reference duration i), i < N" % (cls, inst), ok, loc(f), str(stm), construct="%s/%s/time" % (cls, inst))
    else:
        ok_dec = any(s[0] == ("%i < this." + COUNT["name"]) and s[1].endswith("cache_times[%i]") and s[2] == "TM.toTime($p0[%i])" for s in stm)
        chk.ob("C09-R2", "%s %s: duration i <- toTime(x[i]), i < N" % (cls, inst), ok_dec, loc(f), str(stm), construct="%s/%s/time-decode" % (cls, inst))
        ok_bw = any(s[0] == ("%i < this." + COUNT["name"]) and s[1] == "$p1[%i]" and s[2].startswith("TM.backward($p0[%i],") and s[2].endswith("grads.times[%i])") and "cache_times[%i]" in s[2] for s in stm)
        chk.ob("C09-R2", "%s %s: gradient slot i <- backward(x[i], duration i, dCost/dT_i)" % (cls, inst), ok_bw, loc(f), str([s for s in stm if "backward" in s[2]]), construct="%s/%s/time-backward" % (cls, inst))
    # spatial loops
    seg = "segment(%var.offset,%var.dof)"
    for lp in rfors:
        body = lp["body"]["body"] if lp["body"].get("k") == "block" else [lp["body"]]
        txt = []
        for n in walk(lp["body"]):
            if n.get("k") == "decl":
                sc.bind_local(n)
        for n in walk(lp["body"]):
            if n.get("k") == "call" and callee(n).get("op") == "=" and "obj" in n:
                txt.append((norm(canon(n["obj"], sc)), norm(canon(n["args"][0], sc))))
        if is_guess:
            ok = txt == [("%%x.%s" % seg if False else txt[0][0], "SM.toUnconstrained(this.ref_waypoints_.row(%var.point_index).transpose(),%var.point_index)")] and txt[0][0].endswith("." + seg)
            chk.ob("C09-R2", "%s %s: slots [offset, offset+dof) <- toUnconstrained(reference waypoint point_index)" % (cls, inst), ok, loc(f, lp), str(txt), construct="%s/%s/spatial" % (cls, inst))
        else:
            if any("toPhysical" in r for _, r in txt):
                ok = len(txt) == 1 and txt[0][0].endswith("cache_waypoints.row(%var.point_index)") and txt[0][1] == "SM.toPhysical($p0.%s,%%var.point_index).transpose()" % seg
                chk.ob("C09-R2", "%s %s: waypoint point_index <- toPhysical(x[offset, offset+dof))" % (cls, inst), ok, loc(f, lp), str(txt), construct="%s/%s/spatial-decode" % (cls, inst))
                # R4: when the decode loop starts, the waypoint buffer is wholly defined, on every path, as a copy of the reference
                idx = f["body"]["body"].index(lp)
                wsrec = cls + "::Workspace"
                W = WsDef(F, cls, wsrec, workspace_spline_field(F, wsrec)[1], {})
                W.count_member = COUNT["name"]
                W.fn_stack.append(f)
                W.stmts(f["body"]["body"][:idx])
                d = W.defs.get("cache_waypoints")
                prev = d[0] if d else lp
                okc = W.state.get("cache_waypoints") == "D" and d is not None and d[1] == "assignment" and prev.get("k") == "call" and canon(prev["args"][0], sc) == "this.ref_waypoints_"
                prev = {"e": prev, "line": prev.get("line")}
                chk.ob("C09-R4", "%s %s: decoded waypoints start as a copy of the reference; only layout entries are overwritten" % (cls, inst), okc, loc(f, prev), pp(prev.get("e")), construct="%s/%s/pinning-waypoints" % (cls, inst))
            else:
                want = {("$p1." + seg, "SM.backwardGrad($p0.%s,%s,0)" % (seg, "G")), }
                oks = len(txt) == 3 and all(l == "$p1." + seg for l, _ in txt)
                rs = [r for _, r in txt]
                def arg(r, k):
                    return r[len("SM.backwardGrad("):-1].split(",") if r.startswith("SM.backwardGrad(") else []
                oks = oks and all(r.startswith("SM.backwardGrad($p0.%s," % seg) for r in rs)
                g_start = [r for r in rs if "grads.start.p" in r]
                g_end = [r for r in rs if "grads.end.p" in r]
                g_in = [r for r in rs if "grads.inner_points.row((%var.point_index - 1))" in r]
                oks = oks and len(g_start) == 1 and len(g_end) == 1 and len(g_in) == 1 and g_start[0].endswith(",0)") and g_end[0].endswith(",%var.point_index)") and g_in[0].endswith(",%var.point_index)")
                # dispatch conditions
                conds = []
                for n in walk(lp["body"]):
                    if n.get("k") == "if":
                        conds.append(preds.literal(n["cond"], sc))
                okc = conds == [(True, "%var.point_index == 0"), (True, preds.cmp_atom("==", "%var.point_index", "this." + COUNT["name"], False)[1])]
                chk.ob("C09-R2", "%s %s: gradient slots [offset, offset+dof) <- backwardGrad(x slice, gradient of that very waypoint)" % (cls, inst), oks and okc, loc(f, lp), str(txt) + str(conds),
                       construct="%s/%s/spatial-backward" % (cls, inst))
        chk.ob("C09-R2", "%s %s: spatial loop iterates the cached layout" % (cls, inst), layout_member is not None and layout_member.startswith("this."), loc(f, lp), str(layout_member),
               construct="%s/%s/spatial-range/%s" % (cls, inst, lp.get("line")))
