"""C16 - invalid problems rejected, valid ones accepted, verdict reported coherently (DESIGN s6 C16).

R1 the set of rejection predicates extracted from the validity check equals the specified set;
R2 threshold constant = 1e-3 and the comparison is strict (part of the R1 atoms, reported separately);
R3 verdict/message coherence on every path of both initialisation overloads;
R4 PPolyND rejection paths and checked segment access.
"""
from ..facts import Broken, walk, pp, loc
from ..effects import Effects, roots, callee
from ..flow import Flow
from .. import preds
from ..preds import Scope, canon, refine, absorb, cmp_atom, fmt
from .common import (facts_for, classes, full_classes, strip_copy, write_rhs, is_this_mem, lit_value, inline_bool_predicates, inline_value_lambdas,
                     optimizer_classes, optimizer_spline_order)

BC_FIELDS = [("start_velocity", 3), ("end_velocity", 3), ("start_acceleration", 5), ("end_acceleration", 5),
             ("start_jerk", 7), ("end_jerk", 7)]


def discover_roles(F, E, cls):
    """Members holding the four inputs of the durations overload of setInitState + the segment count."""
    fs = [f for f in F.funcs(cls, "setInitState") if len(f["params"]) == 4]
    if len(fs) != 1:
        raise Broken("setInitState(durations, waypoints, start, bc) not found in " + cls)
    f = fs[0]
    pid = {p["id"]: i for i, p in enumerate(f["params"])}
    role = {}
    count = None
    for path, how, node in E.function_writes_local(f):
        if path[0] == "this" and len(path) == 2:
            rhs = strip_copy(write_rhs(node))
            if isinstance(rhs, dict) and rhs.get("k") == "var" and rhs.get("id") in pid:
                role[pid[rhs["id"]]] = path[1]
    if set(role) != {0, 1, 2, 3}:
        # the stores may sit in a private helper: follow the calls with the provenance interpretation
        from ..own import Sim, Unknown
        S = Sim(F, cls, {"ptr": {}, "self": False}, {}, [], False, params={p["id"]: ("arg", k) for k, p in enumerate(f["params"])}, lenient=True)
        try:
            S.run(f)
        except Unknown as ex:
            raise Broken("cannot bind the four inputs of setInitState to members in %s: %s" % (cls, ex))
        role = {}
        for st_ in S.finals:
            for m_, v in st_.items():
                if isinstance(v, tuple) and v[0] == "arg":
                    role[v[1]] = m_
    if set(role) != {0, 1, 2, 3}:
        raise Broken("cannot bind the four inputs of setInitState to members in %s: %s" % (cls, role))
    helpers = [f] + [g_ for g_ in F.reachable(f, stop=lambda h: h.get("cls") != cls) if g_.get("cls") == cls]
    for path, how, node in [w for g_ in helpers for w in E.function_writes_local(g_)]:
        if path[0] == "this" and len(path) == 2 and path[1] not in role.values():
            rhs = write_rhs(node)
            if rhs and any(n.get("k") == "call" and callee(n).get("name") == "size" and is_this_mem(n.get("obj"), role[0]) for n in walk(rhs)):
                count = path[1]
    if not count:
        raise Broken("segment-count member not found in " + cls)
    return f, {"TIMES": role[0], "WPTS": role[1], "START": role[2], "BC": role[3], "COUNT": count}


def collect_guards(F, f, errors_id, sc):
    """[(loopctx tuple, dnf set, node)] for every push_back on the error list; structural walk."""
    out = []
    lambdas = {}
    inl = []
    errors_ids = {errors_id}

    def is_push(n):
        return (n.get("k") == "call" and callee(n).get("name") in ("push_back", "emplace_back") and
                isinstance(n.get("obj"), dict) and n["obj"].get("k") == "var" and n["obj"]["id"] in errors_ids)

    def rec(s, loops, dnf):
        if s is None:
            return
        k = s.get("k")
        if k == "block":
            for x in s["body"]:
                rec(x, loops, dnf)
        elif k == "decl":
            if isinstance(s.get("init"), dict) and s["init"].get("k") == "lambda":
                lambdas[s["id"]] = s["init"]
                return
            sc.bind_local(s)
        elif k == "expr":
            e0 = s["e"]
            # a call of a local helper lambda: its body is checked in place, parameters standing for the arguments
            if e0.get("k") == "call" and callee(e0).get("op") == "()" and isinstance(e0.get("obj"), dict) and strip_copy(e0["obj"]).get("k") == "var" and strip_copy(e0["obj"]).get("id") in lambdas:
                lam = lambdas[strip_copy(e0["obj"])["id"]]
                specs = [sp_ for sp_ in lam.get("specs", []) if sp_.get("fid") == callee(e0).get("fid")] or lam.get("specs", [])
                if len(specs) != 1 and len(lam.get("specs", [])) != 1:
                    raise Broken("validity check: cannot resolve the helper lambda called at line %s" % s.get("line"))
                sp_ = specs[0]
                if len(inl) > 8:
                    raise Broken("validity check: helper nesting too deep")
                for p_, a_ in zip(sp_.get("params", []), e0.get("args", [])):
                    sc.local_init[p_["id"]] = a_
                inl.append(1)
                rec(sp_["body"], loops, dnf)
                inl.pop()
                return
            # a call of a private helper of the same class that is handed the error list: its body is checked in place
            g_ = F.by_fid.get(callee(e0).get("fid")) if e0.get("k") == "call" else None
            if g_ is not None and g_.get("cls") == f.get("cls") and g_.get("body") is not None and any(
                    isinstance(a_, dict) and strip_copy(a_).get("k") == "var" and strip_copy(a_).get("id") in errors_ids for a_ in e0.get("args", [])):
                if len(inl) > 8:
                    raise Broken("validity check: helper nesting too deep")
                for p_, a_ in zip(g_["params"], e0.get("args", [])):
                    a0 = strip_copy(a_)
                    if isinstance(a0, dict) and a0.get("k") == "var" and a0.get("id") in errors_ids:
                        errors_ids.add(p_["id"])
                    else:
                        sc.local_init[p_["id"]] = a_
                inl.append(1)
                rec(g_["body"], loops, dnf)
                inl.pop()
                return
            for n in walk(s["e"]):
                if is_push(n):
                    out.append((tuple(loops), dnf, n))
        elif k == "if":
            if s.get("constexpr") and s.get("taken"):
                rec(s["then"] if s["taken"] == "then" else s.get("else"), loops, dnf)
                return
            t = set()
            e = set()
            for d in dnf:
                t.update(refine(d, s["cond"], True, sc))
                e.update(refine(d, s["cond"], False, sc))
            rec(s["then"], loops, t)
            rec(s.get("else"), loops, e)
        elif k == "for":
            init, cond, inc = s.get("init"), s.get("cond"), s.get("inc")
            if not (init and init.get("k") == "decl" and lit_value(init.get("init")) == "0"):
                raise Broken("validity check: loop does not start at 0 (line %s)" % s.get("line"))
            iv = init["id"]
            sc.bind_opaque(iv, "%i")
            pol, txt = preds.literal(cond, sc)
            if not (pol and txt.startswith("%i < ")):
                raise Broken("validity check: unsupported loop condition %s" % pp(cond))
            incok = inc and inc.get("k") == "un" and inc["op"] == "++"
            if not incok:
                raise Broken("validity check: loop step is not ++")
            rec(s["body"], loops + [txt], dnf)
        elif k == "rfor":
            sc.bind_opaque(s["var"]["id"], "elem(" + canon(s["range"], sc) + ")")
            rec(s["body"], loops + ["elem of " + canon(s["range"], sc)], dnf)
        elif k in ("return", "null"):
            pass
        else:
            raise Broken("validity check: unsupported statement %s at line %s" % (k, s.get("line")))

    body = f["body"]
    stmts = body["body"]
    # everything before the final `if (!errors.empty())` is the guard section; it must not return early
    for st in stmts:
        for n in walk(st):
            if n.get("k") in ("continue", "break"):
                raise Broken("validity check: continue/break inside the guard section")
    rec(body, [], {frozenset()})
    return out


def spec_guards(roles, order, min_text):
    T, W, S, B, C = ("this." + roles[k] for k in ("TIMES", "WPTS", "START", "BC", "COUNT"))
    sp = []
    sp.append(("segment count <= 0", (), {frozenset({cmp_atom("<=", C, "0", False)})}))
    sp.append(("durations count != count", (), {frozenset({cmp_atom("!=", T + ".size()", C, False)})}))
    sp.append(("waypoint rows != count+1", (), {frozenset({cmp_atom("!=", W + ".rows()", preds.cbin("+", C, "1"), False)})}))
    sp.append(("start time not finite", (), {frozenset({(False, "isfinite(" + S + ")")})}))
    loopT = ("%i < " + T + ".size()",)
    sp.append(("duration not finite", loopT, {frozenset({(False, "isfinite(" + T + "[%i])")})}))
    sp.append(("duration below threshold", loopT, {frozenset({(True, T + "[%i] < " + min_text)})}))
    loopW = ("%i < " + W + ".rows()",)
    sp.append(("waypoint row not finite", loopW, {frozenset({(False, W + ".row(%i).isFinite().all()")})}))
    for fld, need in BC_FIELDS:
        if order >= need:
            sp.append(("%s not finite" % fld, (), {frozenset({(False, B + "." + fld + ".isFinite().all()")})}))
    return sp


def run(chk):
    F = facts_for(chk)
    E = Effects(F)
    for cls in optimizer_classes(F):
        order, spl = optimizer_spline_order(F, cls)
        rec = F.record(cls)
        finit, roles = discover_roles(F, E, cls)
        cv = F.func1(cls, "checkValidity")
        chk.saw(cv)
        # the error list: a local std::vector<std::string>, default constructed
        errs = [s for s in cv["body"]["body"] if s.get("k") == "decl" and s["ty"].get("std") == "vector"]
        if len(errs) != 1:
            raise Broken("error list local not found in checkValidity")
        errors_id = errs[0]["id"]
        cvi = inline_value_lambdas(inline_bool_predicates(F, cv))     # predicates kept in helpers / local lambdas are read as their tests
        sc = Scope(cvi)
        guards = collect_guards(F, cvi, errors_id, sc)
        # group by loop context, OR the guards of one context together, absorb
        statics = {s["name"]: s.get("v") for s in rec["statics"]}
        mins = [v for k, v in statics.items() if "MIN" in k.upper() and v is not None]
        # R2: threshold value
        thr = None
        for (p, t) in [a for _, dnf, _ in guards for d in dnf for a in d]:
            if " < " in t and "[%i]" in t and p:
                thr = t.split(" < ")[-1]
        ok_thr = thr is not None and abs(float(thr) - 1e-3) == 0.0
        chk.ob("C16-R2", cls + " duration threshold", ok_thr, loc(cv),
               "durations are rejected when strictly below %s (required: strict '<' against 1e-3)" % thr,
               construct=cls + "/threshold")
        got = {}
        for loops, dnf, node in guards:
            got.setdefault(loops, set()).update(dnf)
        got = {k: absorb(v) for k, v in got.items()}
        spec = spec_guards(roles, order, preds._num("0.001"))
        want = {}
        for name, loops, dnf in spec:
            want.setdefault(loops, {})
            for d in dnf:
                want[loops][d] = name
        for loops in set(got) | set(want):
            g = got.get(loops, set())
            w = want.get(loops, {})
            for d in w:
                chk.ob("C16-R1", "%s rejects: %s" % (cls, w[d]), d in g, loc(cv),
                       "required rejection predicate %s %s among the extracted guards %s" % (
                           fmt([d]), "found" if d in g else "MISSING", fmt(g)),
                       construct="%s/reject/%s" % (cls, w[d]))
            for d in g:
                if d not in w:
                    chk.ob("C16-R1", "%s extra rejection %s" % (cls, fmt([d])), False, loc(cv),
                           "guard %s (loop context %s) rejects inputs the property accepts (or is an unrecognised form)" % (fmt([d]), loops),
                           construct="%s/extra/%s" % (cls, fmt([d])))
        # verdict of the check itself: false iff something was appended
        check_verdict(chk, F, E, cls, cv, errors_id)
        # R3 both overloads
        check_init_state(chk, F, E, cls, roles, cv)
        for nm in ("isValid", "operator bool"):
            g = F.func1(cls, nm)
            rets = [n for n in walk(g["body"]) if n.get("k") == "return"]
            fld = None
            for path, how, node in E.function_writes_local(finit):
                if path[0] == "this" and len(path) == 2:
                    r = strip_copy(write_rhs(node))
                    if isinstance(r, dict) and r.get("k") == "call" and callee(r).get("name") == "checkValidity":
                        fld = path[1]
            ok = len(rets) == 1 and fld is not None and is_this_mem(rets[0]["e"], fld)
            chk.ob("C16-R3", "%s::%s returns the stored verdict" % (cls, nm), ok, loc(g), pp(g["body"]).strip(), construct="%s/%s" % (cls, nm))
    chk.floor("C16-R1", 40)
    chk.floor("C16-R2", 4)
    chk.floor("C16-R3", 16)
    check_ppoly(chk, F, E)
    chk.floor("C16-R4", 20)
    chk.not_decided = ["behaviour of std::isfinite under -ffast-math (build-flag matter)"]


def check_verdict(chk, F, E, cls, cv, errors_id):
    """return false <=> an error was appended; failing path records the message."""
    msg_fields = set()

    def is_err(e):
        rs = roots(e, None)
        return any(r[:2] == ("v", errors_id) for r in rs)

    def transfer(node, st, ctx):
        pushed, msg = st
        if node.get("k") == "call":
            nm = callee(node).get("name")
            if nm in ("push_back", "emplace_back") and any(r[:2] == ("v", errors_id) for r in roots(node.get("obj"), ctx.env)):
                pushed = True
            for path, how in E.node_writes(node, ctx.env, follow=False):
                if path[0] == "this" and len(path) == 2 and how.startswith("op="):
                    fld = F.field(cls, path[1])
                    if fld and fld["ty"].get("std") == "basic_string":
                        msg = True
                        msg_fields.add(path[1])
        return [(pushed, msg)]

    def branch(cond, pol, st, ctx):
        c = strip_copy(cond)
        neg = False
        while isinstance(c, dict) and c.get("k") == "un" and c["op"] == "!":
            neg = not neg
            c = strip_copy(c["e"])
        if c.get("k") == "call" and callee(c).get("name") == "empty" and any(r[:2] == ("v", errors_id) for r in roots(c.get("obj"), ctx.env)):
            is_empty = pol != neg
            if is_empty == st[0]:
                return []   # pushed <=> non-empty (fresh local list)
        return None

    def enter(g, call):
        return g.get("cls") == cls

    fl = Flow(F, transfer, branch=branch, enter_call=enter)
    out, exits = fl.run(cv, (False, False))
    if out:
        raise Broken("checkValidity can fall off its end")
    for (pushed, msg), r in exits:
        v = lit_value(r.get("e"))
        ok = (v == "false") == pushed and v in ("true", "false")
        chk.ob("C16-R3", "%s::checkValidity returns %s on a path with%s errors" % (cls, v, "" if pushed else "out"), ok, loc(cv, r),
               "verdict must be false exactly when a rejection guard fired", construct="%s/checkValidity/return-%s-%s" % (cls, v, pushed))
        if pushed:
            chk.ob("C16-R3", "%s::checkValidity failing path records the message" % cls, msg, loc(cv, r),
                   "failing path %s the last-error member" % ("writes" if msg else "does not write"), construct="%s/checkValidity/message" % cls)


def check_init_state(chk, F, E, cls, roles, cv):
    inputs = {roles[k] for k in ("TIMES", "WPTS", "START", "BC", "COUNT")}
    rec = F.record(cls)
    str_fields = {f["name"] for f in rec["fields"] if f["ty"].get("std") == "basic_string"}
    bool_fields = {f["name"] for f in rec["fields"] if f["ty"].get("c") == "bool" and not f["mutable"]}

    def transfer(node, st, ctx):
        verdict, msg = st
        k = node.get("k")
        if k in ("assign", "call", "un"):
            for path, how in E.node_writes(node, ctx.env, follow=False):
                if path[0] != "this" or len(path) != 2:
                    continue
                fld = path[1]
                if fld in str_fields:
                    if how == "clear":
                        msg = "cleared"
                    elif how.startswith("op="):
                        msg = "set"
                elif fld in bool_fields:
                    rhs = strip_copy(write_rhs(node))
                    v = lit_value(rhs)
                    if v == "false":
                        verdict = "false"
                    elif isinstance(rhs, dict) and rhs.get("k") == "call" and callee(rhs).get("fid") == cv["fid"]:
                        verdict = "check"
                        msg = "per-check" if msg in ("cleared", "per-check") else "stale-or-check"
                    else:
                        verdict = "other"
                elif fld in inputs:
                    if verdict in ("check", "check-true", "check-false"):
                        verdict = "stale"
        return [(verdict, msg)]

    def enter(g, call):
        # the other overload is followed; the validity check itself is summarised by the transfer above
        return g.get("cls") == cls and g["name"] == "setInitState"

    def branch(cond, pol, st, ctx):
        # a test of the stored verdict right after it was assigned from the validity check splits it into its two values
        verdict, msg = st
        c = strip_copy(cond)
        neg = False
        while isinstance(c, dict) and c.get("k") == "un" and c.get("op") == "!":
            c = strip_copy(c["e"])
            neg = not neg
        if isinstance(c, dict) and c.get("k") == "mem" and is_this_mem(c) and c["field"] in bool_fields and verdict in ("check", "check-true", "check-false"):
            val = pol != neg
            if verdict == "check":
                return [("check-true" if val else "check-false", msg)]
            return [(verdict, msg)] if (verdict == "check-true") == val else []
        return [st]

    for f in F.funcs(cls, "setInitState"):
        chk.saw(f)
        fl = Flow(F, transfer, branch=branch, enter_call=enter)
        out, exits = fl.run(f, ("unset", "stale"))
        if out:
            raise Broken("setInitState can fall off its end")
        for (verdict, msg), r in exits:
            e = strip_copy(r.get("e"))
            v = lit_value(e)
            if v == "false":
                ok = (verdict == "false" and msg == "set") or (verdict == "check-false" and msg == "per-check")
                why = "returns false with stored verdict '%s' and message state '%s' (need verdict false and a message set)" % (verdict, msg)
            elif v == "true":
                ok = verdict == "check-true" and msg == "per-check"
                why = "returns true with stored verdict '%s' and message state '%s' (need: the validity check just returned true)" % (verdict, msg)
            elif isinstance(e, dict) and e.get("k") == "mem" and e["field"] in bool_fields and is_this_mem(e):
                ok = verdict in ("check", "check-true", "check-false") and msg == "per-check"
                why = "returns the stored verdict; verdict state '%s', message state '%s' (need: assigned from the validity check after the last input write, message cleared on entry)" % (verdict, msg)
            elif isinstance(e, dict) and e.get("k") == "call" and callee(e).get("name") == "setInitState":
                ok = verdict in ("check", "check-true", "check-false") and msg == "per-check"
                why = "delegates to the durations overload; resulting verdict state '%s', message state '%s'" % (verdict, msg)
            else:
                ok = False
                why = "returns %s which is not the stored verdict" % pp(e)
            chk.ob("C16-R3", "%s::setInitState(%d args) exit at line %s" % (cls, len(f["params"]), r.get("line")), ok, loc(f, r), why,
                   construct="%s/setInitState%d/line-role-%s" % (cls, len(f["params"]), "false" if v == "false" else "verdict"))


def check_ppoly(chk, F, E):
    for cls in full_classes(F, "PPolyND", ("update", "derivative", "findSegment")):
        rec = F.record(cls)
        f = F.func1(cls, "initializeInternal")
        chk.saw(f)
        fi = inline_bool_predicates(F, f)      # a boolean helper holding the rejection tests is read as those tests
        sc = Scope(fi)
        targs = rec.get("targs") or []
        order = targs[1] if len(targs) > 1 else -1
        bools = {x["name"] for x in rec["fields"] if x["ty"].get("c") == "bool" and not x["mutable"]}
        ints = {x["name"] for x in rec["fields"] if x["ty"].get("c") == "int"}

        def transfer(node, st, ctx):
            vals, atoms = st
            d = dict(vals)
            if node.get("k") == "decl":
                sc.bind_local(node)
            if node.get("k") in ("assign", "call"):
                for path, how in E.node_writes(node, ctx.env, follow=False):
                    if path[0] == "this" and len(path) == 2 and (path[1] in bools or path[1] in ints):
                        rhs = write_rhs(node)
                        v = lit_value(rhs)
                        d[path[1]] = v if v is not None else canon(rhs, sc)
            return [(tuple(sorted(d.items())), atoms)]

        def branch(cond, pol, st, ctx):
            vals, atoms = st
            return [(vals, a) for a in refine(atoms, cond, pol, sc)]

        # private helpers of the same class (e.g. a common 'reset to uninitialised' routine) are followed in place
        fl = Flow(F, transfer, branch=branch, enter_call=lambda g, e: g.get("cls") == cls and g.get("body") is not None and (e.get("obj") is None or e["obj"].get("k") == "this"))
        out, exits = fl.run(fi, ((), frozenset()))
        ends = [(s, None) for s in out] + exits
        rej, acc = [], []
        init_field = None
        for (vals, atoms), r in ends:
            d = dict(vals)
            bvals = {k: v for k, v in d.items() if k in bools}
            if len(bvals) != 1:
                raise Broken("initializeInternal: expected exactly one bool state member written on each path, got %s" % bvals)
            init_field, v = next(iter(bvals.items()))
            (rej if v == "false" else acc).append((d, atoms, r))
        # rejection predicate set
        got = absorb([a for _, a, _ in rej])
        P0, P1, P2 = "$p0", "$p1", "$p2"
        want = {
            frozenset({cmp_atom("<", P0 + ".size()", "2", False)}): "fewer than two breakpoints",
            frozenset({cmp_atom("!=", P1 + ".rows()", preds.cbin("*", "(" + P0 + ".size() - 1)", P2), False)}): "row count != segments*coefficients",
        }
        if order != -1:
            want[frozenset({cmp_atom("<=", P2, "0", False)})] = "non-positive coefficient count"
            want[frozenset({cmp_atom(">", P2, str(order), False)})] = "more coefficients than the fixed order"
        # canonical product may order operands differently: normalise both sides through canon's sorting
        gotn = {norm_dnf(d) for d in got}
        for d, name in want.items():
            nd = norm_dnf(d)
            chk.ob("C16-R4", "%s rejects: %s" % (cls, name), nd in gotn, loc(f),
                   "required %s; extracted rejection conditions %s" % (fmt([d]), fmt(got)), construct="%s/reject/%s" % (cls, name))
        wantn = {norm_dnf(d) for d in want}
        for d in got:
            if norm_dnf(d) not in wantn:
                chk.ob("C16-R4", "%s extra rejection %s" % (cls, fmt([d])), False, loc(f),
                       "rejects inputs the property accepts (or an unrecognised form)", construct="%s/extra/%s" % (cls, fmt([d])))
        # state on rejecting exits: not initialised, zero segments
        seg_field = None
        for d, atoms, r in acc:
            for k2, v in d.items():
                if k2 in ints and "size()" in str(v):
                    seg_field = k2
        if seg_field is None:
            raise Broken("segment-count member of %s not identified" % cls)
        for d, atoms, r in rej:
            ok = d.get(seg_field) == "0"
            chk.ob("C16-R4", "%s rejecting exit at line %s leaves no segments" % (cls, r.get("line") if r else "end"), ok, loc(f, r),
                   "state at exit: %s" % d, construct="%s/rejecting-exit-state/%s" % (cls, fmt([atoms])))
        for d, atoms, r in acc:
            ok = canon_eq(d.get(seg_field), "(this.breakpoints_.size() - 1)") or "size() - 1" in str(d.get(seg_field))
            chk.ob("C16-R4", "%s accepting exit sets the segment count" % cls, ok, loc(f, r), "state at exit: %s" % d,
                   construct="%s/accepting-exit-state" % cls)
        # who may write the validated state: the members the initialiser writes (breakpoints, coefficients, counts, the
        # initialised bit) are written by it and its own helpers only - any other writer (a constructor, an update
        # overload, a 'fast path') would publish data that has not been through the rejection tests
        guarded = {p_[1] for p_, h_, n_ in E.function_writes(f) if p_[0] == "this" and len(p_) >= 2}
        rec_mut = {x["name"] for x in rec["fields"] if x["mutable"]}
        guarded -= rec_mut
        allowed = {g_["fid"] for g_ in F.reachable(f, stop=lambda h: h.get("cls") != cls)} | {f["fid"]}
        nwr = 0
        for g_ in F.funcs(cls):
            if g_["fid"] in allowed or g_.get("kind") in ("copyassign", "moveassign") or g_.get("copyctor") or g_.get("movector") or g_.get("body") is None:
                continue
            bad = set()
            for p_, h_, n_ in E.function_writes_local(g_):
                if p_[0] == "this" and len(p_) >= 2 and p_[1] in guarded:
                    rhs_ = write_rhs(n_) if isinstance(n_, dict) else None
                    if g_.get("kind") == "ctor" and lit_value(rhs_) is not None:
                        continue       # a constructor value-initialising the empty state (0 / false)
                    bad.add(p_[1])
            bad = sorted(bad)
            nwr += 1
            chk.ob("C16-R4", "%s::%s/%d does not write the validated state behind the initialiser's back" % (cls, g_["name"], len(g_["params"])), not bad, loc(g_),
                   "writes %s directly" % bad if bad else "", construct="%s/who-writes/%s/%d" % (cls, g_["name"], len(g_["params"])))
        # isInitialized / getNumSegments report those members
        g = F.func1(cls, "isInitialized")
        rets = [n for n in walk(g["body"]) if n.get("k") == "return"]
        chk.ob("C16-R4", cls + "::isInitialized reports the state member", len(rets) == 1 and is_this_mem(rets[0]["e"], init_field), loc(g), pp(g["body"]).strip(),
               construct=cls + "/isInitialized")
        g = F.func1(cls, "getNumSegments")
        rets = [n for n in walk(g["body"]) if n.get("k") == "return"]
        chk.ob("C16-R4", cls + "::getNumSegments reports the segment member", len(rets) == 1 and is_this_mem(rets[0]["e"], seg_field), loc(g), pp(g["body"]).strip(),
               construct=cls + "/getNumSegments")
        # at(): throws exactly for idx < 0 or idx >= segments
        at = F.func1(cls, "at")
        chk.saw(at)
        sc2 = Scope(at)

        def tr2(node, st, ctx):
            return [st]

        def br2(cond, pol, st, ctx):
            return refine(st, cond, pol, sc2)

        fl2 = Flow(F, tr2, branch=br2)
        out, exits = fl2.run(at, frozenset())
        thr = absorb([s for s, _ in fl2_throws(fl2)])
        wantt = {frozenset({cmp_atom("<", "$p0", "0", False)}), frozenset({cmp_atom(">=", "$p0", "this." + seg_field, False)})}
        chk.ob("C16-R4", cls + "::at throws exactly outside [0, segments)", thr == wantt, loc(at),
               "throwing conditions %s; required %s" % (fmt(thr), fmt(wantt)), construct=cls + "/at-bounds")
        okret = all(strip_copy(r["e"]).get("k") == "ctor" and [pp(a) for a in strip_copy(r["e"])["args"]] == ["this", at["params"][0]["name"]] for _, r in exits) and exits
        chk.ob("C16-R4", cls + "::at returns the handle of the requested index", bool(okret), loc(at), pp(at["body"]).strip()[-80:], construct=cls + "/at-handle")


def fl2_throws(fl):
    # the flow object keeps throws on the ctx of its last run
    return getattr(fl, "_last_throws", [])


def norm_dnf(d):
    return frozenset((p, t.replace(" ", "")) for p, t in d)


def canon_eq(a, b):
    return a is not None and str(a).replace(" ", "") == b.replace(" ", "")
