"""C11 - lazy derivative caches and copies never serve stale data (DESIGN.md s6 C11).

R1 write -> invalidate: on every path of every non-const PPolyND member, a write to anything the
   lazy builders read is followed by clearing every ready flag that may be set;
R2 ensure-before-read: every read of a cache member happens where its ready flag is known true,
   the ensure routines establish that on all their exits, builders set the flag last;
R3 hand-over: every spline mutator ends with the trajectory updated from the freshly written knot
   and coefficient members, with K = COEFF_NUM = the trajectory type's order;
R4 coherent copies: PPolyND and the splines use implicit member-wise copies of value members.
"""
from ..facts import Broken, walk, pp, loc
from ..effects import Effects, roots, callee, is_prefix
from ..flow import Flow
from .common import facts_for, classes, full_classes, strip_copy, write_rhs, is_this_mem, lit_value, SPLINES
from . import c15


def this_field_reads(F, f):
    out = set()
    for n in walk(f.get("body")):
        if n.get("k") == "mem" and isinstance(n.get("base"), dict) and n["base"].get("k") == "this":
            out.add(n["field"])
    return out


def discover_caches(F, E, cls):
    rec = F.record(cls)
    mutable = [f["name"] for f in rec["fields"] if f["mutable"]]
    flags = [f["name"] for f in rec["fields"] if f["mutable"] and f["ty"].get("c") == "bool"]
    caches = [m for m in mutable if m not in flags]
    if not flags or not caches:
        raise Broken("no lazy cache members (mutable data + mutable bool flags) found in " + cls)
    builders = {}   # flag -> builder function
    guarded = {}    # flag -> set(cache fields)
    for f in F.funcs(cls):
        if not f.get("const"):
            continue
        sets_true = set()
        wr = set()
        for path, how, node in E.function_writes_local(f):
            if path[0] == "this" and len(path) >= 2:
                if path[1] in flags and lit_value(write_rhs(node)) == "true":
                    sets_true.add(path[1])
                if path[1] in caches:
                    wr.add(path[1])
        if len(sets_true) == 1 and wr:
            fl = next(iter(sets_true))
            if fl in builders:
                raise Broken("two builders set " + fl)
            builders[fl] = f
            guarded[fl] = wr
    if set(builders) != set(flags):
        raise Broken("could not pair every ready flag with a builder in %s: %s vs %s" % (cls, sorted(builders), flags))
    return flags, caches, builders, guarded


def readset_inputs(F, cls):
    """members that are not mutable (the polynomial's own data: their sizes are functions of the current inputs)"""
    return {x["name"] for x in F.record(cls)["fields"] if not x.get("mutable")}


def run(chk):
    F = facts_for(chk)
    E = Effects(F)
    n_r1 = n_r2 = 0
    for cls in full_classes(F, "PPolyND", ("update", "derivative", "findSegment")):
        rec = F.record(cls)
        flags, caches, builders, guarded = discover_caches(F, E, cls)
        allflags = frozenset(flags)
        # a builder must not make part of what it builds depend on the size one of its buffers was left with: under such
        # a test it may only (re)size that very buffer (a grow-only buffer); anything else written there is kept from an
        # earlier polynomial whenever the sizes happen to agree
        fieldnames = {x["name"] for x in rec["fields"]}
        for fl, b in builders.items():
            for g in [b] + [h for h in F.reachable(b, stop=lambda h: h.get("cls") != cls) if h.get("cls") == cls]:
                badw = []
                for nd in walk(g.get("body")):
                    if nd.get("k") != "if" or nd.get("constexpr"):
                        continue
                    sized = {x["obj"]["field"] for x in walk(nd.get("cond")) if x.get("k") == "call" and callee(x).get("name") in ("rows", "cols", "size", "capacity")
                             and is_this_mem(x.get("obj")) and x["obj"]["field"] in fieldnames and x["obj"]["field"] not in readset_inputs(F, cls)}
                    if not sized:
                        continue
                    for br in (nd.get("then"), nd.get("else")):
                        for w in walk(br):
                            if w.get("k") == "mem" and is_this_mem(w) and w["field"] in fieldnames and w["field"] not in sized and w["field"] not in flags:
                                for path, how, wn in E.function_writes_local({"body": br, "params": g["params"], "fid": g["fid"], "cls": cls, "name": g["name"], "full": g["full"]}):
                                    if path[0] == "this" and len(path) >= 2 and path[1] == w["field"]:
                                        badw.append((nd, w["field"], sorted(sized)))
                                        break
                chk.ob("C11-R2", "%s::%s (builds the cache guarded by %s): nothing but the buffer itself is (re)built under a test of the size a buffer was left with" % (cls, g["name"], fl),
                       not badw, loc(g, badw[0][0]) if badw else loc(g), "member %s is written only when the previous size of %s differs" % (badw[0][1], badw[0][2]) if badw else "no such test",
                       construct="%s/%s/no-history-sized-rebuild" % (cls, g["name"]))
        # what the builders read (non-mutable members): the invalidation read-set
        readset = set()
        for fl, b in builders.items():
            for g in F.reachable(b, stop=lambda h: h.get("cls") != cls):
                readset |= this_field_reads(F, g)
        readset -= set(flags) | set(caches)
        if not readset:
            raise Broken("builders of %s read no member" % cls)
        # in-class initialisers: flags start false
        for fl in flags:
            fld = F.field(cls, fl)
            chk.ob("C11-R1", "%s.%s starts false" % (cls, fl), lit_value(fld.get("init")) == "false",
                   "%s:%s" % (rec["file"], fld["line"]), "in-class initialiser " + pp(fld.get("init")), construct="%s.%s/init" % (cls, fl))

        # ---- R1 typestate -------------------------------------------------
        def transfer(node, st, ctx):
            maybe, stale = st
            for path, how in E.node_writes(node, ctx.env, follow=lambda c: not enter_any(F, cls, c)) if node.get("k") in ("assign", "call", "ctor", "un") else []:
                if path[0] != "this" or len(path) < 2:
                    continue
                fld = path[1]
                if fld in flags:
                    v = lit_value(write_rhs(node))
                    if v == "false":
                        maybe = maybe - {fld}
                        stale = stale - {fld}
                    else:
                        maybe = maybe | {fld}
                elif fld in readset:
                    stale = stale | maybe
            if node.get("k") == "ctorinit" and node.get("field") in readset:
                stale = stale | maybe
            return [(maybe, stale)]

        def enter(g, call):
            return g.get("cls") == cls and (call.get("obj") is None or call["obj"].get("k") == "this")

        for f in F.funcs(cls):
            if f.get("const") or f.get("static") or f.get("kind") in ("dtor",):
                continue
            if f.get("access") != "public":
                continue  # private helpers are analysed through their public callers
            fl = Flow(F, transfer, enter_call=enter)
            init = (frozenset(), frozenset()) if f.get("kind") == "ctor" else (allflags, frozenset())
            out, exits = fl.run(f, init)
            chk.saw(f)
            ends = [(s, None) for s in out] + exits
            if not ends:
                raise Broken("no exit found in " + f["full"])
            bad = [(s, r) for s, r in ends if s[1]]
            inst = "%s (%d params)" % (f["full"], len(f["params"]))
            if bad:
                s, r = bad[0]
                chk.ob("C11-R1", inst, False, loc(f, r),
                       "a path writes members read by the lazy builders (%s) and reaches this exit with ready flag(s) %s possibly still set"
                       % (sorted(readset), sorted(s[1])), construct=f["full"] + "/invalidate")
            else:
                chk.ob("C11-R1", inst, True, loc(f), "all %d exits reached with every ready flag cleared after the last write to %s"
                       % (len(ends), sorted(readset)), construct=f["full"] + "/invalidate")
            n_r1 += 1

        # ---- R2 ensure-before-read ------------------------------------------
        cache_flag = {}
        for fl2, cs in guarded.items():
            for c in cs:
                cache_flag[c] = fl2

        def branch2(cond, pol, st, ctx):
            c = strip_copy(cond)
            neg = False
            while isinstance(c, dict) and c.get("k") == "un" and c["op"] == "!":
                neg = not neg
                c = strip_copy(c["e"])
            if is_this_mem(c) and c["field"] in flags:
                val = pol != neg
                d = dict(st)
                if d.get(c["field"], "?") != "?" and d[c["field"]] != val:
                    return []
                d[c["field"]] = val
                return [tuple(sorted(d.items()))]
            return None

        viol2 = []
        _builds = {}

        def builds(g_, flag):
            """g_ is the builder of the cache guarded by `flag` (it is the function that sets the flag): what it reads of its
            own half-built cache (an earlier row of a table filled by recurrence, say) is part of building it"""
            key = g_["fid"]
            if key not in _builds:
                _builds[key] = {p_[1] for p_, h_, n_ in E.function_writes_local(g_) if p_[0] == "this" and len(p_) >= 2 and p_[1] in flags and lit_value(write_rhs(n_)) == "true"}
            return flag in _builds[key]

        def transfer2(node, st, ctx):
            d = dict(st)
            k = node.get("k")
            if k in ("assign", "call", "un"):
                for path, how in E.node_writes(node, ctx.env, follow=lambda c: not enter_any(F, cls, c)):
                    if path[0] == "this" and len(path) >= 2 and path[1] in flags:
                        v = lit_value(write_rhs(node))
                        d[path[1]] = True if v == "true" else (False if v == "false" else "?")
                    elif path[0] == "this" and len(path) >= 2 and path[1] in cache_flag:
                        # write to cache data while its flag is (known) true and outside a builder = corrupts
                        if d.get(cache_flag[path[1]]) is True:
                            viol2.append((ctx.f, node, "cache member %s written while its ready flag is set: %s" % (path[1], pp(node))))
            if k == "mem" and is_this_mem(node) and node["field"] in cache_flag:
                mode = ctx.flow.access_mode.get(id(node), "read")
                if mode == "read" and d.get(cache_flag[node["field"]], "?") is not True and not builds(ctx.f, cache_flag[node["field"]]):
                    viol2.append((ctx.f, node, "cache member %s read where ready flag %s is not known to be set"
                                  % (node["field"], cache_flag[node["field"]])))
            return [tuple(sorted(d.items()))]

        unknown = tuple(sorted((fl3, "?") for fl3 in flags))
        for f in F.funcs(cls):
            if f.get("static") or f.get("kind") in ("dtor",) or f.get("access") != "public":
                continue
            if f.get("kind") == "ctor" or not f.get("const"):
                continue  # non-const members end with all flags cleared (R1) and never read caches: checked below
            fl = Flow(F, transfer2, branch=branch2, enter_call=enter)
            fl.access_mode = access_modes(F, cls, E)
            n0 = len(viol2)
            fl.run(f, unknown)
            chk.saw(f)
            if len(viol2) > n0:
                g, node, why = viol2[n0]
                chk.ob("C11-R2", f["full"], False, loc(g, node), why + " (entry point %s)" % f["name"], construct=f["full"] + "/ensure")
            else:
                chk.ob("C11-R2", f["full"], True, loc(f), "every cache read is dominated by a path on which its ready flag is known true",
                       construct=f["full"] + "/ensure")
            n_r2 += 1
        # non-const members and nested handle classes must not read the caches at all except via const members
        for f in F.functions:
            if not (f.get("cls", "").startswith(cls)):
                continue
            if f.get("cls") == cls and f.get("const"):
                continue
            for n in walk(f.get("body")):
                if n.get("k") == "mem" and n.get("cls") == cls and n["field"] in cache_flag:
                    # writes (clear/resize) in the invalidation routine are fine
                    modes = access_modes(F, cls, E, only=f)
                    if modes.get(id(n), "read") == "read":
                        chk.ob("C11-R2", f["full"] + " reads " + n["field"], False, loc(f, n),
                               "cache member read outside the const evaluation path", construct=f["full"] + "/" + n["field"])
        # builders set the flag last & ensure routines establish the flag: covered by the flow above
        # (a read after ensureX() is only accepted when X's exits all have the flag known true).

    chk.floor("C11-R1", 10)
    chk.floor("C11-R2", 40)

    # ---- R3 hand-over --------------------------------------------------------
    for short in SPLINES:
        for cls in full_classes(F, short, ("update", "propagateGrad")):
            rec = F.record(cls)
            traj_fields = [f for f in rec["fields"] if f["ty"].get("c") == "record" and "PPolyND<" in f["ty"].get("n", "")]
            if len(traj_fields) != 1:
                raise Broken("expected one PPolyND member in " + cls)
            traj = traj_fields[0]["name"]
            # the hand-over call: <traj>.update(knots, coeffs, K)
            hand = []
            for f in F.funcs(cls):
                for n in walk(f.get("body")):
                    if n.get("k") == "call" and callee(n).get("name") == "update" and is_this_mem(n.get("obj"), traj):
                        hand.append((f, n))
            if len(hand) != 1:
                raise Broken("expected exactly one %s.update(...) call in %s, found %d" % (traj, cls, len(hand)))
            hf, hcall = hand[0]
            args = [strip_copy(a) for a in hcall["args"]]
            if not (len(args) == 3 and is_this_mem(args[0]) and is_this_mem(args[1])):
                chk.ob("C11-R3", cls + " hand-over arguments", False, loc(hf, hcall), "trajectory is not updated from two members: " + pp(hcall),
                       construct=cls + "/handover-args")
                continue
            knots, coeffs = args[0]["field"], args[1]["field"]
            K = lit_value(args[2])
            statics = {s["name"]: s.get("v") for s in rec["statics"]}
            tr_n = traj_fields[0]["ty"]["n"]
            tr_order = tr_n.rsplit(",", 1)[1].strip(" >") if "," in tr_n else None
            okK = K is not None and K == statics.get("COEFF_NUM") and tr_order == K
            chk.ob("C11-R3", cls + " hand-over coefficient count", okK, loc(hf, hcall),
                   "update(%s, %s, %s); COEFF_NUM=%s; trajectory type %s" % (knots, coeffs, K, statics.get("COEFF_NUM"), tr_n),
                   construct=cls + "/handover-K")
            # inputs = members written by the public mutators directly from their parameters
            inputs = set()
            for f in F.funcs(cls):
                if f.get("access") == "public" and (f.get("kind") == "ctor" or f["name"] == "update") and f["params"]:
                    pids = {p["id"] for p in f["params"]}
                    for path, how, node in E.function_writes_local(f):
                        if path[0] == "this" and len(path) == 2:
                            rhs = strip_copy(write_rhs(node))
                            if isinstance(rhs, dict) and rhs.get("k") == "var" and rhs.get("id") in pids:
                                inputs.add(path[1])
            inputs -= {knots, coeffs}
            if len(inputs) < 3:
                raise Broken("could not discover the input members of %s (%s)" % (cls, inputs))

            def transfer3(node, st, ctx, knots=knots, coeffs=coeffs, inputs=inputs, traj=traj):
                in_c, in_k, ck = st
                k = node.get("k")
                if k == "ctorinit":
                    if node["field"] in inputs and node.get("written"):
                        in_c = in_k = True
                    return [(in_c, in_k, ck)]
                if k == "call" and callee(node).get("name") == "update" and is_this_mem(node.get("obj"), traj):
                    a = [strip_copy(x) for x in node["args"]]
                    if len(a) == 3 and is_this_mem(a[0], knots) and is_this_mem(a[1], coeffs):
                        ck = False
                    return [(in_c, in_k, ck)]
                if k in ("assign", "call", "un", "ctor"):
                    for path, how in E.node_writes(node, ctx.env, follow=lambda c, cls=cls: not enter_any(F, cls, c)):
                        if path[0] != "this" or len(path) < 2:
                            continue
                        if path[1] in inputs:
                            in_c = in_k = True
                        elif path[1] == coeffs:
                            in_c, ck = False, True
                        elif path[1] == knots:
                            in_k, ck = False, True
                return [(in_c, in_k, ck)]

            # the segment-count member(s): integer members assigned from the size of a container (durations.size())
            int_fields = {x["name"] for x in F.record(cls)["fields"] if x["ty"].get("c") == "int"}
            count_members = set()
            for g_ in F.funcs(cls):
                for p_, h_, n_ in E.function_writes_local(g_):
                    if p_[0] == "this" and len(p_) == 2 and p_[1] in int_fields:
                        rhs_ = write_rhs(n_)
                        if rhs_ is not None and any(x_.get("k") == "call" and callee(x_).get("name") == "size" for x_ in walk(rhs_)):
                            count_members.add(p_[1])

            def branch3(cond, pol, st, ctx):
                # premise of every property: at least one segment.  A comparison of the segment count with 0 / 1 has one
                # feasible outcome, however it is written (count <= 0, count > 0, 0 < count, count >= 1, !(count > 0) ...)
                c = strip_copy(cond)
                neg = False
                while isinstance(c, dict) and c.get("k") == "un" and c.get("op") == "!":
                    c = strip_copy(c["e"])
                    neg = not neg
                if isinstance(c, dict) and c.get("k") == "bin" and c["op"] in ("<=", "<", ">", ">=", "==", "!="):
                    l, r, op = strip_copy(c["l"]), strip_copy(c["r"]), c["op"]
                    if lit_value(l) is not None and lit_value(r) is None:
                        l, r = r, l
                        op = {"<": ">", "<=": ">=", ">": "<", ">=": "<=", "==": "==", "!=": "!="}[op]
                    if is_this_mem(l) and l["field"] in count_members and lit_value(r) in ("0", "1"):
                        k_ = int(lit_value(r))
                        # truth for every count >= 1, if it is the same for all of them
                        vals = {eval("n %s %d" % (op, k_)) for n in (1, 2, 7)}
                        if len(vals) == 1:
                            truth = vals.pop() != neg
                            return [] if truth != pol else None
                return None

            def enter3(g, call, cls=cls):
                return g.get("cls") == cls and (call.get("obj") is None or call["obj"].get("k") == "this")

            for f in F.funcs(cls):
                if f.get("access") != "public" or f.get("const") or f.get("static"):
                    continue
                if f.get("kind") not in ("ctor", "method", "copyassign"):
                    continue
                if f.get("kind") == "ctor" and not f["params"]:
                    continue  # default construction: nothing to hand over, object reports !isInitialized()
                fl = Flow(F, transfer3, branch=branch3, enter_call=enter3)
                out, exits = fl.run(f, (False, False, False))
                ends = [(s, None) for s in out] + exits
                bad = [(s, r) for s, r in ends if any(s)]
                inst = "%s (%d params)" % (f["full"], len(f["params"]))
                chk.saw(f)
                if bad:
                    s, r = bad[0]
                    why = []
                    if s[0]:
                        why.append("inputs written after the last write of %s" % coeffs)
                    if s[1]:
                        why.append("inputs written after the last write of %s" % knots)
                    if s[2]:
                        why.append("%s/%s written after the last %s.update(%s, %s, K)" % (knots, coeffs, traj, knots, coeffs))
                    chk.ob("C11-R3", inst, False, loc(f, r), "; ".join(why), construct=f["full"] + "/handover")
                else:
                    chk.ob("C11-R3", inst, True, loc(f), "all exits reached with the trajectory updated after the last write of inputs, %s and %s" % (knots, coeffs),
                           construct=f["full"] + "/handover")
    chk.floor("C11-R3", 20)

    # ---- R4 -------------------------------------------------------------------
    for short in ("PPolyND",) + SPLINES:
        for cls in classes(F, short):
            rec = F.record(cls)
            ok = not (rec["userCopyCtor"] or rec["userCopyAssign"] or rec["userMoveCtor"] or rec["userMoveAssign"])
            chk.ob("C11-R4", cls + " copies member-wise", ok, "%s:%s" % (rec["file"], rec["line"]),
                   "implicit copy operations snapshot data, flags and caches together", construct=cls + "/implicit-copy")
            for fld in rec["fields"]:
                bad = c15.sharing_kind(F, fld["ty"], set())
                chk.ob("C11-R4", "%s.%s is a value" % (cls, fld["name"]), bad is None, "%s:%s" % (rec["file"], fld["line"]),
                       fld["tystr"], construct="%s.%s" % (cls, fld["name"]))
    chk.not_decided = ["nothing value-dependent; premise: at least one segment (count <= 0 branches are outside every property's quantifier)"]


def enter_any(F, cls, call):
    g = F.by_fid.get(callee(call).get("fid"))
    return bool(g) and g.get("cls") == cls and (call.get("obj") is None or call["obj"].get("k") == "this")


_MODES = {}


def access_modes(F, cls, E, only=None):
    """id(mem node) -> 'write' for member accesses that are (part of) the target of a write."""
    key = (id(F), cls)
    if key in _MODES and only is None:
        return _MODES[key]
    modes = {}
    fs = [only] if only else [f for f in F.functions if f.get("cls", "").startswith(cls)]
    for f in fs:
        for n in walk(f.get("body")):
            tgt = None
            if n.get("k") == "assign":
                tgt = n["l"]
            elif n.get("k") == "call":
                c = callee(n)
                from ..effects import ASSIGN_OPS, EIGEN_MUTATORS, STD_MUTATORS
                if "obj" in n and (c.get("op") in ASSIGN_OPS or c.get("name") in EIGEN_MUTATORS or c.get("name") in STD_MUTATORS):
                    tgt = n["obj"]
            if tgt is not None:
                # the chain of view calls / subscripts down to the member
                t = tgt
                while isinstance(t, dict):
                    if t.get("k") == "mem":
                        modes[id(t)] = "write"
                        break
                    if t.get("k") == "call" and "obj" in t:
                        t = t["obj"]
                    elif t.get("k") == "subscript":
                        t = t["base"]
                    else:
                        break
    if only is None:
        _MODES[key] = modes
    return modes
