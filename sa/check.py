#!/usr/bin/env python3
"""Entry point: python3-vt sa/check.py <ID> [--tier quick|thorough] [--root DIR] [--explain FILE]

exit 0: every obligation discharged (or only known findings failed)
exit 1: VIOLATION property=<id> replay=<path>
exit 2: analysis broken (never a verdict)
"""
import argparse
import signal
import importlib
import json
import os
import sys
import traceback

sys.path.insert(0, os.path.dirname(os.path.dirname(os.path.abspath(__file__))))
sys.setrecursionlimit(20000)

from sa import core, facts  # noqa: E402
from sa.facts import Broken  # noqa: E402


class _OutOfTime(BaseException):
    pass


def main():
    ap = argparse.ArgumentParser()
    ap.add_argument("pid")
    ap.add_argument("--tier", default=os.environ.get("VERIF_TIER") or "quick", choices=["quick", "thorough"])
    ap.add_argument("--root", default="/repo")
    ap.add_argument("--explain", default=None)
    ap.add_argument("--no-evidence", action="store_true")
    a = ap.parse_args()
    pid = a.pid.upper()
    if a.explain:
        rp = json.load(open(a.explain))
        print(json.dumps(rp, indent=1))
        print("re-running the check to re-derive this instance:")
    try:
        mod = importlib.import_module("sa.props.%s" % pid.lower())
    except ImportError as e:
        print("ANALYSIS-BROKEN property=%s no checker module: %s" % (pid, e))
        return 2
    chk = core.Check(pid, a.tier, a.root, level=getattr(mod, "LEVEL", "proof"))
    # the rules take seconds on the tree they were written for; on a changed tree a symbolic rule may be handed expressions
    # it cannot simplify in any useful time.  Past the budget the analysis is incomplete: what failed before is reported.
    budget = int(os.environ.get("VERIF_RULE_BUDGET") or 900)

    def on_alarm(signum, frame):
        signal.alarm(5)          # again, in case a library swallows the first one
        raise _OutOfTime()
    signal.signal(signal.SIGALRM, on_alarm)
    signal.alarm(budget)
    try:
        try:
            mod.run(chk)
        finally:
            signal.alarm(0)
        if a.no_evidence:
            chk.write_evidence = lambda *x, **k: None
        if a.tier == "thorough" and not a.no_evidence and a.root == "/repo":
            # checker self-validation (DESIGN s3.10): seeded mutants must be reported, benign edits not
            from sa import mutate
            if any(not o["ok"] for o in chk.obs):
                chk.note("self-validation skipped: the unchanged tree already has failing obligations")
            else:
                okn, problems = mutate.validate(pid, verbose=False, campaign=True)
                chk.note("self-validation: %d cases behaved as expected (own mutants and benign edits, the sub-agent refactorings of /verif/benign, the sub-agent defects of /verif/seeded recorded for this property)" % okn)
                chk.self_validation = {"as_expected": okn, "problems": problems}
                if problems:
                    raise Broken("self-validation failed (checker misses a seeded mutant or flags a benign edit): %s" % problems)
        rc = chk.finish()
        return rc
    except Broken as e:
        return broken(chk, pid, str(e), a.no_evidence)
    except _OutOfTime:
        signal.alarm(0)
        return broken(chk, pid, "the rules did not finish within their time budget of %d s" % budget, a.no_evidence)
    except Exception:
        traceback.print_exc()
        return broken(chk, pid, "internal error", a.no_evidence)


def broken(chk, pid, why, no_evidence):
    """A rule could not be analysed.  That is never a verdict by itself (exit 2) - but obligations that failed before
    that point name a specific construct and do not depend on the rules that did not run: they are reported."""
    try:
        if chk.definite_violations():
            if no_evidence:
                chk.write_evidence = lambda *x, **k: None
            print("ANALYSIS-INCOMPLETE property=%s %s" % (pid, why))
            return chk.finish(partial=why)
    except Exception:
        pass
    print("ANALYSIS-BROKEN property=%s %s" % (pid, why))
    return 2


if __name__ == "__main__":
    sys.exit(main())
