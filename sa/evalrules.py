"""Rules on the algebraic summary of evaluate() (evalsum.py): decode, encode, gradient assembly, cost composition.

Every rule is a statement about *what* evaluate() computes on a path (a flag assignment, the energy weight being
positive or not, the kind of layout entry), compared with the reference given by the property texts of C07, C08 and
C09; none mentions statements, helper names or positions in the source.
"""
import sympy as sp
from sympy import Integer

from .facts import Broken, loc
from . import sym, evalsum
from .sym import Vec, Struct, Container

FIELD_OF_FLAG = {"start_v": "start_velocity", "start_a": "start_acceleration", "start_j": "start_jerk",
                 "end_v": "end_velocity", "end_a": "end_acceleration", "end_j": "end_jerk"}
GRAD_OF_FLAG = {"start_v": ("start", "v"), "start_a": ("start", "a"), "start_j": ("start", "j"), "end_v": ("end", "v"), "end_a": ("end", "a"), "end_j": ("end", "j")}


def upper_excl(L):
    if L.step != 1 or L.hi is None:
        return None
    return L.hi if L.cond_op == "<" else (L.hi + 1 if L.cond_op == "<=" else None)


def base_of(tag):
    return str(tag).split("#")[0]


class Verdicts:
    def __init__(self):
        self.v = {}

    def fail(self, rule, detail):
        if rule not in self.v or self.v[rule][0]:
            self.v[rule] = (False, detail)

    def ok(self, rule):
        self.v.setdefault(rule, (True, ""))


def vec_eq(a, b):
    return isinstance(a, Vec) and isinstance(b, Vec) and a.add(b, -1).is_zero()


def analyse(F, cls, f, ctx, full=True):
    """ctx: roles (layout field roles), members (D, T), rl (reference members), flags_member, dim, expected_flags,
    count_member, void (no waypoint cost).  Returns (Verdicts, number of paths)."""
    n = sp.Symbol(ctx["count_member"], integer=True, positive=True)
    dim = ctx["dim"]
    roles, members, rl = ctx["roles"], ctx["members"], ctx["rl"]
    lay = roles["container"]
    D = sp.Symbol(members["D"], integer=True)
    fm = ctx["flags_member"]
    # the derivative flags and the data conditions (energy weight positive, kind of layout entry) act on disjoint parts
    # of evaluate(): all flag assignments are enumerated with the data conditions at their first value, and all data
    # conditions with the flags all set / all clear
    both = [{"%s.%s" % (fm, fl): True for fl in FIELD_OF_FLAG}, {"%s.%s" % (fm, fl): False for fl in FIELD_OF_FLAG}]
    sums = []
    if full:
        sums += evalsum.evaluate_paths(F, cls, f, ctx["count_member"], fix_props=True)
    for pre in both:
        sums += evalsum.evaluate_paths(F, cls, f, ctx["count_member"], preset=pre)
    V = Verdicts()
    xname, gname = f["params"][0]["name"], f["params"][1]["name"]
    X = sp.IndexedBase(xname, real=True)
    RS = sym.RSYM
    rules = ["decode-times", "decode-waypoints", "decode-bc", "decode-before-update", "update-once", "encode-zero", "encode-times", "encode-spatial", "encode-blocks",
             "G-fields", "G-times", "G-inner", "propagate-inputs", "time-buffer", "wp-buffer", "energy-source", "cost", "flags-consulted", "reference-untouched"]
    for r in rules:
        V.ok(r)
    for s in sums:
        I = s.I
        notes = {}
        for nt in s.notes:
            notes.setdefault(nt[0], []).append(nt)
        setf = [fl for fl in ctx["expected_flags"] if s.flag("%s.%s" % (fm, fl)) is True]
        consulted = {str(k)[len(fm) + 1:] for k in s.assign if str(k).startswith(fm + ".")} - {"start_p", "end_p"}
        if consulted != set(ctx["expected_flags"]):
            V.fail("flags-consulted", "flags consulted %s, the order has %s" % (sorted(consulted), ctx["expected_flags"]))
        rho_pos = None
        for k, v in s.assign.items():
            if isinstance(k, sp.core.relational.Relational) and any(str(x) == ctx["rho_member"] for x in k.free_symbols):
                rho_pos = v if sp.simplify(k.subs(sp.Symbol(ctx["rho_member"], real=True), 1)) == sp.true else (not v)
        if rho_pos is None and any(str(x) == ctx["rho_member"] for x in sp.sympify(s.ret).free_symbols if isinstance(s.ret, sp.Basic)):
            rho_pos = True
        rho = sp.Symbol(ctx["rho_member"], real=True)
        # ---------------------------------------------------------------- update and decode
        ups = notes.get("update", [])
        if len(ups) != 1:
            V.fail("update-once", "spline.update is called %d times on this path" % len(ups))
            continue
        _, uargs, upos = ups[0]
        if not (len(uargs) == 4 and isinstance(uargs[0], tuple) and isinstance(uargs[1], tuple) and isinstance(uargs[3], dict)):
            raise Broken("evaluate(): arguments of spline.update not understood: %s" % (uargs,))
        ct, cw = uargs[0][1], uargs[1][1]
        loops = list(I.loops)
        tl = [L for L in loops if not getattr(L, "over", None) and any(e.target == ct for e in L.effects)]
        ok = len(tl) == 1
        if ok:
            L = tl[0]
            es = [e for e in L.effects if e.target == ct]
            i = L.var
            ok = len(es) == 1 and es[0].op == "="
            if ok:
                c_ = sp.expand(es[0].key[0] - i)
                ue = upper_excl(L)
                ok = (i not in c_.free_symbols and ue is not None and sym.is_zero(L.lo + c_) and sym.is_zero(ue + c_ - n)
                      and sym.is_zero(sp.sympify(es[0].value).xreplace({i: i - c_}) - sp.Function("toTime")(X[i])) and L.pos <= upos)
        if not ok:
            V.fail("decode-times", "durations handed to the spline are not toTime(x[i]) for every i < N")
        wl = [L for L in loops if getattr(L, "over", None) == lay and any(e.target == cw for e in L.effects)]
        cp = [(e.seq, e) for e in I.effects if e.target == cw and e.op == "=" and isinstance(e.value, tuple) and e.value[0] == "copy"]
        offI = lambda ev: sp.Indexed(sp.IndexedBase("%s.%s" % (lay, roles["offset"]), real=True), ev)
        ok = len(wl) == 1 and len(cp) >= 1 and base_of(cp[-1][1].value[1]) == rl["WPTS"] and cp[-1][0] <= wl[0].pos <= upos if wl and cp else False
        if ok:
            L = wl[0]
            ev = L.var
            es = [e for e in L.effects if e.target == cw]
            ok = len(es) == 1 and es[0].op == "=" and isinstance(es[0].value, Vec)
            if ok:
                pt = field_index(es[0].key[0], lay, roles["point"], ev)
                want = sp.Function("toPhysical")(seg_of(xname, lay, roles, ev), ptI(lay, roles, ev))
                at = [a for a in es[0].value.t]
                ok = pt and len(at) == 1 and at[0][0] == "@" and sym.is_zero(es[0].value.t[at[0]] - 1) and same_modulo_gen(at[0][1], want)
            # nothing else writes the waypoint buffer between the copy and the update
            others = [e for e in I.effects if e.target == cw and cp[-1][0] < e.seq <= upos]
            ok = ok and not others
        if not ok:
            V.fail("decode-waypoints", "waypoints handed to the spline are not 'reference, with row point_index <- toPhysical(x[offset, offset+dof))' ")
        # boundary state
        bc = uargs[3]
        okb = isinstance(uargs[2], sp.Basic) and str(uargs[2]) == rl["START"]
        detb = ""
        for fld, val in bc.items():
            fl = [k for k, v in FIELD_OF_FLAG.items() if v == fld]
            if fl and fl[0] in setf:
                want = Vec.atom((xname + "@", sp.expand(D + dim * setf.index(fl[0]))))
            else:
                want = Vec.atom(("%s.%s" % (rl["BC"], fld),))
            if not vec_eq(val, want):
                okb = False
                detb = "with flags %s the spline gets %s = %r" % (setf, fld, val)
        if not okb:
            V.fail("decode-bc", detb or "start time handed to the spline is %s" % (uargs[2],))
        # evaluate() is a const query of the optimizer: the reference state, the flags and the cached layout are only read
        own = {rl["TIMES"], rl["WPTS"], rl["START"], rl["BC"], rl["COUNT"], fm, lay, members["D"], members["T"]}
        touched = [e for e in list(I.effects) + [e_ for L_ in loops for e_ in L_.effects] if e.target.split(".")[0] in own and not e.target.startswith("WS.")]
        if touched:
            V.fail("reference-untouched", "evaluate() writes %s (line %s): the reference state no longer pins the unflagged quantities on later evaluations" % (touched[0].target, touched[0].line))
        late = [e for e in I.effects if e.seq >= upos and e.target in (ct, cw)] + [L for L in loops if L.pos >= upos and any(e.target in (ct, cw) for e in L.effects)]
        if late:
            V.fail("decode-before-update", "decoded durations / waypoints are modified after the spline has been updated")
        # ---------------------------------------------------------------- roles of the gradient buffers
        pg = notes.get("propagateGrad", [])
        if len(pg) != 1:
            V.fail("propagate-inputs", "propagateGrad is called %d times" % len(pg))
            continue
        gdC, gdT = pg[0][1][0][1], pg[0][1][1][1]
        ppos = pg[0][2]
        ws = I.alias_records[cls + "::Workspace"]
        gstruct = [v for k, v in ws.f.items() if isinstance(v, Struct) and any(isinstance(x, Container) and x.name in {base_of(t_) for t_ in pg[0][3].values()} for x in v.f.values())]
        if len(gstruct) != 1:
            raise Broken("evaluate(): gradient struct filled by propagateGrad not identified")
        G = gstruct[0]
        eg = notes.get("getEnergyGrad", [])
        egets = notes.get("getEnergy", [])
        dE = None
        if eg:
            cand = [v for k, v in ws.f.items() if isinstance(v, Struct) and v is not G and any(isinstance(x, Container) and x.name in {base_of(t_) for t_ in eg[0][3].values()} for x in v.f.values())]
            dE = cand[0] if len(cand) == 1 else None
        tf, wf = notes.get("functor TIME", []), notes.get("functor WP", [])
        integ = notes.get("integral", [])

        def loop_event(L, cname):
            """an element loop that accumulates into cname, as the whole-array event it amounts to (or None)"""
            es = [e for e in L.effects if e.target == cname]
            ue = upper_excl(L)
            if len(es) != 1 or ue is None or es[0].op != "+=" or len(es[0].key) != 1:
                return None
            e, v = es[0], L.var
            c_ = sp.expand(es[0].key[0] - v)
            if v in c_.free_symbols:
                return None
            terms = []
            if isinstance(e.value, Vec):
                own = [a for a in e.value.t if base_of(a[0]) == cname and len(a) == 2 and sym.is_zero(sp.sympify(a[1]) - e.key[0]) and sym.is_zero(e.value.t[a] - 1)]
                if len(own) != 1:
                    return None
                for a, co in e.value.t.items():
                    if a is own[0] or a == own[0]:
                        continue
                    if len(a) != 2 or v not in sp.sympify(a[1]).free_symbols or not sym.is_zero(sp.diff(sp.sympify(a[1]), v) - 1) or v in sp.sympify(co).free_symbols:
                        return None
                    terms.append((sp.expand(co), a[0], sp.expand(sp.sympify(a[1]) - v + L.lo), sp.expand(ue - L.lo)))
            elif isinstance(e.value, sp.Basic):
                val = sp.expand(e.value)
                own = [a for a in val.atoms(sp.Indexed) if base_of(a.base) == cname and sym.is_zero(a.indices[0] - e.key[0])]
                if len(own) != 1 or not sym.is_zero(sp.diff(val, own[0]) - 1):
                    return None
                rest = sp.expand(val - own[0])
                for a in rest.atoms(sp.Indexed):
                    co = sp.expand(sp.diff(rest, a))
                    if v in co.free_symbols or not sym.is_zero(sp.diff(a.indices[0], v) - 1):
                        return None
                    terms.append((co, str(a.base), sp.expand(a.indices[0] - v + L.lo), sp.expand(ue - L.lo)))
                    rest = sp.expand(rest - co * a)
                if not sym.is_zero(rest):
                    return None
            else:
                return None
            if not (sym.is_zero(L.lo + c_) ):
                return None
            full = sym.is_zero(sp.expand(ue - L.lo))
            ev_ = sym.Effect(cname, ("*",), "+=", ("whole", (), "element loop", [(k_, t_, st_, cnt_) for k_, t_, st_, cnt_ in terms]), [], L.line)
            ev_.seq = L.pos
            return ev_

        def events(cname, lo=0, hi=None):
            out = [(e.seq, e) for e in I.effects if e.target == cname and e.seq >= lo and (hi is None or e.seq < hi)]
            for L in loops:
                if L.pos >= lo and (hi is None or L.pos < hi) and any(e.target == cname for e in L.effects):
                    le = loop_event(L, cname)
                    if le is not None:
                        out.append((le.seq, le))
            return sorted(out, key=lambda t: t[0])

        def shape(evs):
            out = []
            for k, e in evs:
                if e.op in ("resize",):
                    continue
                if e.op == "setZero":
                    out.append("zero")
                elif isinstance(e.value, tuple) and e.value[0] == "opaque":
                    out.append(e.op + " " + e.value[1])
                elif isinstance(e.value, tuple) and e.value[0] == "whole":
                    t = e.value[3]
                    out.append(e.op + " " + ("?" if t is None else " + ".join("%s*%s[%s..]" % (sp.sstr(a), base_of(b), sp.sstr(c)) + ("(%s)" % sp.sstr(d) if d is not None else "") for a, b, c, d in t)))
                else:
                    out.append(e.op + " ?")
            return out
        # dC: zero, += integral ; dT: zero, += time-functor buffer, += integral (the two accumulations in either order)
        shC = shape(events(gdC, 0, ppos))
        if shC != ["zero", "+= integral"]:
            V.fail("propagate-inputs", "coefficient-gradient buffer before propagation: %s" % shC)
        tb = tf[0][1][1][1] if tf and isinstance(tf[0][1][1], tuple) else None
        shT = shape(events(gdT, 0, ppos))
        wantT = ["zero"] + sorted(["+= integral", "+= 1*%s[0..]" % tb])
        if not (len(tf) == 1 and len(integ) == 1 and shT[:1] == ["zero"] and sorted(shT[1:]) == wantT[1:]):
            V.fail("propagate-inputs", "duration-gradient buffer before propagation: %s (expected zero, += the time functor's gradient, += the quadrature's)" % shT)
        if events(gdC, ppos) or events(gdT, ppos):
            V.fail("propagate-inputs", "dC / dT buffers are modified after they have been propagated")
        if tb is not None and shape(events(tb, 0, ppos)) != ["zero", "+= functor TIME"]:
            V.fail("time-buffer", "time-cost gradient buffer: %s" % shape(events(tb, 0, ppos)))
        if tf and not (isinstance(tf[0][1][0], tuple) and tf[0][1][0][1] == ct and tf[0][2] >= upos):
            V.fail("time-buffer", "the time-cost functor is not given the decoded durations (after the update)")
        # waypoint cost
        wb = None
        if not ctx["void"]:
            if len(wf) != 1:
                V.fail("wp-buffer", "waypoint-cost functor called %d times" % len(wf))
            else:
                wb = wf[0][1][1][1]
                if shape(events(wb, 0, wf[0][2] + 1)) != ["zero", "+= functor WP"] or events(wb, wf[0][2] + 1) or wf[0][1][0][1] != cw:
                    V.fail("wp-buffer", "waypoint-cost gradient buffer: %s; functor input %s" % (shape(events(wb)), wf[0][1][0][1]))
        # energy
        use_e = bool(egets)
        if rho_pos is True and not (len(eg) == 1 and len(egets) == 1 and dE is not None):
            V.fail("energy-source", "with a positive energy weight the energy / its gradient are fetched %d / %d times" % (len(egets), len(eg)))
        # ---------------------------------------------------------------- final gradient fields
        def gfield(side, m):
            st = G.f.get(side)
            return st.f.get(m) if isinstance(st, Struct) else None
        wbtag = None
        if wb is not None:
            wbc = [v for v in ws.f.values() if isinstance(v, Container) and v.name == wb]
            wbtag = wbc[0].tag() if wbc else None
        for side in ("start", "end"):
            st = G.f.get(side)
            if not isinstance(st, Struct):
                raise Broken("gradient struct has no %s part" % side)
            for m, val in st.f.items():
                want = Vec.atom(("PG.%s.%s" % (side, m),))
                if rho_pos is True:
                    want = want.add(Vec.atom(("dE.%s.%s" % (side, m),)).scale(rho))
                if m == "p" and wbtag is not None:
                    want = want.add(Vec.atom((wbtag, Integer(0) if side == "start" else n)))
                if not vec_eq(val, want):
                    V.fail("G-fields", "d cost / d %s.%s assembled as %r, expected %r (energy weight %s)" % (side, m, val, want, "positive" if rho_pos else "not positive"))
        gt = [v for k, v in G.f.items() if isinstance(v, Container) and v.kind == "scal"]
        gi = [v for k, v in G.f.items() if isinstance(v, Container) and v.kind == "rows"]
        if len(gt) != 1 or len(gi) != 1:
            raise Broken("gradient struct: duration / inner-point arrays not identified")
        shGt = shape(events(gt[0].name, ppos))
        wantGt = ["= PG.times"] + (["+= %s*%s[0..]" % (sp.sstr(rho), base_of(eg[0][3].get("times", "?")))] if rho_pos is True and eg else [])
        if [x for x in shGt if not x.startswith("= PG")] != wantGt[1:] or shGt[:1] != wantGt[:1]:
            V.fail("G-times", "duration gradient after propagation: %s, expected %s" % (shGt, wantGt))
        shGi = shape(events(gi[0].name, ppos))
        wantGi = []
        if wb is not None:
            wantGi.append("+= 1*%s[1..](%s)" % (wb, sp.sstr(sp.expand(n - 1))))
        if rho_pos is True and eg:
            wantGi.append("+= %s*%s[0..]" % (sp.sstr(rho), base_of(eg[0][3].get("inner_points", "?"))))
        got = [x.replace("Max(0, %s)" % sp.sstr(sp.expand(n - 1)), sp.sstr(sp.expand(n - 1))) for x in shGi if not x.startswith("= PG")]
        if shGi[:1] != ["= PG.inner_points"] or sorted(got) != sorted(wantGi):
            V.fail("G-inner", "inner-point gradient after propagation: %s, expected PG then %s" % (shGi, wantGi))
        # ---------------------------------------------------------------- encode
        ge = events(gname)
        ops = [e.op for k, e in ge][:2]
        z_ok = (ops == ["resize", "setZero"] or ops[:1] == ["setZero"])
        rz = [e for k, e in ge if e.op == "resize"]
        z_ok = z_ok and bool(rz) and str(rz[0].value[0]) in (xname + ".rows", xname + ".size")
        first_write = min([L.pos for L in loops if any(e.target == gname for e in L.effects)] + [k for k, e in ge if e.op == "="] + [10 ** 9])
        z_ok = z_ok and all(k < first_write or e.op == "=" for k, e in ge)
        if not z_ok:
            V.fail("encode-zero", "grad_out is not sized to x and zeroed before its slots are written: %s" % [(e.op, str(e.value)[:30]) for k, e in ge][:4])
        gl = [L for L in loops if not getattr(L, "over", None) and any(e.target == gname for e in L.effects)]
        ok = len(gl) == 1
        if ok:
            L = gl[0]
            es = [e for e in L.effects if e.target == gname]
            i = L.var
            ok = len(es) == 1 and es[0].op == "="
            if ok:
                c_ = sp.expand(es[0].key[0] - i)
                ue = upper_excl(L)
                val = sp.sympify(es[0].value).xreplace({i: i - c_}) if i not in c_.free_symbols else None
                ok = (val is not None and ue is not None and sym.is_zero(L.lo + c_) and sym.is_zero(ue + c_ - n) and val.func == sp.Function("backward") and len(val.args) == 3
                      and sym.is_zero(val.args[0] - X[i]) and indexed_of(val.args[1], ct, i) and indexed_of(val.args[2], gt[0].name, i, gt[0].tag()) and L.pos >= ppos)
        if not ok:
            V.fail("encode-times", "time slots of grad_out are not backward(x[i], duration i, d cost / d T_i) for every i < N")
        sl = [L for L in loops if getattr(L, "over", None) == lay and any(e.target == gname for e in L.effects)]
        ok = len(sl) == 1
        if ok:
            L = sl[0]
            ev = L.var
            es = [e for e in L.effects if e.target == gname]
            ok = len(es) == 1 and es[0].op == "="
            if ok:
                key = es[0].key[0]
                rng = [r for r in I.effects_ranges if r[0] == gname and r[4] == es[0].line]
                ok = same_modulo_gen(key, field_I(lay, roles["offset"], ev) + RS) and len(rng) >= 1 and same_modulo_gen(rng[-1][2], field_I(lay, roles["width"], ev))
            if ok:
                val = sp.sympify(rng[-1][3])
                pt = ptI(lay, roles, ev)
                p0 = s.prop("Eq(%s, 0)" % strip_gen(pt))
                pN = prop_of(s, pt, n)
                if p0 is True:
                    wantG, idxs = gfield("start", "p"), (Integer(0), pt)
                elif pN is True:
                    wantG, idxs = gfield("end", "p"), (n, pt)
                else:
                    wantG, idxs = Vec.atom((gi[0].tag(), sp.expand(pt - 1))), (pt,)
                ok = (val.func == sp.Function("backwardGrad") and len(val.args) == 3 and same_modulo_gen(val.args[0], seg_of(xname, lay, roles, ev))
                      and any(same_modulo_gen(val.args[2], ix) for ix in idxs) and strip_gen(val.args[1]) == strip_gen(evalsum.vec_name(wantG)) and L.pos >= ppos)
                if not ok:
                    V.fail("encode-spatial", "layout entry (%s): slots get %s, expected backwardGrad(x slice, %r, point index)" % (
                        "first point" if p0 else "last point" if pN else "inner point", str(val)[:160], wantG))
                    ok = True
        if not ok:
            V.fail("encode-spatial", "spatial slots of grad_out are not one run [offset, offset+dof) per layout entry")
        be = [e for k, e in ge if e.op == "=" and RS in sp.sympify(e.key[0]).free_symbols]
        ok = len(be) == len(setf)
        detb = "flags %s: %d blocks written" % (setf, len(be))
        for j, (fl, e) in enumerate(zip(setf, be)):
            side, m = GRAD_OF_FLAG[fl]
            wantv = sp.Function("comp")(evalsum.vec_name(gfield(side, m)), RS)
            if not (sym.is_zero(e.key[0] - (D + dim * j + RS)) and sp.sympify(e.value) == wantv):
                ok = False
                detb = "flags %s: block %d at %s holds %s, expected %s at %s" % (setf, j, e.key[0], e.value, wantv, D + dim * j + RS)
        if not ok:
            V.fail("encode-blocks", detb)
        # ---------------------------------------------------------------- returned cost
        want_cost = sp.Symbol("COST_TIME", real=True) + sp.Symbol("COST_INTEGRAL", real=True)
        if not ctx["void"]:
            want_cost += sp.Symbol("COST_WP", real=True)
        if rho_pos is True:
            want_cost += rho * sp.Symbol("ENERGY", real=True)
        if not (isinstance(s.ret, sp.Basic) and sym.is_zero(s.ret - want_cost)):
            V.fail("cost", "returns %s, expected %s (energy weight %s)" % (s.ret, want_cost, "positive" if rho_pos else "not positive"))
    # ---- the single-segment problem is a path of its own (no inner waypoints, possibly no spatial variable at all): the
    # clauses that do not depend on the size - one spline update per evaluation, the composition of the returned cost -
    # are replayed with N = 1, the sizes N = 1 does not determine (number of layout entries) left open
    nsmall = 0
    for pre in both:
        for s in evalsum.evaluate_paths(F, cls, f, ctx["count_member"], preset=pre, small=1):
            nsmall += 1
            ups = [nt for nt in s.notes if nt[0] == "update"]
            if len(ups) != 1:
                V.fail("update-once", "with one segment spline.update is called %d times on the path %s" % (len(ups), {str(k): v for k, v in s.assign.items() if not str(k).startswith(fm + ".")}))
            rho_pos = None
            rho = sp.Symbol(ctx["rho_member"], real=True)
            for k, v in s.assign.items():
                if isinstance(k, sp.core.relational.Relational) and any(str(x) == ctx["rho_member"] for x in k.free_symbols):
                    rho_pos = v if sp.simplify(k.subs(rho, 1)) == sp.true else (not v)
            want_cost = sp.Symbol("COST_TIME", real=True) + sp.Symbol("COST_INTEGRAL", real=True)
            if not ctx["void"]:
                want_cost += sp.Symbol("COST_WP", real=True)
            if rho_pos is True:
                want_cost += rho * sp.Symbol("ENERGY", real=True)
            if not (isinstance(s.ret, sp.Basic) and sym.is_zero(s.ret - want_cost)):
                V.fail("cost", "with one segment and %s it returns %s, expected %s" % ({str(k): v for k, v in s.assign.items() if not str(k).startswith(fm + ".")}, s.ret, want_cost))
    return V, len(sums) + nsmall


def strip_gen(e):
    import re
    return re.sub(r"#\\d+", "", str(e))


def same_modulo_gen(a, b):
    return strip_gen(sp.expand(sp.sympify(a)) if isinstance(a, sp.Basic) else a) == strip_gen(sp.expand(sp.sympify(b)) if isinstance(b, sp.Basic) else b)


def field_I(lay, fld, ev):
    return sp.Indexed(sp.IndexedBase("%s.%s" % (lay, fld), real=True), ev)


def ptI(lay, roles, ev):
    return field_I(lay, roles["point"], ev)


def seg_of(xname, lay, roles, ev):
    return sp.Function("seg")(sym.S(xname), field_I(lay, roles["offset"], ev), field_I(lay, roles["width"], ev))


def field_index(key, lay, fld, ev):
    return same_modulo_gen(key, field_I(lay, fld, ev))


def indexed_of(e, cname, i, tag=None):
    e = sp.sympify(e)
    return isinstance(e, sp.Indexed) and base_of(e.base) == cname and sym.is_zero(e.indices[0] - i) and (tag is None or str(e.base) == tag)


def prop_of(s, pt, n):
    for k, v in s.assign.items():
        if isinstance(k, sp.core.relational.Relational) and strip_gen(k) in ("Eq(%s, %s)" % (strip_gen(pt), n), "Eq(%s, %s)" % (n, strip_gen(pt))):
            return v
        if isinstance(k, sp.core.relational.Relational) and strip_gen(pt) in strip_gen(k) and str(n) in str(k) and isinstance(k, sp.Eq):
            return v
    return None


def analyse_cached(F, cls, f, ctx, full=True):
    """analyse() with its verdicts memoised next to the cached facts (same facts + same analysis code => same verdicts),
    so that C07, C08 and C09 share one interpretation of evaluate() per instantiation."""
    import hashlib, json, os
    here = os.path.dirname(os.path.abspath(__file__))
    h = hashlib.sha256()
    for nm in ("evalrules.py", "evalsum.py", "sym.py", "paths.py"):
        h.update(open(os.path.join(here, nm), "rb").read())
    h.update(repr((cls, f["full"], full, sorted((k, str(v)) for k, v in ctx.items()))).encode())
    path = (F.path or "/nonexistent") + ".eval." + h.hexdigest()[:20] + ".json"
    if F.path and os.path.exists(path):
        try:
            d = json.load(open(path))
            V = Verdicts()
            V.v = {k: tuple(v) for k, v in d["v"].items()}
            return V, d["n"]
        except Exception:
            pass
    V, n = analyse(F, cls, f, ctx, full)
    if F.path:
        try:
            tmp = path + ".tmp%d" % os.getpid()
            json.dump({"v": V.v, "n": n}, open(tmp, "w"))
            os.replace(tmp, path)
        except Exception:
            pass
    return V, n
