"""Engine A: algebraic summaries (DESIGN.md s3.5).

An abstract interpreter over the statement trees whose abstract values are exact rational
functions (scalars), formal linear combinations of vector atoms (rows of N x DIM arrays,
boundary vectors) and bilinear atoms <a|b> for dot products.  Loops are never unrolled: a loop
body is interpreted once with a symbolic index and yields a list of effects (the transfer
function of the body).  sympy is used only as a normal-form engine (expand/cancel/diff).
"""
import sympy as sp
from sympy import Rational, Symbol, Integer

from .facts import Broken, pp, walk
from .effects import callee


class Unsupported(Broken):
    pass


def S(name, **kw):
    return Symbol(name, **kw)


def rat(text):
    """Exact rational of a C++ numeric literal."""
    t = text.strip().rstrip("fFlLuU")
    try:
        return Rational(t)
    except Exception:
        try:
            from decimal import Decimal
            return Rational(Decimal(t))
        except Exception:
            raise Unsupported("numeric literal %r" % text)


def norm(e):
    if isinstance(e, (int,)):
        return Integer(e)
    return e


def is_zero(e):
    e = sp.sympify(e)
    if e == 0:
        return True
    if e.has(sp.Piecewise):
        return sp.simplify(sp.piecewise_fold(e)) == 0
    return sp.cancel(sp.together(sp.expand(e))) == 0


def idx_equal(a, b):
    """True / False when decidable for all index values, else None."""
    d = sp.simplify(sp.sympify(a) - sp.sympify(b))
    if d == 0:
        return True
    if d.is_number:
        return False
    if d.is_nonzero:
        return False
    if d.free_symbols and all(s.is_integer for s in d.free_symbols):
        # e.g. i - (n-1): unknown
        return None
    return None


# ---------------------------------------------------------------------------
# values


class Vec:
    """Formal vector: sum coeff * atom.  atom = hashable (name, index...)"""
    __slots__ = ("t",)

    def __init__(self, terms=None):
        self.t = {}
        if terms:
            for a, c in terms.items():
                c = sp.sympify(c)
                if c != 0:
                    self.t[a] = c

    @staticmethod
    def atom(a):
        return Vec({a: Integer(1)})

    def scale(self, s):
        s = sp.sympify(s)
        return Vec({a: c * s for a, c in self.t.items()})

    def add(self, o, sign=1):
        r = dict(self.t)
        for a, c in o.t.items():
            r[a] = r.get(a, 0) + sign * c
        return Vec(r)

    def clean(self):
        return Vec({a: sp.cancel(sp.together(c)) for a, c in self.t.items() if not is_zero(c)})

    def coeff(self, a):
        return self.t.get(a, Integer(0))

    def atoms(self):
        return set(self.t)

    def is_zero(self):
        return all(is_zero(c) for c in self.t.values())

    def __repr__(self):
        return "Vec(" + " + ".join("%s*%s" % (sp.sstr(c), atom_str(a)) for a, c in sorted(self.t.items(), key=lambda x: str(x[0]))) + ")"


def atom_str(a):
    return "%s[%s]" % (a[0], ",".join(sp.sstr(x) if not isinstance(x, str) else x for x in a[1:]))


_DOTS = {}


def dot_symbol(a, b):
    ka, kb = str(a), str(b)
    if kb < ka:
        a, b = b, a
    name = "<%s|%s>" % (atom_str(a), atom_str(b))
    s = Symbol(name, real=True)
    _DOTS[s] = (a, b)
    return s


def vdot(u, v):
    r = Integer(0)
    for a, ca in u.t.items():
        for b, cb in v.t.items():
            r += ca * cb * dot_symbol(a, b)
    return r


def norm_atoms(v):
    """canonical, order-independent text of a Vec (used to name vector values stored into scalar slots)"""
    return tuple(sorted((atom_str(a), sp.sstr(sp.expand(c))) for a, c in v.t.items() if not is_zero(c)))


class Comp:
    """Component j of vectors: linear (Vec) or quadratic ({(a,b):coeff}) form in component values."""
    __slots__ = ("lin", "quad", "const")

    def __init__(self, lin=None, quad=None, const=0):
        self.lin = lin or Vec()
        self.quad = dict(quad or {})
        self.const = sp.sympify(const)

    def is_linear(self):
        return not self.quad


class SmallMat:
    """Fixed size matrix of scalars."""

    def __init__(self, r, c, entries=None):
        self.r, self.c = r, c
        self.e = entries if entries is not None else [[None] * c for _ in range(r)]

    def copy(self):
        return SmallMat(self.r, self.c, [list(row) for row in self.e])

    def T(self):
        return SmallMat(self.c, self.r, [[self.e[i][j] for i in range(self.r)] for j in range(self.c)])

    def to_sympy(self):
        return sp.Matrix(self.r, self.c, lambda i, j: self.e[i][j] if self.e[i][j] is not None else S("undef"))

    @staticmethod
    def from_sympy(m):
        return SmallMat(m.rows, m.cols, [[m[i, j] for j in range(m.cols)] for i in range(m.rows)])

    def __repr__(self):
        return "SmallMat(%s)" % self.e


class BlockVec:
    """Fixed r x DIM block: list of Vec rows."""

    def __init__(self, r, rows=None):
        self.r = r
        self.rows = rows if rows is not None else [None] * r

    def copy(self):
        return BlockVec(self.r, list(self.rows))


RSYM = Symbol("r_", integer=True, nonnegative=True)


class RangeVal:
    """Element-wise value of a symbolic run of rows: row (offset RSYM) = vec, for 0 <= RSYM < count."""

    def __init__(self, count, vec):
        self.count, self.vec = count, vec


class Struct:
    def __init__(self, name, fields=None, track=None):
        self.name = name
        self.f = fields if fields is not None else {}
        self.track = track     # when set, field assignments are recorded as effects on "<track>.<field>"

    def copy(self):
        return Struct(self.name, {k: (v.copy() if hasattr(v, "copy") and not isinstance(v, sp.Basic) else v) for k, v in self.f.items()})


class Container:
    """Array-like storage: N x DIM rows of Vec ('rows'), vector of scalars ('scal'),
    N x k scalar block storage ('grid'), vector of structs ('struct')."""

    def __init__(self, name, kind, slots=1, struct_fields=None):
        self.name = name
        self.kind = kind
        self.gen = 0
        self.store = []      # list of (key tuple of sympy exprs, value) in write order
        self.slots = slots
        self.struct_fields = struct_fields
        self.size = None     # symbolic row count after resize
        self.zeroed = False  # setZero since last resize/gen bump
        self.sub = {}
        self.history = []
        self.owner = None
        if kind == "struct":
            for f in struct_fields or []:
                self.sub[f] = Container(name + "." + f, "scal")

    def tag(self):
        return self.name if self.gen == 0 else "%s#%d" % (self.name, self.gen)

    def bump(self):
        self.gen += 1
        self.store = []
        self.zeroed = False
        for c in self.sub.values():
            c.bump()

    def default(self, key):
        if self.owner is not None and self.kind in ("rows", "scal", "grid"):
            self.owner.log_event("read", self, key)
        if self.kind == "rows":
            if self.zeroed:
                return Vec()
            return Vec.atom((self.tag(),) + tuple(key))
        if self.kind in ("scal", "grid"):
            if self.zeroed:
                return Integer(0)
            return sp.Indexed(sp.IndexedBase(self.tag(), real=True), *key)
        if self.kind == "struct":
            flds = {}
            for f in self.struct_fields or []:
                flds[f] = self.sub[f].read(key)
            return Struct(self.name, flds)
        raise Unsupported("container kind " + self.kind)

    def read(self, key):
        key = tuple(sp.expand(sp.sympify(k)) for k in key)
        if self.kind == "struct":
            return self.default(key)
        for k2, v in reversed(self.store):
            eqs = [idx_equal(a, b) for a, b in zip(key, k2)]
            if any(e is None for e in eqs) and self.owner is not None and self.owner.size_resolver is not None:
                eqs = [e if e is not None else idx_equal(self.owner.size_resolver(a), self.owner.size_resolver(b)) for e, (a, b) in zip(eqs, zip(key, k2))]
            if all(e is True for e in eqs):
                return v
            if any(e is False for e in eqs):
                continue
            raise Unsupported("cannot decide aliasing of %s[%s] with earlier write [%s]" % (self.name, key, k2))
        return self.default(key)

    def write(self, key, value):
        key = tuple(sp.expand(sp.sympify(k)) for k in key)
        self.store.append((key, value))


class Ref:
    """lvalue references produced by the evaluator."""

    def __init__(self, kind, **kw):
        self.kind = kind
        self.__dict__.update(kw)


class Effect:
    def __init__(self, target, key, op, value, guards, line=None, delta=None):
        self.target, self.key, self.op, self.value, self.guards, self.line = target, key, op, value, guards, line
        self.delta = delta   # signed increment for accumulating writes (+=, -=)

    def __repr__(self):
        return "Effect(%s[%s] %s %r if %s)" % (self.target, self.key, self.op, self.value, self.guards)


class LoopSummary:
    def __init__(self, var, lo, cond, step, line):
        self.var, self.lo, self.cond, self.step, self.line = var, lo, cond, step, line
        self.effects = []
        self.locals = {}
        self.inner = []
        self.post_gen = {}
        self.carried = {}

    def writes_to(self, name):
        return [e for e in self.effects if e.target == name]


class Interp:
    """Abstract interpreter for one object (`this`) of a given class instantiation."""

    def __init__(self, F, cls, dim_symbolic=True, branch_oracle=None, on_call=None):
        self.F = F
        self.cls = cls
        self.heap = {}            # field name -> value/container
        self.loops = []           # top-level loop summaries in execution order
        self.effects = []         # straight-line effects outside loops
        self.guards = []          # current path condition [(text, polarity)]
        self.loop_stack = []
        self.branch_oracle = branch_oracle
        self.bool_inputs = set()      # names of boolean inputs (flags) met so far; paths.explore enumerates them
        self.path_oracle = None
        self.clock = 0                # monotonic stamp shared by effects, loops and notes (for 'before / after' rules)
        self.alias_records = {}       # record name -> value a reference declaration of that type is bound to
        self.on_call = on_call    # hook(callee, node, interp) -> value or NotImplemented
        self.depth = 0
        self.lambdas = {}
        self.trace = []
        self.rec = self.F.records.get(cls)
        self.opaque_calls = []
        self._sym_count = 0
        self.assume = []          # extra facts for index guards
        self.return_value = None
        self.decl_depth = {}
        self.tracing = False
        self.size_resolver = None     # concrete-size scenario: substitutes size symbols in index expressions
        self.assume_nonempty = False
        self.range_count = None
        self.trace = []
        self.trace_stack = [self.trace]
        self.iter_guards = []
        self.this_obj = []
        self.case = None          # {"first": bool, "last": bool}: kind of the symbolic iteration; size guards use "generic n"
        self.case_log = []
        self.field_assumptions = {}
        self.snapshots = []
        self.log_calls = False
        self.effects_ranges = []
        self.calls = []           # opaque / noted calls: (callee name, args values, line, loop)

    # -- fields -----------------------------------------------------------------
    def member_width_kind(self, name):
        """("slots", k): the member's column count is k * DIM in every instantiation of this class template (k DIM-wide
        vectors per row); ("grid",): the same column count whatever DIM is (block storage); None: not a member, or the
        instantiations at hand do not tell.  Decided from the types across instantiations, not from the member's name."""
        tab = getattr(self.F, "_width_kinds", None)
        if tab is None:
            tab = self.F._width_kinds = {}
            by_t = {}
            for rn, r in self.F.records.items():
                ta = r.get("targs") or []
                if not ta or not isinstance(ta[0], int):
                    continue
                for fl in r["fields"]:
                    ty = fl["ty"]
                    if ty.get("c") == "eigen" and ty.get("rows") == -1 and isinstance(ty.get("cols"), int) and ty["cols"] > 0:
                        by_t.setdefault((r.get("short"), tuple(ta[1:]), fl["name"]), {})[ta[0]] = ty["cols"]
            for key, d in by_t.items():
                if len(d) < 2:
                    continue
                ratios = {c_ / dim_ for dim_, c_ in d.items()}
                if len(ratios) == 1 and float(next(iter(ratios))).is_integer():
                    tab[key] = ("slots", int(next(iter(ratios))))
                elif len(set(d.values())) == 1:
                    tab[key] = ("grid",)
        r = self.rec or {}
        ta = r.get("targs") or []
        return tab.get((r.get("short"), tuple(ta[1:]), name))

    def field_names(self):
        return [f["name"] for f in (self.rec or {}).get("fields", [])]

    def field(self, cls, name):
        key = name
        if key in self.heap:
            return self.heap[key]
        rec = self.F.records.get(cls) or self.rec
        fld = None
        for f in rec["fields"]:
            if f["name"] == name:
                fld = f
        if fld is None:
            raise Unsupported("unknown field %s::%s" % (cls, name))
        v = self.make_value(name, fld["ty"])
        self.heap[key] = v
        return v

    def make_value(self, name, ty, symbolic=True):
        v = self._make_value(name, ty, symbolic)
        self._own(v)
        return v

    def _own(self, v):
        if isinstance(v, Container):
            v.owner = self
            for c in v.sub.values():
                self._own(c)
        elif isinstance(v, Struct):
            for x in v.f.values():
                self._own(x)

    def log_event(self, typ, cont, key=None, extra=None):
        if getattr(self, "_quiet", False):
            return
        if not self.tracing:
            return
        if extra is None and getattr(self, "range_count", None) is not None:
            extra = {"count": self.range_count}
        ev = {"type": typ, "cont": cont.name, "key": tuple(key) if key is not None else None, "zeroed": cont.zeroed,
              "iter_guards": list(self.iter_guards), "extra": extra}
        self.trace_stack[-1].append(ev)

    def _make_value(self, name, ty, symbolic=True):
        c = ty.get("c")
        if c in ("double",):
            return S(name, real=True)
        if c == "int":
            return S(name, integer=True, **self.field_assumptions.get(name, {}))
        if c == "bool":
            self.bool_inputs.add(name)
            return S(name)
        if c == "eigen":
            r, cl = ty.get("rows"), ty.get("cols")
            if r == -1 and cl == 1:
                return Container(name, "scal")
            if r == -1 and cl is not None and cl > 0:
                dim = self.dim()
                if dim and cl == dim:
                    return Container(name, "rows")
                fk = self.member_width_kind(name)
                if fk is not None and fk[0] == "slots" and dim and cl == fk[1] * dim:
                    return Container(name, "rows", slots=fk[1]) if fk[1] > 1 else Container(name, "rows")
                if fk is not None and fk[0] == "grid":
                    return Container(name, "grid")
                if dim and cl % dim == 0 and cl // dim in (2, 3) and name.startswith("ws_gd"):
                    return Container(name, "rows", slots=cl // dim)
                if dim and cl in (4, 9) and cl != dim:
                    return Container(name, "grid")
                # ambiguous widths (DIM == 4 or 9): decide by the declared storage name
                if cl in (4, 9) and ("cache" in name or "blocks" in name):
                    return Container(name, "grid")
                return Container(name, "rows")
            if r == -1 and cl == -1:
                return Container(name, "grid")
            if r is not None and r > 0 and cl is not None and cl > 0:
                dim = self.dim()
                if cl == dim and dim != 1 and r != dim:
                    return BlockVec(r, [Vec.atom((name, Integer(k))) for k in range(r)] if symbolic else None)
                if (cl == 1 and r == dim) or (r == 1 and cl == dim):
                    return Vec.atom((name,)) if symbolic else Vec()
                return SmallMat(r, cl, [[S("%s_%d%d" % (name, i, j), real=True) for j in range(cl)] for i in range(r)] if symbolic else None)
        if c == "record":
            if ty.get("std") == "vector":
                el = ty.get("elem", {})
                if el.get("c") == "double":
                    return Container(name, "scal")
                if el.get("c") == "record" and el.get("n") in self.F.records:
                    return Container(name, "struct", struct_fields=[f["name"] for f in self.F.records[el["n"]]["fields"]])
                if el.get("c") == "eigen":
                    c0 = Container(name, "nest")
                    c0.elem_ty = el
                    return c0
                return Container(name, "scal")
            n = ty.get("n")
            if n in self.F.records:
                st = Struct(n, track=name if symbolic else None)
                for f in self.F.records[n]["fields"]:
                    st.f[f["name"]] = self._make_value(name + "." + f["name"], f["ty"], symbolic)
                return st
        return S(name)

    def dim(self):
        rec = self.rec
        if rec and rec.get("targs"):
            t0 = rec["targs"][0]
            if isinstance(t0, int):
                return t0
        return None

    # -- helpers ----------------------------------------------------------------
    def fresh(self, base, **kw):
        self._sym_count += 1
        return S("%s" % base, **kw)

    def cond_text(self, c):
        return pp(c)

    # -- expression evaluation ---------------------------------------------------
    def ev(self, e, env):
        """rvalue of expression"""
        v = self.evl(e, env)
        return self.load(v)

    def load(self, v):
        if isinstance(v, Ref):
            k = v.kind
            if k == "row":
                return v.cont.read((v.idx, v.slot)) if v.cont.slots > 1 or True and v.cont.kind == "rows" and v.cont.slots > 1 else v.cont.read((v.idx,))
            if k == "elem":
                return v.cont.read(tuple(v.key))
            if k == "var":
                x = v.env[v.id]
                return self.load(x) if isinstance(x, Ref) else x
            if k == "field":
                return v.struct.f[v.name]
            if k == "smallelem":
                x = v.mat.e[v.i][v.j]
                if x is None:
                    raise Unsupported("read of unset small-matrix entry")
                return x
            if k == "blockrow":
                x = v.block.rows[v.i]
                if x is None:
                    raise Unsupported("read of unset block row")
                return x
            if k == "rows":   # view of several rows -> BlockVec
                return BlockVec(v.count, [v.cont.read((v.start + j,)) for j in range(v.count)])
            if k == "rowrange":
                self.range_count = v.count
                try:
                    return RangeVal(v.count, v.cont.read((v.start + RSYM,)))
                finally:
                    self.range_count = None
            if k == "comp":
                x = self.load(v.target) if isinstance(v.target, Ref) else v.target
                if not isinstance(x, Vec):
                    raise Unsupported("component of non-vector")
                return Comp(lin=x)
            if k == "structelem":
                return v.cont.read(v.key)
            if k == "carrayelem":
                x = v.arr[1][v.i]
                if x is None:
                    raise Unsupported("read of an unset element of a built-in array")
                return x
            if k == "scalrange":
                # a run of scalar slots read as one vector-valued quantity: DIM slots are a vector atom, any other length
                # an opaque scalar-indexed value seg(container, start, count)
                self.range_count = v.count
                try:
                    self.log_event("read", v.cont, (sp.expand(v.start + RSYM),))
                finally:
                    self.range_count = None
                if self.dim() and is_zero(v.count - self.dim()):
                    return Vec.atom((v.cont.tag() + "@", sp.expand(v.start)))
                return sp.Function("seg")(S(v.cont.tag()), sp.expand(v.start), sp.expand(v.count))
            raise Unsupported("load of ref kind " + k)
        return v

    def evl(self, e, env):
        """evaluate to a Ref (lvalue) where possible, else to a value"""
        if e is None:
            return None
        k = e.get("k")
        m = getattr(self, "e_" + k, None)
        if m is None:
            raise Unsupported("expression kind %s: %s (line %s)" % (k, pp(e)[:100], e.get("line")))
        return m(e, env)

    def e_lit(self, e, env):
        lt = e.get("lt")
        if lt in ("int", "double", "enum", "valueinit"):
            return rat(e["v"])
        if lt == "bool":
            return sp.true if e["v"] == "true" else sp.false
        if lt == "nullptr":
            return Integer(0)
        return e["v"]

    def e_static(self, e, env):
        if "v" in e:
            return rat(e["v"])
        raise Unsupported("static without constant value: " + e.get("name", "?"))

    def e_var(self, e, env):
        if e["id"] not in env:
            raise Unsupported("unbound variable %s (line ?)" % e["name"])
        return Ref("var", env=env, id=e["id"], name=e["name"])

    def e_this(self, e, env):
        return "this"

    def e_mem(self, e, env):
        b = e["base"]
        if b.get("k") == "this" and self.this_obj:
            st = self.this_obj[-1]
            if e["field"] not in st.f:
                raise Unsupported("object %s has no field %s" % (st.name, e["field"]))
            x = st.f[e["field"]]
            if isinstance(x, (Container, Struct, BlockVec, SmallMat)):
                return x
            return Ref("field", struct=st, name=e["field"])
        if b.get("k") == "this":
            v = self.field(e.get("cls"), e["field"])
            if isinstance(v, (Container, Struct, BlockVec, SmallMat)):
                return v
            return Ref("field", struct=_HeapStruct(self), name=e["field"])
        br = self.evl(b, env)
        if isinstance(br, Ref) and br.kind == "var" and isinstance(br.env.get(br.id), Ref):
            br = br.env[br.id]
        if isinstance(br, Ref) and br.kind == "structelem":
            if e["field"] not in br.cont.sub:
                raise Unsupported("struct element has no field " + e["field"])
            return Ref("elem", cont=br.cont.sub[e["field"]], key=br.key)
        bv = self.load(br)
        if isinstance(bv, Struct):
            if e["field"] not in bv.f:
                raise Unsupported("struct %s has no field %s" % (bv.name, e["field"]))
            x = bv.f[e["field"]]
            if isinstance(x, (Container, Struct, BlockVec, SmallMat)):
                return x
            return Ref("field", struct=bv, name=e["field"])
        raise Unsupported("member access on %r" % (bv,))

    def e_cast(self, e, env):
        return self.evl(e["e"], env)

    def e_defaultarg(self, e, env):
        return self.evl(e["e"], env)

    def e_defaultinit(self, e, env):
        return self.evl(e["e"], env)

    def e_cond(self, e, env):
        c = self.ev(e["c"], env)
        if c == sp.true:
            return self.ev(e["a"], env)
        if c == sp.false:
            return self.ev(e["b"], env)
        if getattr(self, "path_oracle", None) is not None:
            dec = self.case_decide(c) if self.case is not None and isinstance(c, sp.Basic) else None
            if dec is None:
                dec = self.path_oracle(e, c, self)
            if dec is True:
                return self.ev(e["a"], env)
            if dec is False:
                return self.ev(e["b"], env)
        a, b = self.ev(e["a"], env), self.ev(e["b"], env)
        if isinstance(a, sp.Expr) and isinstance(b, sp.Expr):
            return sp.Piecewise((a, c), (b, True))
        if isinstance(a, sp.Basic) and isinstance(b, sp.Basic):
            return sp.ITE(c, a, b)
        raise Unsupported("conditional with non-scalar branches")

    def e_un(self, e, env):
        op = e["op"]
        if op == "-":
            v = self.ev(e["e"], env)
            return self.neg(v)
        if op == "+":
            return self.ev(e["e"], env)
        if op == "!":
            v = self.ev(e["e"], env)
            return sp.Not(v)
        if op in ("++", "--"):
            r = self.evl(e["e"], env)
            old = self.load(r)
            self.assign(r, old + (1 if op == "++" else -1), e)
            return old if e.get("postfix") else old + (1 if op == "++" else -1)
        if op == "*":
            v = self.evl(e["e"], env)
            if isinstance(v, Ref) and v.kind in ("var", "carrayelem"):
                pv = self.load(v)
                if isinstance(pv, tuple) and pv and pv[0] == "ptr":
                    return pv[1]
            if isinstance(v, tuple) and v and v[0] == "ptr":
                return v[1]
            return v
        if op == "&":
            # address of an lvalue the interpreter tracks: a pointer value carrying the reference
            r = self.evl(e["e"], env)
            if isinstance(r, (Ref, Container, Struct, BlockVec, SmallMat)):
                return ("ptr", r)
            raise Unsupported("address of %s" % type(r).__name__)
        raise Unsupported("unary " + op)

    def neg(self, v):
        if isinstance(v, Vec):
            return v.scale(-1)
        if isinstance(v, BlockVec):
            return BlockVec(v.r, [r.scale(-1) for r in v.rows])
        if isinstance(v, SmallMat):
            return SmallMat(v.r, v.c, [[-x for x in row] for row in v.e])
        if isinstance(v, Comp):
            return Comp(v.lin.scale(-1), {k: -c for k, c in v.quad.items()}, -v.const)
        return -v

    def e_bin(self, e, env):
        op = e["op"]
        if op in ("&&", "||"):
            a = self.ev(e["l"], env)
            b = self.ev(e["r"], env)
            return sp.And(a, b) if op == "&&" else sp.Or(a, b)
        a = self.ev(e["l"], env)
        b = self.ev(e["r"], env)
        if op in ("<", "<=", ">", ">=", "==", "!="):
            return self.compare(op, a, b)
        if op == "/" and e.get("t", {}).get("c") == "int":
            q = sp.sympify(a) / sp.sympify(b)
            if not (q.is_integer or q.is_Integer):
                raise Unsupported("integer division %s" % pp(e))
            return q
        return self.arith(op, a, b, e)

    def compare(self, op, a, b):
        if any(isinstance(x, (Comp, Vec, BlockVec, SmallMat, Container, Struct, RangeVal)) for x in (a, b)):
            # a test on vector-valued data (one coordinate, a row): control flow that depends on the data values
            raise Unsupported("comparison %s on vector-valued data (%s, %s)" % (op, type(a).__name__, type(b).__name__))
        a, b = sp.sympify(a), sp.sympify(b)
        d = sp.simplify(a - b)
        rel = {"<": sp.Lt, "<=": sp.Le, ">": sp.Gt, ">=": sp.Ge, "==": sp.Eq, "!=": sp.Ne}[op]
        try:
            r = rel(d, 0)
        except Exception:
            r = rel(a, b)
        if r in (sp.true, sp.false):
            return r
        r2 = self.decide(d, op)
        return r if r2 is None else r2

    def decide(self, d, op):
        """Decide sign questions about affine integer expressions using loop ranges."""
        facts = []
        for ls in self.loop_stack:
            facts.extend(ls.get("facts", []))
        facts.extend(self.assume)
        # try: d is (sym - const) where facts bound sym
        for lo_sym, lo, hi in facts:
            pass
        return None

    def arith(self, op, a, b, e=None):
        a, b = norm(a), norm(b)
        sa, sb = isinstance(a, sp.Basic), isinstance(b, sp.Basic)
        if sa and sb:
            if op == "+":
                return a + b
            if op == "-":
                return a - b
            if op == "*":
                return a * b
            if op == "/":
                return a / b
        if isinstance(a, RangeVal) or isinstance(b, RangeVal):
            if isinstance(a, RangeVal) and isinstance(b, RangeVal):
                if not is_zero(a.count - b.count):
                    raise Unsupported("row ranges of different length")
                return RangeVal(a.count, self.arith(op, a.vec, b.vec, e))
            if isinstance(a, RangeVal):
                return RangeVal(a.count, self.arith(op, a.vec, b, e))
            return RangeVal(b.count, self.arith(op, a, b.vec, e))
        if op in ("+", "-"):
            sign = 1 if op == "+" else -1
            if isinstance(a, Vec) and isinstance(b, Vec):
                return a.add(b, sign)
            if isinstance(a, BlockVec) and isinstance(b, BlockVec) and a.r == b.r:
                return BlockVec(a.r, [x.add(y, sign) for x, y in zip(a.rows, b.rows)])
            if isinstance(a, SmallMat) and isinstance(b, SmallMat):
                return SmallMat(a.r, a.c, [[x + sign * y for x, y in zip(ra, rb)] for ra, rb in zip(a.e, b.e)])
            if isinstance(a, Comp) or isinstance(b, Comp):
                a, b = self.as_comp(a), self.as_comp(b)
                q = dict(a.quad)
                for k2, c in b.quad.items():
                    q[k2] = q.get(k2, 0) + sign * c
                return Comp(a.lin.add(b.lin, sign), q, a.const + sign * b.const)
        if op == "*":
            if sa and isinstance(b, Vec):
                return b.scale(a)
            if sb and isinstance(a, Vec):
                return a.scale(b)
            if sa and isinstance(b, BlockVec):
                return BlockVec(b.r, [r.scale(a) for r in b.rows])
            if sb and isinstance(a, BlockVec):
                return BlockVec(a.r, [r.scale(b) for r in a.rows])
            if sa and isinstance(b, SmallMat):
                return SmallMat(b.r, b.c, [[a * x for x in row] for row in b.e])
            if sb and isinstance(a, SmallMat):
                return SmallMat(a.r, a.c, [[b * x for x in row] for row in a.e])
            if isinstance(a, SmallMat) and isinstance(b, SmallMat):
                if a.c != b.r:
                    raise Unsupported("small matrix product shape %dx%d * %dx%d" % (a.r, a.c, b.r, b.c))
                return SmallMat.from_sympy(a.to_sympy() * b.to_sympy())
            if isinstance(a, SmallMat) and isinstance(b, BlockVec):
                if a.c != b.r:
                    raise Unsupported("matrix*block shape")
                rows = []
                for i in range(a.r):
                    v = Vec()
                    for j in range(a.c):
                        v = v.add(b.rows[j].scale(a.e[i][j]))
                    rows.append(v)
                return BlockVec(a.r, rows) if a.r > 1 else rows[0]
            if isinstance(a, SmallMat) and isinstance(b, Vec) and a.c == 1:
                # outer product column(K) * row vector -> K x DIM block
                return BlockVec(a.r, [b.scale(a.e[i][0]) for i in range(a.r)])
            if isinstance(a, Comp) or isinstance(b, Comp):
                return self.comp_mul(a, b)
        if op == "/":
            if sb and isinstance(a, Vec):
                return a.scale(1 / b)
            if sb and isinstance(a, BlockVec):
                return BlockVec(a.r, [r.scale(1 / b) for r in a.rows])
            if sb and isinstance(a, SmallMat):
                return SmallMat(a.r, a.c, [[x / b for x in row] for row in a.e])
            if sb and isinstance(a, Comp):
                return Comp(a.lin.scale(1 / b), {k2: c / b for k2, c in a.quad.items()}, a.const / b)
        raise Unsupported("arithmetic %s on %s and %s (%s)" % (op, type(a).__name__, type(b).__name__, pp(e)[:100] if e else ""))

    def as_comp(self, v):
        if isinstance(v, Comp):
            return v
        if isinstance(v, sp.Basic):
            return Comp(const=v)
        raise Unsupported("component arithmetic with %r" % (v,))

    def comp_mul(self, a, b):
        a_s, b_s = isinstance(a, sp.Basic), isinstance(b, sp.Basic)
        if a_s:
            return Comp(b.lin.scale(a), {k: c * a for k, c in b.quad.items()}, b.const * a)
        if b_s:
            return Comp(a.lin.scale(b), {k: c * b for k, c in a.quad.items()}, a.const * b)
        if a.quad or b.quad:
            raise Unsupported("cubic component product")
        q = {}
        for x, cx in a.lin.t.items():
            for y, cy in b.lin.t.items():
                kk = (x, y) if str(x) <= str(y) else (y, x)
                q[kk] = q.get(kk, 0) + cx * cy
        lin = a.lin.scale(b.const).add(b.lin.scale(a.const))
        return Comp(lin, q, a.const * b.const)

    def e_assign(self, e, env):
        r = self.evl(e["l"], env)
        v = self.ev(e["r"], env)
        op = e["op"]
        if op == "=":
            # x = x + d (x a loop-carried local, or the same element that is being stored) is the accumulation x += d
            acc = self.as_accumulation(r, v)
            if acc is not None:
                self.assign(r, v, e, accumulate="+=", delta=acc)
            else:
                self.assign(r, v, e)
        else:
            old = self.load(r)
            d = v if op == "+=" else (self.neg(v) if op == "-=" else None)
            self.assign(r, self.arith(op[0], old, v, e), e, accumulate=op, delta=d)
        return r

    def as_accumulation(self, r, v):
        """d such that the stored value v is (current value of the target) + d with d free of the target, when the target
        is a loop-carried local or an array element; None otherwise"""
        if not (isinstance(r, Ref) and r.kind in ("var", "elem", "row")):
            return None
        self._quiet = True          # looking at the current value is not a read the program makes
        try:
            cur = self.load(r)
        except Exception:
            return None
        finally:
            self._quiet = False
        if isinstance(cur, sp.Basic) and isinstance(v, sp.Basic):
            carried = {x for x in cur.free_symbols if x.name.startswith("$")}
            own = set(cur.atoms(sp.Indexed)) if r.kind == "elem" else set()
            if (not carried and not own) or cur == 0:
                return None
            # structural only (no expansion of large right-hand sides): every summand of the current value is a summand
            # of the new one; what is left over is the increment
            rest = list(sp.Add.make_args(v))
            for a_ in sp.Add.make_args(cur):
                if a_ in rest:
                    rest.remove(a_)
                else:
                    return None
            d = sp.Add(*rest)
            if d == 0 or (d.free_symbols & carried) or (set(d.atoms(sp.Indexed)) & own):
                return None
            return d
        if isinstance(cur, Vec) and isinstance(v, Vec) and len(cur.t) == 1:
            (a, c), = cur.t.items()
            if not (sp.sympify(c) == 1 and (str(a[0]).startswith("$") or r.kind == "row")):
                return None
            d = v.add(cur, -1)
            if d.is_zero() or a in d.t:
                return None
            return d
        return None

    def e_subscript(self, e, env):
        base = self.evl(e["base"], env)
        arr = self.load(base) if isinstance(base, Ref) else base
        if isinstance(arr, tuple) and arr and arr[0] == "carray":
            idx = self.ev(e["idx"], env)
            idx = sp.sympify(idx)
            if not idx.is_Integer:
                raise Unsupported("built-in array indexed by %s (not a constant on this path)" % idx)
            if not (0 <= int(idx) < len(arr[1])):
                raise Unsupported("built-in array index %s outside [0, %d)" % (idx, len(arr[1])))
            return Ref("carrayelem", arr=arr, i=int(idx))
        raise Unsupported("builtin subscript")

    def e_ctor(self, e, env):
        c = callee(e)
        args = [a for a in e.get("args", [])]
        ty = e.get("t", {})
        if ty.get("c") == "eigen":
            if len(args) == 1:
                v = self.ev(args[0], env)
                at = (args[0].get("t") or {}).get("c")
                if isinstance(v, sp.Basic) and ty.get("rows") == -1 and at not in ("eigen",):
                    cont = self.make_value("local", ty)
                    cont.size = v
                    return cont
                return self.copyval(v)
            if not args:
                return self.make_value("tmp", ty, symbolic=False)
            if len(args) == 2 and ty.get("rows") == -1:
                # Matrix(rows, cols) : fresh uninitialised dynamic matrix
                cont = self.make_value("local", ty)
                if isinstance(cont, Container):
                    cont.size = self.ev(args[0], env)
                return cont
            if len(args) == 1 and ty.get("rows") == -1:
                cont = self.make_value("local", ty)
                return cont
        if ty.get("c") == "record" and ty.get("n") in self.F.records:
            fid = c.get("fid")
            if fid in self.F.by_fid:
                return self.call_ctor(self.F.by_fid[fid], args, env, ty)
            if len(args) == 1 and e.get("copy"):
                return self.copyval(self.ev(args[0], env))
            if not args:
                return self.make_value("tmp", ty, symbolic=False)
        if ty.get("c") == "record" and ty.get("std") == "vector":
            real = [a for a in args if not (isinstance(a, dict) and a.get("k") == "defaultarg")]
            if len(real) == 1 and len(args) == 2 and ((real[0].get("t") or {}).get("c") == "int"):
                # vector(count): a fresh list of `count` value-initialised elements
                cont = self.make_value("tmpvec", ty)
                if isinstance(cont, Container):
                    cont.size = self.ev(real[0], env)
                    return cont
        if ty.get("c") == "record" and ty.get("std") == "vector" and len(args) <= 1:
            if args:
                return self.copyval(self.ev(args[0], env))
            return self.make_value("tmpvec", ty)
        if len(args) == 1:
            return self.copyval(self.ev(args[0], env))
        tn = str(ty.get("n", ""))
        if not args and (tn.startswith("std::minus") or tn.startswith("std::plus")):
            return ("stdop", "-" if tn.startswith("std::minus") else "+")
        raise Unsupported("constructor %s (line %s)" % (pp(e)[:80], e.get("line")))

    def call_ctor(self, f, args, env, ty):
        st = self.make_value("tmp", ty, symbolic=False)
        env2 = {}
        for p, a in zip(f["params"], args):
            env2[p["id"]] = self.bind_param(p, a, env)
        # member initialisers run in order with the object under construction as `this` (later members may be
        # initialised from earlier ones); then the constructor body, if it has one
        self.this_obj.append(st)
        try:
            for ini in f.get("inits") or []:
                if "field" in ini:
                    st.f[ini["field"]] = self.copyval(self.ev(ini["init"], env2))
            body = f.get("body")
            if body is not None and body.get("body"):
                self.exec_block_returning(body, env2)
        finally:
            self.this_obj.pop()
        return st

    def copyval(self, v):
        if isinstance(v, Container):
            c = Container(v.name, v.kind, v.slots, v.struct_fields)
            c.gen, c.store, c.size, c.zeroed = v.gen, list(v.store), v.size, v.zeroed
            c.owner = v.owner
            c.copy_of = (v.name, v.tag())        # provenance of a by-value copy (the copy keeps reading as the original)
            return c
        if isinstance(v, (BlockVec, SmallMat, Struct)):
            return v.copy()
        return v

    def e_initlist(self, e, env):
        ty = e.get("t", {})
        if ty.get("c") == "record" and ty.get("n") in self.F.records:
            st = Struct(ty["n"])
            for f, x in zip(self.F.records[ty["n"]]["fields"], e["elems"]):
                st.f[f["name"]] = self.ev(x, env)
            return st
        if len(e["elems"]) == 1:
            return self.ev(e["elems"][0], env)
        n_ = str(ty.get("n", ""))
        if n_.endswith("]") and "[" in n_:
            # a small built-in array initialised element by element (tables of flags or constants)
            return ("carray", [self.ev(x, env) for x in e["elems"]])
        raise Unsupported("init list")

    def e_lambda(self, e, env):
        return ("lambda", e, env, list(self.this_obj))

    def e_conv(self, e, env):
        return self.ev(e["obj"], env)

    # -- calls -------------------------------------------------------------------
    def e_call(self, e, env):
        c = callee(e)
        if self.on_call:
            r = self.on_call(c, e, env, self)
            if r is not NotImplemented:
                return r
        ns, nm, op = c.get("ns"), c.get("name"), c.get("op")
        if ns == "Eigen":
            return self.eigen_call(e, env, c)
        if ns == "std":
            return self.std_call(e, env, c)
        fid = c.get("fid")
        if op == "=" and "obj" in e and fid not in self.F.by_fid and len(e.get("args", [])) == 1:
            tgt = self.evl(e["obj"], env)
            src = self.ev(e["args"][0], env)
            if isinstance(tgt, Ref) and tgt.kind == "structelem" and isinstance(src, Struct):
                self.assign(tgt, src, e)          # element of an array of structs: member-wise into the field arrays
                return tgt
            tv = self.load(tgt) if isinstance(tgt, Ref) else tgt
            if isinstance(tv, Struct) and isinstance(src, Struct):
                self.assign(tv, src, e)
                return tv
        if fid in self.F.lambda_by_fid:
            return self.call_lambda(fid, e, env)
        if fid in self.F.by_fid:
            return self.call_repo(self.F.by_fid[fid], e, env)
        if "obj" not in e and nm in ("sqrt", "abs", "fabs", "floor", "isfinite", "max", "min", "exp", "log", "expm1", "log1p", "pow", "copysign"):
            return self.std_call(e, env, c)
        if "obj" in e and op in ("+", "-") and "__normal_iterator" in str(c.get("cls", "")):
            it = self.ev(e["obj"], env)
            if isinstance(it, tuple) and it[0] == "iter" and e.get("args"):
                d = self.ev(e["args"][0], env)
                off = self.iter_offset(it)
                return ("iter", it[1], sp.expand(off + d if op == "+" else off - d))
        raise Unsupported("call to %s (line %s)" % (c.get("q"), e.get("line")))

    def bind_param(self, p, a, env):
        ty = p["ty"]
        if ty.get("ref") and not (ty.get("const") and False):
            r = self.evl(a, env)
            if isinstance(r, Ref):
                if ty.get("const"):
                    return self.load(r)
                return r
            return r
        return self.copyval(self.ev(a, env))

    def call_repo(self, f, e, env):
        if self.depth > 12:
            raise Unsupported("call depth")
        if f.get("kind") in ("copyassign", "moveassign") and "obj" in e and len(e.get("args", [])) == 1 and (f.get("body") is None or f.get("implicit") or not (f.get("body") or {}).get("body")):
            # compiler-generated assignment of a plain struct: member-wise
            tgt = self.evl(e["obj"], env)
            val = self.ev(e["args"][0], env)
            self.assign(tgt, val, e)
            return tgt
        # arguments and the object expression are evaluated in the caller's context
        env2 = {}
        for p, a in zip(f["params"], e.get("args", [])):
            env2[p["id"]] = self.bind_param(p, a, env)
        new_this = None
        if "obj" in e and f.get("kind") in ("method", "conv") and not f.get("static"):
            ob = e["obj"]
            if not (isinstance(ob, dict) and ob.get("k") == "this"):
                ov = self.evl(ob, env)
                ov = self.load(ov) if isinstance(ov, Ref) else ov
                if isinstance(ov, Struct):
                    new_this = ov
                elif ov == "this" or ov is None:
                    pass
                else:
                    raise Unsupported("method call on %s (line %s)" % (type(ov).__name__, e.get("line")))
        ci = None
        if self.log_calls:
            snap = []
            for p in f["params"]:
                v = env2[p["id"]]
                try:
                    v = self.load(v) if isinstance(v, Ref) else v
                except Unsupported:
                    v = None
                snap.append(self.copyval(v) if isinstance(v, (SmallMat, BlockVec)) else v)
            self.calls.append({"name": f["name"], "fid": f["fid"], "args": snap, "line": e.get("line"), "env": env2,
                               "loop": self.loop_stack[-1]["summary"] if self.loop_stack else None})
            ci = len(self.calls) - 1
        if new_this is not None:
            self.this_obj.append(new_this)
        self.depth += 1
        try:
            r = self.run_body(f, env2)
        finally:
            self.depth -= 1
            if new_this is not None:
                self.this_obj.pop()
        if self.log_calls:
            outs = []
            for p in f["params"]:
                v = env2[p["id"]]
                try:
                    v = self.load(v) if isinstance(v, Ref) else v
                except Unsupported:
                    v = None
                outs.append(self.copyval(v) if isinstance(v, (SmallMat, BlockVec)) else v)
            self.calls[ci]["after"] = outs
        return r

    def call_lambda(self, fid, e, env):
        lam, spec, _ = self.F.lambda_by_fid[fid]
        lv = self.load(self.evl(e["obj"], env)) if "obj" in e else None
        cap_env = lv[2] if isinstance(lv, tuple) and lv[0] == "lambda" else env
        shared = lam.get("default") == "ref"
        # [&] callables work on the enclosing scope itself (declaration ids are unique, so sharing the table is exact);
        # others get a copy, with explicitly by-reference captures written back afterwards
        env2 = cap_env if shared else dict(cap_env)
        before = None if shared else dict(cap_env)
        for p, a in zip(spec["params"], e.get("args", [])):
            env2[p["id"]] = self.bind_param(p, a, env)
        saved_this = self.this_obj
        if isinstance(lv, tuple) and lv[0] == "lambda" and len(lv) > 3:
            self.this_obj = list(lv[3])
        self.depth += 1
        try:
            r = self.exec_block_returning(spec["body"], env2)
        finally:
            self.depth -= 1
            self.this_obj = saved_this
        # scalars captured by reference and assigned inside the callable keep their new value in the enclosing scope
        if not shared:
            pids = {p["id"] for p in spec["params"]}
            byref = {c_.get("id") for c_ in lam.get("captures", []) if c_.get("mode") == "ref"}
            for k_, v_ in env2.items():
                if k_ in pids or k_ not in cap_env or k_ not in byref:
                    continue
                if v_ is not before.get(k_) and not isinstance(cap_env[k_], Ref):
                    cap_env[k_] = v_
        return r

    def run_body(self, f, env):
        return self.exec_block_returning(f["body"], env)

    def exec_block_returning(self, body, env):
        # an early return inside an inlined callee skips the rest of the callee, not of its caller: the path condition it
        # added ends with the call
        saved = list(self.guards)
        depth = getattr(self, "_call_depth", 0)
        self._call_depth = depth + 1
        try:
            self.exec(body, env)
        except _Return as r:
            return r.value
        finally:
            self._call_depth = depth
            if depth > 0:
                self.guards = saved
        return None

    # Eigen vocabulary ---------------------------------------------------------
    def eigen_call(self, e, env, c):
        nm, op = c.get("name"), c.get("op")
        args = e.get("args", [])
        if "obj" not in e:
            # free operators: scalar*matrix, matrix+matrix, operator<< etc.
            if op in ("+", "-", "*", "/") and len(args) == 2:
                return self.arith(op, self.ev(args[0], env), self.ev(args[1], env), e)
            if op == "-" and len(args) == 1:
                return self.neg(self.ev(args[0], env))
            if nm == "Zero" or nm == "Constant":
                return self.zero_of(e.get("t", {}))
            raise Unsupported("Eigen free function %s (line %s)" % (nm, e.get("line")))
        objr = self.evl(e["obj"], env)
        if op in ("+", "-", "*", "/"):
            a = self.load(objr)
            if not args and op == "-":
                return self.neg(a)
            return self.arith(op, a, self.ev(args[0], env), e)
        if op in ("+=", "-=", "*=", "/="):
            tgt = self.load(objr) if isinstance(objr, Ref) and objr.kind in ("var", "field") else objr
            if isinstance(tgt, Container):
                # whole-array accumulation  A op= <expression over whole arrays>: element i of the new generation is a
                # function of element i of the operands; the summaries keep the event, not the element-wise formula
                srcs = sorted({n_.get("field") or n_.get("name") for n_ in walk(args[0]) if n_.get("k") in ("mem", "var") and (n_.get("t") or {}).get("c") == "eigen"})
                self.record(tgt.name, ("*",), op, ("whole", tuple(srcs), pp(args[0])[:120], self.whole_terms(args[0], env)), e)
                self.log_event("read", tgt, None)
                tgt.bump()
                return objr
        if op in ("=", "+=", "-=", "*=", "/="):
            v = self.ev(args[0], env)
            if op == "=":
                self.assign(objr, v, e)
            else:
                old = self.load(objr)
                d = v if op == "+=" else (self.neg(v) if op == "-=" else None)
                self.assign(objr, self.arith(op[0], old, v, e), e, accumulate=op, delta=d)
            return objr
        if op == "<<":
            return ("comma", objr, [self.ev(args[0], env)])
        if op == ",":
            ci = objr if isinstance(objr, tuple) else self.load(objr)
            if not (isinstance(ci, tuple) and ci[0] == "comma"):
                raise Unsupported("comma on non-initialiser")
            ci[2].append(self.ev(args[0], env))
            self.maybe_finish_comma(ci, e)
            return ci
        if op in ("==", "!=") and len(args) == 1:
            # whole-array comparison: an opaque proposition about the two arrays' current contents
            a = self.load(objr) if isinstance(objr, Ref) and objr.kind in ("var", "field") else objr
            b = self.ev(args[0], env)
            def tagof(v):
                if isinstance(v, Container):
                    return S("array:" + v.tag())
                if isinstance(v, Vec):
                    return S(repr(norm_atoms(v)))
                if isinstance(v, sp.Basic):
                    return v
                raise Unsupported("comparison of %s" % type(v).__name__)
            r = sp.Eq(tagof(a), tagof(b), evaluate=False)
            return r if op == "==" else sp.Not(r)
        if op in ("()", "[]"):
            return self.index(objr, [self.ev(a, env) for a in args], e)
        obj = objr
        if nm in ("transpose", "noalias", "array", "matrix", "eval", "derived"):
            if nm == "transpose":
                v = self.load(obj) if isinstance(obj, Ref) and obj.kind not in ("row", "rows", "var", "blockrow") else obj
                if isinstance(v, SmallMat):
                    return v.T()
                if isinstance(obj, Ref) and obj.kind == "var":
                    vv = self.load(obj)
                    if isinstance(vv, SmallMat):
                        return vv.T()
            return obj
        if nm == "row":
            return self.row_of(obj, self.ev(args[0], env), e)
        if nm in ("middleRows", "block", "topRows", "bottomRows", "segment", "head", "tail"):
            return self.view_of(obj, nm, [self.ev(a, env) for a in args], c.get("targs"), e)
        if nm in ("dot",):
            a, b = self.load(obj), self.ev(args[0], env)
            if isinstance(a, Vec) and isinstance(b, Vec):
                return vdot(a, b)
            raise Unsupported("dot of non-vectors")
        if nm in ("squaredNorm",):
            a = self.load(obj)
            if isinstance(a, Vec):
                return vdot(a, a)
            raise Unsupported("squaredNorm of non-vector")
        if nm == "norm":
            a = self.load(obj)
            if isinstance(a, Vec):
                return sp.sqrt(vdot(a, a))
            if isinstance(a, Container):
                return sp.Function("norm")(S(a.tag()))
            raise Unsupported("norm")
        if nm == "isZero":
            # Eigen's isZero(prec) is a *tolerance* test on the entries: an opaque proposition about the data
            v = self.load(obj) if isinstance(obj, Ref) else obj
            if isinstance(v, BlockVec):
                names = sorted(repr(norm_atoms(r_)) for r_ in v.rows if isinstance(r_, Vec))
                return sp.Function("isZeroTol")(S("|".join(names)))
            if isinstance(v, RangeVal) and isinstance(v.vec, Vec):
                return sp.Function("isZeroTol")(S(repr(norm_atoms(v.vec))))
            if isinstance(v, Vec):
                return sp.Function("isZeroTol")(S(repr(norm_atoms(v))))
            if isinstance(v, Container):
                return sp.Function("isZeroTol")(S("array:" + v.tag()))
            raise Unsupported("isZero of %s" % type(v).__name__)
        if nm == "setZero":
            self.set_zero(obj, args, env, e)
            return obj
        if nm == "resize":
            self.resize(obj, [self.ev(a, env) for a in args], e)
            return obj
        if nm in ("rows", "size"):
            v = self.load(obj) if isinstance(obj, Ref) else obj
            if isinstance(v, Container):
                if v.size is not None:
                    return v.size
                return S(v.name + ".rows", integer=True, **({"positive": True} if self.assume_nonempty else {"nonnegative": True}))
            if isinstance(v, SmallMat):
                return Integer(v.r)
            if isinstance(v, BlockVec):
                return Integer(v.r)
            if isinstance(v, Vec):
                return Integer(self.dim() or 0)
        if nm == "cols":
            return Integer(self.dim() or 0)
        raise Unsupported("Eigen member %s (line %s): %s" % (nm, e.get("line"), pp(e)[:80]))

    def whole_terms(self, e, env):
        """A whole-array right-hand side as a list of (scale, source array generation, first row, row count or None):
        sums of (scalar *) array / block of rows; None when the expression has another shape."""
        try:
            v = self.evl(e, env)
        except Unsupported:
            v = None
        if isinstance(v, Ref) and v.kind in ("var", "field"):
            v = self.load(v)
        if isinstance(v, Container):
            return [(Integer(1), v.tag(), Integer(0), None)]
        if isinstance(v, Ref) and v.kind in ("rows", "rowrange"):
            return [(Integer(1), v.cont.tag(), sp.sympify(v.start), sp.sympify(v.count))]
        x = e
        while isinstance(x, dict) and x.get("k") in ("cast", "paren") or (isinstance(x, dict) and x.get("k") == "ctor" and len(x.get("args", [])) == 1):
            x = x.get("e") if x.get("k") != "ctor" else x["args"][0]
        if isinstance(x, dict) and x.get("k") == "call":
            c = callee(x)
            ops = ([x["obj"]] if "obj" in x else []) + list(x.get("args", []))
            if c.get("op") == "*" and len(ops) == 2:
                for a, b in ((ops[0], ops[1]), (ops[1], ops[0])):
                    try:
                        sc = self.ev(a, env)
                    except Unsupported:
                        continue
                    if isinstance(sc, sp.Basic):
                        t = self.whole_terms(b, env)
                        if t is not None:
                            return [(sp.expand(sc * k_), tag, st, cnt) for k_, tag, st, cnt in t]
            if c.get("op") in ("+", "-") and len(ops) == 2:
                a, b = self.whole_terms(ops[0], env), self.whole_terms(ops[1], env)
                if a is not None and b is not None:
                    return a + [((k_ if c["op"] == "+" else -k_), tag, st, cnt) for k_, tag, st, cnt in b]
        return None

    def std_transform(self, e, env, args):
        """std::transform summarised like the element loop it is: out[o + r] = f(in[a + r] (, in2[b + r])) for r in
        [0, last - first); out may be a back_inserter (push_back per element).  f is a lambda of this translation unit
        or std::minus / std::plus."""
        binary = len(args) == 5
        first, last = self.ev(args[0], env), self.ev(args[1], env)
        second = self.ev(args[2], env) if binary else None
        out = self.ev(args[3 if binary else 2], env)
        fn = self.ev(args[-1], env)
        its = [first, last] + ([second] if binary else [])
        if not all(isinstance(x, tuple) and x[0] == "iter" and x[1].kind in ("scal", "struct") for x in its) or first[1] is not last[1]:
            raise Unsupported("transform on unsupported ranges (line %s)" % e.get("line"))
        a0, a1 = self.iter_offset(first), self.iter_offset(last)
        cnt = sp.expand(a1 - a0)
        r = S("tr_%d" % (len(self.loop_stack) + len(self.loops)), integer=True, nonnegative=True)
        summ = LoopSummary(r, Integer(0), None, 1, e.get("line"))
        summ.hi, summ.cond_op, summ.is_comp, summ.name = cnt, "<", False, "transform"
        summ.pos = self.tick()
        for c_ in self.all_containers(env):
            if c_.store:
                c_.history.append((c_.gen, list(c_.store)))
                c_.bump()
        frame = {"summary": summ, "comp_var": None, "var": r}
        self.loop_stack.append(frame)
        tnode = None
        if self.tracing:
            tnode = {"type": "loop", "line": e.get("line"), "var": r, "lo": Integer(0), "hi": cnt, "op": "<", "step": 1, "items": []}
            self.trace_stack[-1].append(tnode)
            self.trace_stack.append(tnode["items"])
        try:
            x1 = first[1].read((sp.expand(a0 + r),))
            vals = [x1]
            if binary:
                vals.append(second[1].read((sp.expand(self.iter_offset(second) + r),)))
            if isinstance(fn, tuple) and fn and fn[0] == "stdop":
                if len(vals) != 2:
                    raise Unsupported("unary transform with a binary functor")
                val = vals[0] - vals[1] if fn[1] == "-" else vals[0] + vals[1]
            elif isinstance(fn, tuple) and fn and fn[0] == "lambda":
                lam = fn[1]
                specs = lam.get("specs", [])
                if len(specs) != 1 or len(specs[0].get("params", [])) != len(vals):
                    raise Unsupported("transform with a callable of another arity")
                env2 = fn[2] if lam.get("default") == "ref" else dict(fn[2])
                for p_, v_ in zip(specs[0]["params"], vals):
                    env2[p_["id"]] = v_
                saved_this = self.this_obj
                if len(fn) > 3:
                    self.this_obj = list(fn[3])
                try:
                    val = self.exec_block_returning(specs[0]["body"], env2)
                finally:
                    self.this_obj = saved_this
            else:
                raise Unsupported("transform with an unsupported callable (line %s)" % e.get("line"))
            if isinstance(out, tuple) and out[0] == "backins":
                self.record(out[1].name, ("push",), "push_back", val, e)
            elif isinstance(out, tuple) and out[0] == "iter":
                key = (sp.expand(self.iter_offset(out) + r),)
                if out[1].kind == "struct":
                    self.assign(Ref("structelem", cont=out[1], key=key), val, e)
                else:
                    self.assign(Ref("elem", cont=out[1], key=key), val, e)
            else:
                raise Unsupported("transform into an unsupported destination")
        finally:
            self.loop_stack.pop()
            if tnode is not None:
                self.trace_stack.pop()
        if self.loop_stack:
            self.loop_stack[-1]["summary"].inner.append(summ)
        else:
            self.loops.append(summ)
        pushed = set()
        for eff in summ.effects:
            self.havoc_after_loop(eff, env, summ)
            if eff.op == "push_back" and eff.target not in pushed:
                pushed.add(eff.target)
                cont = self.find_container(eff.target, env)
                if cont is not None:
                    cont.size = sp.expand(cont.size + cnt) if cont.size is not None else None
        return out

    def zero_of(self, ty):
        v = self.make_value("zero", ty, symbolic=False)
        if isinstance(v, Vec):
            return Vec()
        if isinstance(v, BlockVec):
            return BlockVec(v.r, [Vec() for _ in range(v.r)])
        if isinstance(v, SmallMat):
            return SmallMat(v.r, v.c, [[Integer(0)] * v.c for _ in range(v.r)])
        if isinstance(v, Container):
            v.zeroed = True
            return v
        raise Unsupported("Zero() of %s" % ty)

    def maybe_finish_comma(self, ci, e):
        tgt = ci[1]
        t = self.load(tgt) if isinstance(tgt, Ref) else tgt
        if isinstance(t, SmallMat) and len(ci[2]) == t.r * t.c:
            vals = ci[2]
            for i in range(t.r):
                for j in range(t.c):
                    t.e[i][j] = sp.sympify(vals[i * t.c + j])
            # a filled block literal, whatever holds it (a local, a member of a local record, an out-parameter)
            nm = tgt.name if isinstance(tgt, Ref) and tgt.kind == "var" else getattr(tgt, "name", None) or "literal"
            self.snapshots.append({"var": nm, "id": getattr(tgt, "id", None), "value": t.copy(), "line": e.get("line"),
                                   "loop": self.loop_stack[-1]["summary"] if self.loop_stack else None})

    def index(self, objr, idx, e):
        v = objr
        while isinstance(v, Ref) and v.kind == "var" and isinstance(v.env.get(v.id), Ref):
            v = v.env[v.id]          # reference parameter / view variable: follow without loading
        if isinstance(v, Ref) and v.kind in ("var", "field"):
            v = self.load(v)
        if isinstance(v, SmallMat):
            if len(idx) == 2 and all(sp.sympify(i).is_Integer for i in idx):
                return Ref("smallelem", mat=v, i=int(idx[0]), j=int(idx[1]))
            if len(idx) == 1 and sp.sympify(idx[0]).is_Integer:
                if v.r == 1:
                    return Ref("smallelem", mat=v, i=0, j=int(idx[0]))
                return Ref("smallelem", mat=v, i=int(idx[0]), j=0)
            raise Unsupported("symbolic index into a small matrix: %s" % pp(e))
        if isinstance(v, Container):
            if v.kind == "scal" and len(idx) == 1:
                return Ref("elem", cont=v, key=(idx[0],))
            if v.kind == "grid" and len(idx) == 2:
                return Ref("elem", cont=v, key=(idx[0], idx[1]))
            if v.kind == "rows" and len(idx) == 2:
                return self.component(Ref("row", cont=v, idx=idx[0], slot=Integer(0)), idx[1], e)
        if isinstance(v, Vec) or (isinstance(v, Ref) and v.kind in ("row", "blockrow")):
            if len(idx) == 1:
                return self.component(v if isinstance(v, Ref) else objr, idx[0], e)
        if isinstance(v, BlockVec) or (isinstance(v, Ref) and v.kind == "rows"):
            if len(idx) == 2 and sp.sympify(idx[0]).is_Integer:
                rowref = self.row_of(v, idx[0], e)
                return self.component(rowref, idx[1], e)
        raise Unsupported("indexing %s (line %s)" % (pp(e)[:80], e.get("line")))

    def component(self, vref, j, e):
        comp_var = self.loop_stack[-1].get("comp_var") if self.loop_stack else None
        if comp_var is None or sp.sympify(j) != comp_var:
            raise Unsupported("coordinate access %s outside a uniform component loop (line %s)" % (pp(e)[:60], e.get("line")))
        return Ref("comp", target=vref)

    def row_of(self, obj, i, e):
        v = obj
        while isinstance(v, Ref) and v.kind == "var" and isinstance(v.env.get(v.id), Ref):
            v = v.env[v.id]
        if isinstance(v, Ref) and v.kind in ("var", "field"):
            v = self.load(v)
        if isinstance(v, Container) and v.kind == "rows":
            return Ref("row", cont=v, idx=sp.sympify(i), slot=Integer(0))
        if isinstance(v, Ref) and v.kind == "rows":
            return Ref("row", cont=v.cont, idx=v.start + sp.sympify(i), slot=Integer(0))
        if isinstance(v, BlockVec):
            if not sp.sympify(i).is_Integer:
                raise Unsupported("symbolic row of a fixed block")
            return Ref("blockrow", block=v, i=int(i))
        if isinstance(v, SmallMat) and sp.sympify(i).is_Integer:
            return SmallMat(1, v.c, [list(v.e[int(i)])])
        raise Unsupported("row() of %s (line %s)" % (type(v).__name__, e.get("line")))

    def view_of(self, obj, nm, args, targs, e):
        v = obj
        while isinstance(v, Ref) and v.kind == "var" and isinstance(v.env.get(v.id), Ref):
            v = v.env[v.id]          # a local alias of a row / view keeps denoting that row
        if isinstance(v, Ref) and v.kind in ("var", "field"):
            v = self.load(v)
        tints = [t for t in (targs or []) if isinstance(t, int)]
        if isinstance(v, Container) and v.kind == "scal" and nm in ("segment", "head", "tail"):
            if nm == "segment":
                start, cnt = args[0], (tints[0] if tints else args[1])
            elif nm == "head":
                start, cnt = Integer(0), (tints[0] if tints else args[0])
            else:
                cnt = tints[0] if tints else args[0]
                n_ = v.size if v.size is not None else S(v.name + ".size", integer=True)
                start = n_ - cnt
            return Ref("scalrange", cont=v, start=sp.sympify(start), count=sp.sympify(cnt))
        if isinstance(v, Container) and v.kind == "rows" and nm == "block" and self.dim():
            # a 1 x DIM block of an array whose rows hold several DIM-wide slots: row r, slot col / DIM
            dim = self.dim()
            if len(args) == 2 and len(tints) == 2:
                r_, c_, nr, nc = args[0], args[1], tints[0], tints[1]
            elif len(args) == 4:
                r_, c_, nr, nc = args
            else:
                r_ = None
            if r_ is not None and sp.sympify(nr) == 1 and sp.sympify(nc) == dim and (v.slots > 1 or not is_zero(sp.sympify(c_))):
                slot = sp.simplify(sp.sympify(c_) / dim)
                if not slot.is_Integer:
                    raise Unsupported("block column offset is not a multiple of DIM")
                return Ref("row", cont=v, idx=sp.sympify(r_), slot=slot)
        if isinstance(v, Container) and v.kind == "rows":
            if nm == "middleRows":
                start = args[0]
                cnt = tints[0] if tints else args[1]
            elif nm == "block":
                if len(args) == 4:
                    start, cnt = args[0], args[2]
                else:
                    start, cnt = args[0], tints[0]
            elif nm == "topRows":
                start, cnt = Integer(0), (tints[0] if tints else args[0])
            elif nm == "bottomRows":
                cnt = tints[0] if tints else args[0]
                n = v.size if v.size is not None else S(v.name + ".rows", integer=True)
                start = n - cnt
            else:
                raise Unsupported("view %s of row container" % nm)
            cnt = sp.sympify(cnt)
            if cnt.is_Integer:
                return Ref("rows", cont=v, start=sp.sympify(start), count=int(cnt))
            return Ref("rowrange", cont=v, start=sp.sympify(start), count=cnt)
        if isinstance(v, Ref) and v.kind == "row" and nm == "segment":
            dim = self.dim()
            start = sp.sympify(args[0])
            slot = sp.simplify(start / dim) if dim else start
            if not slot.is_Integer:
                raise Unsupported("segment start not a multiple of DIM")
            return Ref("row", cont=v.cont, idx=v.idx, slot=slot)
        raise Unsupported("view %s of %s (line %s)" % (nm, type(v).__name__, e.get("line")))

    def set_zero(self, obj, args, env, e):
        v = obj
        if isinstance(obj, Ref) and obj.kind in ("var", "field"):
            v = self.load(obj)
        if isinstance(v, Container):
            real = [a for a in (args or []) if not (isinstance(a, dict) and a.get("k") == "defaultarg")]
            if real:
                # the sizing overloads setZero(n) / setZero(rows, cols): a resize followed by zeroing
                self.resize(obj, [self.ev(a, env) for a in real], e)
            self.record(v.name, ("*",), "setZero", None, e)
            v.bump()
            v.zeroed = True
            return
        if isinstance(v, SmallMat):
            for i in range(v.r):
                for j in range(v.c):
                    v.e[i][j] = Integer(0)
            return
        if isinstance(v, BlockVec):
            v.rows = [Vec() for _ in range(v.r)]
            return
        if isinstance(v, Vec) and isinstance(obj, Ref):
            self.assign(obj, Vec(), e)
            return
        if isinstance(obj, Ref) and obj.kind == "rows":
            # a fixed number of rows of an array (middleRows<k>(r).setZero()): each of them is assigned the zero vector
            self.assign(obj, BlockVec(obj.count, [Vec() for _ in range(obj.count)]), e)
            return
        if isinstance(obj, Ref) and obj.kind == "rowrange":
            self.assign(obj, RangeVal(obj.count, Vec()), e)
            return
        if isinstance(obj, Ref) and obj.kind == "row":
            self.assign(obj, Vec(), e)
            return
        raise Unsupported("setZero on %s" % type(v).__name__)

    def resize(self, obj, args, e):
        v = obj
        if isinstance(obj, Ref) and obj.kind in ("var", "field"):
            v = self.load(obj)
        if isinstance(v, Container):
            self.record(v.name, ("*",), "resize", args, e)
            v.bump()
            v.size = args[0] if args else None
            return
        raise Unsupported("resize on %s" % type(v).__name__)

    def iter_offset(self, it):
        """element offset of an iterator value ("iter", container, 'begin'|'end'|expr)"""
        pos = it[2]
        if pos == "begin":
            return Integer(0)
        if pos == "end":
            cont = it[1]
            return cont.size if cont.size is not None else S(cont.name + ".size", integer=True, **({"positive": True} if self.assume_nonempty else {"nonnegative": True}))
        return sp.sympify(pos)

    # std vocabulary --------------------------------------------------------------
    def std_call(self, e, env, c):
        nm, op = c.get("name"), c.get("op")
        args = e.get("args", [])
        if "numeric_limits<double>" in str(c.get("cls", "")) and "obj" not in e and not args:
            # the characteristic constants of the floating-point format, as named positive / infinite constants
            if nm in ("epsilon", "min", "denorm_min", "max"):
                return sp.Symbol("DBL_" + nm.upper(), positive=True)
            if nm == "lowest":
                return -sp.Symbol("DBL_MAX", positive=True)
            if nm == "infinity":
                return sp.oo
        if "obj" in e:
            objr = self.evl(e["obj"], env)
            v = self.load(objr) if isinstance(objr, Ref) and objr.kind in ("var", "field") else objr
            if isinstance(v, Container):
                if (op == "[]" or nm == "at") and v.kind == "nest":
                    i = sp.expand(self.ev(args[0], env))
                    key = "%s[%s]" % (v.name, sp.sstr(i))
                    if key not in v.sub:
                        v.sub[key] = self.make_value(key, v.elem_ty)
                        v.sub[key].nest_index = i
                    return v.sub[key]
                if op == "[]" or nm == "at":
                    i = self.ev(args[0], env)
                    if v.kind == "struct":
                        return Ref("structelem", cont=v, key=(sp.sympify(i),))
                    return Ref("elem", cont=v, key=(i,))
                if nm == "size":
                    if v.size is not None:
                        return v.size
                    return S(v.name + ".size", integer=True, **({"positive": True} if self.assume_nonempty else {"nonnegative": True}))
                if nm == "resize":
                    self.resize(v, [self.ev(a, env) for a in args if a.get("k") != "defaultarg"], e)
                    return None
                if nm == "back":
                    n = v.size if v.size is not None else S(v.name + ".size", integer=True)
                    return Ref("elem", cont=v, key=(n - 1,))
                if nm == "front":
                    return Ref("elem", cont=v, key=(Integer(0),))
                if nm == "clear":
                    self.record(v.name, ("*",), "clear", None, e)
                    v.bump()
                    v.size = Integer(0)
                    return None
                if nm == "reserve":
                    return None
                if nm == "push_back":
                    val = self.ev(args[0], env)
                    self.record(v.name, ("push",), "push_back", val, e)
                    return None
                if nm in ("begin", "end"):
                    return ("iter", v, nm)
                if op == "=":
                    src = self.ev(args[0], env)
                    self.assign(v, src, e)
                    return v
                if nm == "empty":
                    return sp.Eq(v.size if v.size is not None else S(v.name + ".size", integer=True), 0)
        else:
            if nm in ("max", "min"):
                a, b = self.ev(args[0], env), self.ev(args[1], env)
                return (sp.Max if nm == "max" else sp.Min)(a, b)
            if nm in ("move", "forward"):
                return self.evl(args[0], env)
            if nm == "sqrt":
                return sp.sqrt(self.ev(args[0], env))
            if nm in ("exp", "log", "expm1", "log1p"):
                x_ = self.ev(args[0], env)
                if not isinstance(x_, sp.Basic):
                    raise Unsupported("std::%s of a non-scalar" % nm)
                return {"exp": sp.exp(x_), "log": sp.log(x_), "expm1": sp.exp(x_) - 1, "log1p": sp.log(1 + x_)}[nm]
            if nm == "pow" and len(args) == 2:
                x_, y_ = self.ev(args[0], env), self.ev(args[1], env)
                if isinstance(x_, sp.Basic) and isinstance(y_, sp.Basic):
                    return sp.Pow(x_, y_)
                raise Unsupported("std::pow of non-scalars")
            if nm == "copysign" and len(args) == 2:
                x_, y_ = self.ev(args[0], env), self.ev(args[1], env)
                if isinstance(x_, sp.Basic) and isinstance(y_, sp.Basic):
                    return sp.Abs(x_) * sp.sign(y_)      # (b = 0 gives 0 here, +|a| in C++: a set of measure zero)
                raise Unsupported("std::copysign of non-scalars")
            if nm in ("abs", "fabs"):
                return sp.Abs(self.ev(args[0], env))
            if nm == "floor":
                return sp.floor(self.ev(args[0], env))
            if nm == "isfinite":
                return sp.Function("isfinite")(self.ev(args[0], env))
            if nm == "adjacent_difference" and len(args) == 3:
                first, last, out = (self.ev(a, env) for a in args)
                if all(isinstance(x, tuple) and x[0] == "iter" for x in (first, last, out)) and first[1] is last[1] and first[1].kind == "scal" and out[1].kind == "scal":
                    src, dst = first[1], out[1]
                    a0, a1, o0 = self.iter_offset(first), self.iter_offset(last), self.iter_offset(out)
                    n_el = sp.expand(a1 - a0)
                    # out[o0] = in[a0];  out[o0+1+r] = in[a0+1+r] - in[a0+r]  for r in [0, n_el-1)
                    v0 = src.read((a0,))
                    dst.write((o0,), v0)
                    self.record(dst.name, (sp.expand(o0),), "=", v0, e)
                    self.range_count = n_el - 1
                    try:
                        vr = src.read((sp.expand(a0 + 1 + RSYM),)) - src.read((sp.expand(a0 + RSYM),))
                        dst.write((sp.expand(o0 + 1 + RSYM),), vr)
                        self.record(dst.name, (sp.expand(o0 + 1 + RSYM),), "=", vr, e)
                        self.effects_ranges.append((dst.name, sp.expand(o0 + 1), n_el - 1, vr, e.get("line")))
                    finally:
                        self.range_count = None
                    return ("iter", dst, sp.expand(o0 + n_el))
                raise Unsupported("adjacent_difference on unsupported ranges (line %s)" % e.get("line"))
            if nm in ("begin", "end", "cbegin", "cend") and len(args) == 1 and "obj" not in e:
                a = self.ev(args[0], env)
                if isinstance(a, tuple) and a and a[0] == "carray":
                    return ("citer", a, 0 if nm in ("begin", "cbegin") else len(a[1]))
            if nm == "count" and len(args) == 3:
                first, last = self.ev(args[0], env), self.ev(args[1], env)
                val = self.ev(args[2], env)
                if all(isinstance(x, tuple) and x and x[0] == "citer" for x in (first, last)) and first[1] is last[1]:
                    cnt = Integer(0)
                    for x in first[1][1][first[2]:last[2]]:
                        eq = x if val == sp.true else (sp.Not(x) if val == sp.false else sp.Eq(x, val))
                        d_ = True if eq == sp.true else False if eq == sp.false else None
                        if d_ is None and self.path_oracle is not None and isinstance(eq, sp.Basic):
                            d_ = self.path_oracle(e, eq, self)
                        if d_ is None:
                            cnt = cnt + sp.Piecewise((1, eq), (0, True))
                        elif d_:
                            cnt = cnt + 1
                    return cnt
                raise Unsupported("std::count on unsupported ranges (line %s)" % e.get("line"))
            if nm == "back_inserter" and len(args) == 1:
                c_ = self.ev(args[0], env)
                if isinstance(c_, Container):
                    return ("backins", c_)
            if nm == "transform" and len(args) in (4, 5):
                return self.std_transform(e, env, args)
            if nm == "accumulate" and len(args) == 3:
                first, last = self.ev(args[0], env), self.ev(args[1], env)
                init = self.ev(args[2], env)
                if all(isinstance(x, tuple) and x[0] == "iter" for x in (first, last)) and first[1] is last[1] and first[1].kind == "scal" and isinstance(init, sp.Basic):
                    src = first[1]
                    a0, a1 = self.iter_offset(first), self.iter_offset(last)
                    cnt = sp.expand(a1 - a0)
                    self.range_count = cnt
                    try:
                        self.log_event("read", src, (sp.expand(a0 + RSYM),))
                    finally:
                        self.range_count = None
                    # init + sum of the run, summed left to right (the order only matters for rounding)
                    return init + sp.Function("rangesum")(S(src.tag()), sp.expand(a0), cnt)
                raise Unsupported("accumulate on unsupported ranges (line %s)" % e.get("line"))
            if nm == "partial_sum" and len(args) == 3:
                first, last, out = (self.ev(a, env) for a in args)
                if all(isinstance(x, tuple) and x[0] == "iter" for x in (first, last, out)) and first[1] is last[1] and first[1].kind == "scal" and out[1].kind == "scal" and out[1] is not first[1]:
                    src, dst = first[1], out[1]
                    a0, a1, o0 = self.iter_offset(first), self.iter_offset(last), self.iter_offset(out)
                    n_el = sp.expand(a1 - a0)
                    # out[o0] = in[a0];  out[o0+1+r] = out[o0+r] + in[a0+1+r]  for r in [0, n_el-1)
                    v0 = src.read((a0,))
                    dst.write((o0,), v0)
                    self.record(dst.name, (sp.expand(o0),), "=", v0, e)
                    self.range_count = n_el - 1
                    try:
                        # the array's own previous element: written by the step before (or the point write above), so no region read is logged
                        vr = sp.Indexed(sp.IndexedBase(dst.tag(), real=True), sp.expand(o0 + RSYM)) + src.read((sp.expand(a0 + 1 + RSYM),))
                        dst.write((sp.expand(o0 + 1 + RSYM),), vr)
                        self.record(dst.name, (sp.expand(o0 + 1 + RSYM),), "=", vr, e)
                        self.effects_ranges.append((dst.name, sp.expand(o0 + 1), n_el - 1, vr, e.get("line")))
                    finally:
                        self.range_count = None
                    return ("iter", dst, sp.expand(o0 + n_el))
                raise Unsupported("partial_sum on unsupported ranges (line %s)" % e.get("line"))
            if nm == "fill":
                it = self.ev(args[0], env)
                if isinstance(it, tuple) and it[0] == "iter":
                    val = self.ev(args[2], env)
                    self.record(it[1].name, ("*",), "fill", val, e)
                    it[1].bump()
                    if is_zero(val):
                        it[1].zeroed = True
                    return None
        raise Unsupported("std call %s (line %s): %s" % (nm, e.get("line"), pp(e)[:80]))

    # -- assignment / effects ------------------------------------------------------
    def tick(self):
        self.clock += 1
        return self.clock

    def record(self, target, key, op, value, node, delta=None):
        eff = Effect(target, key, op, value, list(self.guards), node.get("line") if isinstance(node, dict) else None, delta)
        eff.seq = self.tick()
        if self.tracing:
            self.trace_stack[-1].append({"type": "effect", "cont": target, "key": tuple(key), "op": op, "value": value if op in ("resize", "=") and isinstance(value, (list, tuple)) else None,
                                         "iter_guards": list(self.iter_guards), "line": eff.line,
                                         "extra": {"count": self.range_count} if getattr(self, "range_count", None) is not None else None})
        frames = [ls for ls in self.loop_stack if not ls.get("comp_var")]
        if frames:
            # effects inside nested loops are also visible from the outer summaries
            for ls in frames:
                ls["summary"].effects.append(eff)
        else:
            self.effects.append(eff)

    def assign(self, r, v, node, accumulate=None, delta=None):
        if isinstance(r, Container):
            # whole-container assignment
            if isinstance(v, Container):
                r.gen, r.store, r.size, r.zeroed, r.kind = v.gen, list(v.store), v.size, v.zeroed, v.kind
                self.record(r.name, ("*",), "=", ("copy", v.name, v.tag()), node)
                r.copied_from = v.name
                return
            if isinstance(v, RangeVal) and r.kind == "rows" and isinstance(v.vec, Vec):
                # whole array := element-wise expression over runs of rows: row r_ of the new generation, 0 <= r_ < count
                r.bump()
                r.size = sp.expand(v.count)
                r.write((RSYM,), v.vec)
                self.range_count = v.count
                try:
                    self.record(r.name, (RSYM,), "=", v.vec, node)
                finally:
                    self.range_count = None
                self.effects_ranges.append((r.name, Integer(0), v.count, v.vec, node.get("line") if isinstance(node, dict) else None))
                return
            raise Unsupported("container assigned from %s" % type(v).__name__)
        if not isinstance(r, Ref):
            if isinstance(r, BlockVec) and isinstance(v, BlockVec):
                r.rows = list(v.rows)
                return
            if isinstance(r, SmallMat) and isinstance(v, SmallMat):
                r.e = [list(x) for x in v.e]
                return
            if isinstance(r, Struct) and isinstance(v, Struct):
                new = v.copy().f
                for k2, x in new.items():
                    if isinstance(x, Struct) and isinstance(r.f.get(k2), Struct):
                        x.track = r.f[k2].track
                    if r.track and not isinstance(x, (Struct, Container)):
                        self.record(r.track + "." + k2, (), "=", x, node)
                r.f = new
                return
            raise Unsupported("assignment to non-lvalue %r (line %s)" % (r, node.get("line") if isinstance(node, dict) else None))
        k = r.kind
        if k == "var":
            cur = r.env.get(r.id)
            if isinstance(cur, Ref):
                return self.assign(cur, v, node, accumulate, delta)
            if isinstance(cur, (BlockVec, SmallMat, Struct, Container)) and not isinstance(v, type(cur)):
                if isinstance(cur, BlockVec) and isinstance(v, Vec) and cur.r == 1:
                    cur.rows = [v]
                    return
                raise Unsupported("type-changing assignment to %s" % r.name)
            if isinstance(cur, (BlockVec, SmallMat, Struct, Container)):
                return self.assign(cur, v, node, accumulate, delta)
            if self.loop_stack and self.decl_depth.get(r.id, 0) < len(self.loop_stack) and not self.loop_stack[-1].get("comp_var"):
                self.record("$" + r.name, (), accumulate or "=", v, node, delta)
            r.env[r.id] = v
            return
        if k == "field":
            if isinstance(r.struct, _HeapStruct):
                self.record(r.name, (), accumulate or "=", v, node, delta)
            elif getattr(r.struct, "track", None):
                self.record(r.struct.track + "." + r.name, (), accumulate or "=", v, node, delta)
            r.struct.f[r.name] = v
            return
        if k == "row":
            key = (r.idx, r.slot) if r.cont.slots > 1 else (r.idx,)
            if isinstance(v, BlockVec) and v.r == 1:
                v = v.rows[0]
            if isinstance(v, sp.Basic) and getattr(v, "is_Function", False):
                v = Vec.atom(("@", v))           # a vector produced by an opaque (user) function
            if not isinstance(v, Vec):
                raise Unsupported("row assigned from %s" % type(v).__name__)
            r.cont.write(key, v)
            self.record(r.cont.name, key, accumulate or "=", v, node, delta)
            return
        if k == "rows":
            if not isinstance(v, BlockVec) or v.r != r.count:
                raise Unsupported("block view assigned from %s" % type(v).__name__)
            for j in range(r.count):
                r.cont.write((r.start + j,), v.rows[j])
                self.record(r.cont.name, (sp.sympify(r.start + j),), accumulate or "=", v.rows[j], node,
                            delta.rows[j] if isinstance(delta, BlockVec) else None)
            return
        if k == "rowrange":
            if not isinstance(v, RangeVal) or not is_zero(v.count - r.count):
                raise Unsupported("row range assigned from %s" % type(v).__name__)
            r.cont.write((sp.expand(r.start + RSYM),), v.vec)
            self.range_count = r.count
            try:
                self.record(r.cont.name, (sp.expand(r.start + RSYM),), accumulate or "=", v.vec, node)
            finally:
                self.range_count = None
            self.effects_ranges.append((r.cont.name, r.start, r.count, v.vec, node.get("line") if isinstance(node, dict) else None))
            return
        if k == "carrayelem":
            r.arr[1][r.i] = v
            return
        if k == "structelem":
            if not isinstance(v, Struct):
                raise Unsupported("struct element assigned from %s" % type(v).__name__)
            for fld, x in v.f.items():
                if fld not in r.cont.sub:
                    raise Unsupported("struct element has no field " + fld)
                sub = r.cont.sub[fld]
                if isinstance(x, (Struct, Container)):
                    raise Unsupported("nested aggregate stored into a struct element")
                sub.write(tuple(r.key), x)
                self.record(sub.name, tuple(sp.sympify(k_) for k_ in r.key), "=", x, node)
            return
        if k == "scalrange":
            if isinstance(v, BlockVec) and v.r == 1:
                v = v.rows[0]
            if isinstance(v, Vec):
                val = sp.Function("comp")(S(repr(norm_atoms(v))), RSYM)
                if self.dim() and not is_zero(r.count - self.dim()):
                    raise Unsupported("vector stored into %s scalar slots" % r.count)
            elif isinstance(v, sp.Basic):
                val = sp.Function("elem")(v, RSYM)
            else:
                raise Unsupported("scalar range assigned from %s" % type(v).__name__)
            key = (sp.expand(r.start + RSYM),)
            r.cont.write(key, val)
            self.range_count = r.count
            try:
                self.record(r.cont.name, key, accumulate or "=", val, node)
            finally:
                self.range_count = None
            self.effects_ranges.append((r.cont.name, r.start, r.count, v, node.get("line") if isinstance(node, dict) else None))
            return
        if k == "elem":
            r.cont.write(tuple(r.key), sp.sympify(v))
            self.record(r.cont.name, tuple(sp.sympify(x) for x in r.key), accumulate or "=", sp.sympify(v), node, delta)
            return
        if k == "smallelem":
            r.mat.e[r.i][r.j] = sp.sympify(v)
            return
        if k == "blockrow":
            if isinstance(v, BlockVec) and v.r == 1:
                v = v.rows[0]
            r.block.rows[r.i] = v
            return
        if k == "comp":
            # C_out(r, j) = <component expression>  inside a uniform component loop
            cv = self.as_comp(v)
            if cv.quad or not is_zero(cv.const):
                raise Unsupported("non-linear component stored into a vector")
            self.assign(r.target, cv.lin, node, accumulate)
            return
        raise Unsupported("assignment to ref kind " + k)

    # -- statements ------------------------------------------------------------------
    def exec(self, s, env):
        if s is None:
            return
        k = s.get("k")
        m = getattr(self, "s_" + k, None)
        if m is None:
            raise Unsupported("statement kind %s (line %s)" % (k, s.get("line")))
        m(s, env)

    def s_block(self, s, env):
        for x in s["body"]:
            self.exec(x, env)

    def s_null(self, s, env):
        pass

    def s_expr(self, s, env):
        self.evl(s["e"], env)

    def s_decl(self, s, env):
        ty = s["ty"]
        init = s.get("init")
        self.decl_depth[s["id"]] = len(self.loop_stack)
        if init is None:
            n_ = str(ty.get("n", ""))
            if n_.endswith("]") and "[" in n_ and n_[n_.rindex("[") + 1:-1].isdigit():
                env[s["id"]] = ("carray", [None] * int(n_[n_.rindex("[") + 1:-1]))
                return
            env[s["id"]] = self.make_value(s["name"], ty, symbolic=False)
            return
        if s.get("bind") == "alias" and ty.get("c") == "record" and ty.get("n") in self.alias_records:
            # a reference to an object of a record the analysis stands in for (e.g. "the workspace in use")
            env[s["id"]] = self.alias_records[ty["n"]]
            return
        if ty.get("c") == "ptr" and (ty.get("pointee") or {}).get("c") == "record" and (ty.get("pointee") or {}).get("n") in self.alias_records:
            # a pointer to such an object: it points at the stand-in
            env[s["id"]] = ("ptr", self.alias_records[ty["pointee"]["n"]])
            return
        if s.get("bind") == "alias" or (ty.get("c") == "eigen" and ty.get("tmpl") in ("Block", "VectorBlock", "Transpose", "Ref", "Map")):
            r = self.evl(init, env)
            env[s["id"]] = r
            return
        if ty.get("c") == "lambda":
            env[s["id"]] = self.evl(init, env)
            return
        v = self.ev(init, env)
        if isinstance(v, tuple) and v and v[0] in ("lambda", "iter"):
            env[s["id"]] = v
            return
        v = self.copyval(v)
        if isinstance(v, Container):
            v.name = s["name"]
        env[s["id"]] = v

    def s_return(self, s, env):
        v = self.ev(s["e"], env) if s.get("e") is not None else None
        raise _Return(v)

    def s_continue(self, s, env):
        raise _Continue()

    def s_if(self, s, env):
        if s.get("constexpr") and s.get("taken"):
            self.exec(s["then"] if s["taken"] == "then" else s.get("else"), env)
            return
        c = self.ev(s["cond"], env)
        dec = None
        if c == sp.true:
            dec = True
        elif c == sp.false:
            dec = False
        elif self.branch_oracle:
            dec = self.branch_oracle(s, c, self)
        self.last_iter_kind = None
        if dec is None and self.case is not None:
            dec = self.case_decide(c)
        if dec is None and getattr(self, "path_oracle", None) is not None:
            dec = self.path_oracle(s, c, self)
        if dec is True:
            self.exec(s["then"], env)
            return
        if dec is False:
            self.exec(s.get("else"), env)
            return
        # undecided: allowed only when a branch is a bare continue/return-before-effects (guard)
        th = s["then"]
        body = th["body"] if th.get("k") == "block" else [th]
        if len(body) == 1 and body[0].get("k") == "continue" and s.get("else") is None:
            self.guards.append((pp(s["cond"]), False))
            if self.loop_stack:
                self.loop_stack[-1]["summary"].locals.setdefault("_skip_guards", []).append((pp(s["cond"]), c))
            return
        if len(body) == 1 and body[0].get("k") == "return" and s.get("else") is None:
            rv = body[0].get("e")
            ge = Effect("<return>", (), "guard-return", self.ev(rv, env) if rv is not None else None, [(pp(s["cond"]), True)], s.get("line"))
            ge.cond = c       # the condition as interpreted (sizes of member buffers appear as <member>.rows / .size symbols)
            self.effects.append(ge)
            self.guards.append((pp(s["cond"]), False))
            return
        ex_ = Unsupported("undecided branch %s (line %s)" % (pp(s["cond"])[:80], s.get("line")))
        ex_.cond = c          # the condition as the interpreter sees it (aliases resolved to the members they denote)
        raise ex_

    # -- case analysis of index / size guards ---------------------------------------
    def _generic(self, e):
        """Truth value of a boolean over integer size symbols when every size is 'large'."""
        BIG = 1000
        e = sp.sympify(e)
        if e in (sp.true, sp.false):
            return e
        loopvars = {fr["var"] for fr in self.loop_stack}
        sizes = [x for x in e.free_symbols if x.is_integer and x not in loopvars]
        rep = {x: sp.Symbol("G_" + x.name, integer=True, nonnegative=True) + BIG for x in sizes}
        r = e.xreplace(rep)
        try:
            r = sp.simplify(r)
        except Exception:
            pass
        return r

    def case_decide(self, c):
        if c.has(sp.Indexed) or any(not x.is_integer for x in c.free_symbols):
            return None          # a test on data values, not an index / size guard
        loopvars = [fr for fr in self.loop_stack if fr["var"] in c.free_symbols and not fr.get("comp_var")]
        if not loopvars:
            size_case = self.case.get("size")
            if size_case is not None:
                r = size_case(c)
                if r in (True, False):
                    self.case_log.append(("size", str(c), r))
                    return r
            if getattr(self, "no_generic_sizes", False):
                return None      # a concrete small size is being replayed: what it does not decide stays an open question
            r = self._generic(c)
            if r == sp.true:
                self.case_log.append(("size-generic", str(c), True))
                return True
            if r == sp.false:
                self.case_log.append(("size-generic", str(c), False))
                return False
            return None
        fr = loopvars[-1]
        v = fr["var"]
        L = fr["summary"]
        if L.hi is None:
            return None
        step = L.step
        first = L.lo
        if L.cond_op == "<":
            last = L.hi - 1
        elif L.cond_op == "<=":
            last = L.hi
        elif L.cond_op == ">=":
            last = L.hi
        elif L.cond_op == ">":
            last = L.hi + 1
        else:
            return None
        def at(val):
            return self._generic(c.subs(v, val))
        tf, ts, tl, tp = at(first), at(first + step), at(last), at(last - step)
        pat = (tf, ts, tp, tl)
        T, Fa = sp.true, sp.false
        kind = None
        if pat == (T, Fa, Fa, Fa):
            r = self.case["first"]
            kind = "first"
        elif pat == (Fa, T, T, T):
            r = not self.case["first"]
            kind = "notfirst"
        elif pat == (Fa, Fa, Fa, T):
            r = self.case["last"]
            kind = "last"
        elif pat == (T, T, T, Fa):
            r = not self.case["last"]
            kind = "notlast"
        elif pat == (T, T, T, T):
            r = True
        elif pat == (Fa, Fa, Fa, Fa):
            r = False
        else:
            return None
        self.case_log.append(("iter", str(c), r))
        self.last_iter_kind = (kind, r, v)
        return r

    def loop_header(self, s, env):
        init, cond, inc = s.get("init"), s.get("cond"), s.get("inc")
        if not (init and init.get("k") == "decl" and init.get("init") is not None):
            raise Unsupported("loop without index declaration (line %s)" % s.get("line"))
        step = None
        if inc and inc.get("k") == "un" and inc["op"] in ("++", "--") and inc["e"].get("k") == "var" and inc["e"]["id"] == init["id"]:
            step = 1 if inc["op"] == "++" else -1
        if step is None:
            raise Unsupported("loop step (line %s)" % s.get("line"))
        return init, cond, step

    def s_for(self, s, env):
        init, cond, step = self.loop_header(s, env)
        lo = self.ev(init["init"], env)
        name = init["name"]
        # a loop with a small constant trip count whose body subscripts a built-in array (a table of pointers / flags)
        # is run iteration by iteration: the table has no symbolic element
        if (isinstance(lo, sp.Basic) and sp.sympify(lo).is_Integer and cond and cond.get("k") == "bin" and cond["op"] in ("<", "<=") and step == 1
                and any(n_.get("k") == "subscript" for n_ in walk(s["body"]))):
            try:
                hi_ = sp.sympify(self.ev(cond["r"], env))
            except Unsupported:
                hi_ = None
            if hi_ is not None and hi_.is_Integer and cond["l"].get("k") == "var" and cond["l"].get("id") == init["id"]:
                last = int(hi_) - (1 if cond["op"] == "<" else 0)
                if last - int(lo) < 32:
                    for k_ in range(int(lo), last + 1):
                        env[init["id"]] = Integer(k_)
                        try:
                            self.exec(s["body"], env)
                        except _Continue:
                            pass
                    return
        # component loop?  for (int j = 0; j < DIM; ++j)
        is_comp = False
        c = cond
        if c and c.get("k") == "bin" and c["op"] == "<" and c["r"].get("nttp") == "DIM" and lo == 0 and step == 1:
            is_comp = True
        sym = S(name if not self.loop_stack or is_comp else name + "_%d" % len(self.loop_stack), integer=True, nonnegative=True)
        summ = LoopSummary(sym, lo, cond, step, s.get("line"))
        summ.pos = self.tick()       # position in the global order of effects, loops and notes
        env2 = env  # C++ scoping is irrelevant for single assignment ids
        env2[init["id"]] = sym
        frame = {"summary": summ, "comp_var": sym if is_comp else None, "var": sym}
        hi = None
        cop = cond["op"] if cond and cond.get("k") == "bin" else None
        if cond and cond.get("k") == "bin" and cond["op"] in ("<", "<=", ">", ">="):
            try:
                hi = self.ev(cond["r"], env)
                lhs = self.ev(cond["l"], env)
                # any condition linear in the loop variable:  a*i + b  op  0  with a = +-1   ->   i  op'  bound
                if isinstance(lhs, sp.Expr) and isinstance(hi, sp.Expr) and not (lhs == sym and sym not in hi.free_symbols):
                    d = sp.expand(lhs - hi)
                    a = d.coeff(sym, 1)
                    rest = sp.expand(d - a * sym)
                    if a in (1, -1) and sym not in rest.free_symbols:
                        hi = sp.expand(-rest / a)
                        if a == -1:
                            cop = {"<": ">", "<=": ">=", ">": "<", ">=": "<="}[cop]
                    else:
                        hi = None
            except Unsupported:
                hi = None
        summ.hi = hi
        summ.cond_op = cop
        if hi is not None and summ.cond_op in ("<", "<=", ">", ">="):
            try:
                c0 = self.compare(summ.cond_op, lo, hi)
            except Exception:
                c0 = None
            if c0 == sp.false:
                return  # empty range: no iteration at all
            if self.case is not None and self.case.get("size") is not None and c0 not in (sp.true, sp.false):
                r0 = self.case["size"](c0)
                if r0 is False:
                    return
        summ.is_comp = is_comp
        summ.name = name
        if is_comp:
            self.exec_comp_loop(s, env2, frame)
            return
        # straight-line writes made before the loop cannot be matched against a symbolic index:
        # inside the body every container read means "value at iteration start"
        for cont in self.all_containers(env):
            if cont.store:
                cont.history.append((cont.gen, list(cont.store)))
                cont.bump()
        # loop-carried scalars / vectors: inside the body they denote "value at iteration start"
        declared_inside = {n["id"] for n in walk(s["body"]) if n.get("k") == "decl"}
        # the statements executed by the body: its own, and those of the local callables it calls (a by-reference capture
        # assigned inside such a callable is carried by this loop just as if the assignment stood in the body)
        body_nodes = list(walk(s["body"]))
        seen_l = set()
        k_ = 0
        while k_ < len(body_nodes):
            n_ = body_nodes[k_]
            k_ += 1
            if n_.get("k") == "call" and callee(n_).get("fid") in self.F.lambda_by_fid and callee(n_).get("fid") not in seen_l:
                seen_l.add(callee(n_)["fid"])
                lam_, spec_, _f = self.F.lambda_by_fid[callee(n_)["fid"]]
                inner_ = list(walk(spec_.get("body")))
                declared_inside |= {x_["id"] for x_ in inner_ if x_.get("k") == "decl"} | {p_["id"] for p_ in spec_.get("params", [])}
                body_nodes.extend(inner_)
        for n in body_nodes:
            tgt = None
            if n.get("k") == "assign":
                tgt = n["l"]
            elif n.get("k") == "un" and n["op"] in ("++", "--"):
                tgt = n["e"]
            elif n.get("k") == "call" and callee(n).get("op") in ("=", "+=", "-=", "*=", "/=") and "obj" in n:
                tgt = n["obj"]
            if isinstance(tgt, dict) and tgt.get("k") == "var" and tgt["id"] in env2 and tgt["id"] not in declared_inside and tgt["id"] != init["id"]:
                cur = env2[tgt["id"]]
                if tgt["name"] in summ.carried:
                    continue
                if isinstance(cur, sp.Expr):
                    symc = S("$" + tgt["name"], real=True)
                    summ.carried[tgt["name"]] = (symc, cur)
                    env2[tgt["id"]] = symc
                elif isinstance(cur, Vec):
                    symc = Vec.atom(("$" + tgt["name"],))
                    summ.carried[tgt["name"]] = (symc, cur)
                    env2[tgt["id"]] = symc
        self.loop_stack.append(frame)
        saved_guards = list(self.guards)
        saved_iter = self.iter_guards
        self.iter_guards = []
        tnode = None
        if self.tracing:
            tnode = {"type": "loop", "line": s.get("line"), "var": sym, "lo": lo, "hi": hi, "op": summ.cond_op, "step": step, "items": []}
            self.trace_stack[-1].append(tnode)
            self.trace_stack.append(tnode["items"])
        try:
            try:
                self.exec(s["body"], env2)
            except _Continue:
                pass
        finally:
            self.loop_stack.pop()
            self.guards = saved_guards
            self.iter_guards = saved_iter
            if tnode is not None:
                self.trace_stack.pop()
        if self.loop_stack:
            self.loop_stack[-1]["summary"].inner.append(summ)
        else:
            self.loops.append(summ)
        # containers written in the loop are havoced for subsequent code (dependencies between
        # loops are re-established by the rules through templates, not by unrolling)
        pushed = set()
        for eff in summ.effects:
            self.havoc_after_loop(eff, env, summ)
            if eff.op == "push_back" and eff.target not in pushed and hi is not None and summ.cond_op == "<" and step == 1:
                pushed.add(eff.target)
                cont = self.find_container(eff.target, env)
                if cont is not None:
                    cont.size = sp.expand(cont.size + (hi - lo)) if cont.size is not None else None
        # scalar locals assigned in the loop body are loop-carried: not supported unless accumulators
        return

    def havoc_after_loop(self, eff, env, summ=None):
        cont = self.find_container(eff.target, env)
        if cont is not None and cont.store:
            cont.bump()
            if summ is not None:
                summ.post_gen[eff.target] = cont.gen

    def local_defs(self):
        """Pointwise definitions made by pure map loops: tag 'name#gen' -> (loop var, value, lo, hi)."""
        out = {}
        for L in self.loops:
            for name, gen in L.post_gen.items():
                effs = [e for e in L.effects if e.target == name]
                if len(effs) == 1 and effs[0].op == "=" and len(effs[0].key) == 1 and effs[0].key[0] == L.var and not effs[0].guards:
                    out["%s#%d" % (name, gen)] = (L.var, effs[0].value, L.lo, L.hi)
        return out

    def expand_local(self, v, defs=None):
        defs = defs if defs is not None else self.local_defs()
        if isinstance(v, Vec):
            out = Vec()
            for a, c in v.t.items():
                if a[0] in defs and len(a) == 2:
                    var, val, lo, hi = defs[a[0]]
                    if isinstance(val, Vec):
                        sub = Vec({tuple(x.subs(var, a[1]) if hasattr(x, "subs") else x for x in b): (cb.subs(var, a[1]) if hasattr(cb, "subs") else cb)
                                   for b, cb in val.t.items()})
                        out = out.add(self.expand_local(sub, defs).scale(c))
                        continue
                out = out.add(Vec({a: c}))
            return out
        return v

    def all_containers(self, env):
        out = []
        seen = set()

        def add(v):
            if isinstance(v, Container) and id(v) not in seen:
                seen.add(id(v))
                out.append(v)
                for c in v.sub.values():
                    add(c)
            elif isinstance(v, Struct):
                for x in v.f.values():
                    add(x)
            elif isinstance(v, Ref) and hasattr(v, "cont"):
                add(v.cont)
            elif isinstance(v, Ref) and v.kind == "var" and id(v) not in seen:
                seen.add(id(v))
                add(v.env.get(v.id))        # a reference parameter bound to a variable of the caller
            elif isinstance(v, Ref) and v.kind == "field" and id(v) not in seen:
                seen.add(id(v))
                add(v.struct.f.get(v.name) if hasattr(v.struct, "f") else None)

        for v in list(self.heap.values()) + list(env.values()):
            add(v)
        return out

    def find_container(self, name, env):
        v = self.heap.get(name)
        if isinstance(v, Container):
            return v
        for x in env.values():
            if isinstance(x, Container) and x.name == name:
                return x
        for x in self.all_containers(env):
            if x.name == name:
                return x
        return None

    def exec_comp_loop(self, s, env, frame):
        """Uniform loop over the coordinates: scalar accumulators receive sums of products of
        components (-> bilinear atoms), vector stores receive linear component expressions."""
        # accumulators: scalar variables declared outside and updated with += inside
        self.loop_stack.append(frame)
        before = {k: v for k, v in env.items()}
        try:
            self.exec(s["body"], env)
        finally:
            self.loop_stack.pop()
        for vid, old in before.items():
            new = env.get(vid)
            if new is old:
                continue
            if isinstance(new, Comp):
                # acc = old + sum_j (comp expression)
                if not isinstance(old, sp.Basic):
                    raise Unsupported("component accumulator of non-scalar type")
                delta = self.arith("-", new, Comp(const=old))
                if not is_zero(delta.const) or delta.lin.t:
                    raise Unsupported("component loop accumulates a non-quadratic term")
                tot = old
                for (a, b), cf in delta.quad.items():
                    tot += cf * dot_symbol(a, b)
                env[vid] = tot
            elif isinstance(new, sp.Basic) and isinstance(old, sp.Basic) and new != old:
                raise Unsupported("scalar modified inside a component loop without component data")

    def s_rfor(self, s, env):
        """for (auto& x : container): summarised like an index loop over the element index e in [0, size)."""
        rng = self.evl(s["range"], env)
        cont = self.load(rng) if isinstance(rng, Ref) and rng.kind in ("var", "field") else rng
        if not isinstance(cont, Container) or cont.kind not in ("struct", "scal"):
            raise Unsupported("range-for over %s (line %s)" % (type(cont).__name__, s.get("line")))
        var = s["var"]
        name = "e_" + var.get("name", "elem")
        sym_ = S(name if not self.loop_stack else name + "_%d" % len(self.loop_stack), integer=True, nonnegative=True)
        hi = cont.size if cont.size is not None else S(cont.name + ".size", integer=True, nonnegative=True)
        summ = LoopSummary(sym_, Integer(0), None, 1, s.get("line"))
        summ.pos = self.tick()
        summ.hi, summ.cond_op, summ.is_comp, summ.name, summ.over = hi, "<", False, name, cont.name
        frame = {"summary": summ, "comp_var": None, "var": sym_}
        for c_ in self.all_containers(env):
            if c_.store:
                c_.history.append((c_.gen, list(c_.store)))
                c_.bump()
        env[var["id"]] = Ref("structelem", cont=cont, key=(sym_,)) if cont.kind == "struct" else Ref("elem", cont=cont, key=(sym_,))
        self.decl_depth[var["id"]] = len(self.loop_stack) + 1
        self.loop_stack.append(frame)
        saved_guards = list(self.guards)
        saved_iter = self.iter_guards
        self.iter_guards = []
        tnode = None
        if self.tracing:
            tnode = {"type": "loop", "line": s.get("line"), "var": sym_, "lo": Integer(0), "hi": hi, "op": "<", "step": 1, "items": []}
            self.trace_stack[-1].append(tnode)
            self.trace_stack.append(tnode["items"])
        try:
            try:
                self.exec(s["body"], env)
            except _Continue:
                pass
        finally:
            self.loop_stack.pop()
            self.guards = saved_guards
            self.iter_guards = saved_iter
            if tnode is not None:
                self.trace_stack.pop()
        if self.loop_stack:
            self.loop_stack[-1]["summary"].inner.append(summ)
        else:
            self.loops.append(summ)
        for eff in summ.effects:
            self.havoc_after_loop(eff, env, summ)


class _HeapStruct:
    def __init__(self, interp):
        self.f = interp.heap


class _Return(Exception):
    def __init__(self, value):
        self.value = value


class _Continue(Exception):
    pass


# ---------------------------------------------------------------------------
# convenience


def simp(e):
    return sp.cancel(sp.together(sp.expand(sp.sympify(e))))


def collect_dots(e):
    """{(atomA, atomB): coeff} of a scalar that is a quadratic form in dot symbols (+ remainder)."""
    e = sp.expand(sp.sympify(e))
    out = {}
    rest = Integer(0)
    for term in sp.Add.make_args(e):
        ds = [s for s in term.free_symbols if s in _DOTS]
        if len(ds) == 1 and sp.degree(term, ds[0]) == 1:
            out[_DOTS[ds[0]]] = out.get(_DOTS[ds[0]], 0) + term / ds[0]
        elif not ds:
            rest += term
        else:
            raise Unsupported("term with several bilinear atoms: %s" % term)
    return out, rest


def dots_in(e):
    return {s: _DOTS[s] for s in sp.sympify(e).free_symbols if s in _DOTS}
