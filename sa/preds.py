"""Predicate normalisation for comparison-shaped rules (DESIGN s3.3).

canon(e, scope)    -> canonical string of a side-effect-free expression (casts dropped, single-assignment
                      locals replaced by their initialisers, parameters named by position)
atoms / refine     -> path conditions as sets of signed atoms with NaN-aware negation and
                      contradiction elimination
"""
from .facts import Broken, pp
from .effects import callee

FLIP = {"<": ">", ">": "<", "<=": ">=", ">=": "<=", "==": "==", "!=": "!="}
NEG_INT = {"<": ">=", ">": "<=", "<=": ">", ">=": "<", "==": "!=", "!=": "=="}


class Scope:
    """Per-function naming scope: parameters by position, single-assignment locals by initialiser."""

    def __init__(self, f=None, params=None):
        self.param = {}
        self.local_init = {}
        self.opaque = {}
        ps = params if params is not None else (f["params"] if f else [])
        for i, p in enumerate(ps):
            self.param[p["id"]] = "$p%d" % i

    def bind_local(self, decl):
        if decl.get("init") is not None:
            self.local_init[decl["id"]] = decl["init"]

    def bind_opaque(self, var_id, name):
        self.opaque[var_id] = name


def _num(v):
    try:
        if any(c in v for c in ".eE") and not v.startswith("0x"):
            f = float(v)
            if f == int(f) and abs(f) < 1e15:
                return str(int(f))
            return repr(f)
        return str(int(v))
    except Exception:
        return str(v)


def cbin(op, a, b):
    """Canonical text of a binary arithmetic expression over canonical operand texts."""
    if op in ("+", "*") and b < a:
        a, b = b, a
    if op == "+":
        # (X + j) + k  ->  X + (j + k): index arithmetic written in steps (idx + 1 + 1) or at once (idx + 2)
        import re
        for x, y in ((a, b), (b, a)):
            m = re.match(r"^\((.*) \+ (\d+)\)$", x)
            if m and y.isdigit() and m.group(1).count("(") == m.group(1).count(")"):
                return "(" + m.group(1) + " + " + str(int(m.group(2)) + int(y)) + ")"
    return "(" + a + " " + op + " " + b + ")"


def strip(e):
    while isinstance(e, dict):
        k = e.get("k")
        if k in ("cast", "defaultarg"):
            e = e["e"]
        elif k == "ctor" and len(e.get("args", [])) == 1 and (e.get("copy") or callee(e).get("ns") in ("Eigen", "std")):
            e = e["args"][0]
        elif k == "call" and callee(e).get("ns") == "std" and callee(e).get("name") in ("move", "forward") and e.get("args"):
            e = e["args"][0]
        else:
            break
    return e


def canon(e, sc, depth=0):
    e = strip(e)
    if e is None:
        return "?"
    if depth > 40:
        raise Broken("canon: expression too deep")
    k = e.get("k")
    if k == "lit":
        if e.get("lt") in ("int", "double", "enum", "valueinit"):
            return _num(e["v"])
        return str(e["v"])
    if k == "static":
        return _num(e["v"]) if "v" in e else "static:" + e.get("name", "?")
    if k == "this":
        return "this"
    if k == "var":
        if e["id"] in sc.opaque:
            return sc.opaque[e["id"]]
        if e["id"] in sc.param:
            return sc.param[e["id"]]
        if e["id"] in sc.local_init:
            return canon(sc.local_init[e["id"]], sc, depth + 1)
        return "%" + e["name"]
    if k == "mem":
        return canon(e["base"], sc, depth + 1) + "." + e["field"]
    if k == "un":
        if e["op"] in ("*", "&", "!", "-", "+", "~"):
            return "(" + e["op"] + canon(e["e"], sc, depth + 1) + ")"
        return "(" + e["op"] + canon(e["e"], sc, depth + 1) + ")"
    if k == "bin":
        a, b = canon(e["l"], sc, depth + 1), canon(e["r"], sc, depth + 1)
        op = e["op"]
        if op in ("+", "*") and (e.get("t") or {}).get("c") != "ptr" and not any(((x_.get("t") or {}).get("c") == "ptr") for x_ in (e["l"], e["r"]) if isinstance(x_, dict)):
            return cbin(op, a, b)
        return "(" + a + " " + op + " " + b + ")"
    if k == "subscript":
        return canon(e["base"], sc, depth + 1) + "[" + canon(e["idx"], sc, depth + 1) + "]"
    if k == "assign":
        return "(" + canon(e["l"], sc, depth + 1) + " " + e["op"] + " " + canon(e["r"], sc, depth + 1) + ")"
    if k == "cond":
        return "(" + canon(e["c"], sc, depth + 1) + " ? " + canon(e["a"], sc, depth + 1) + " : " + canon(e["b"], sc, depth + 1) + ")"
    if k in ("call", "conv"):
        c = callee(e)
        nm = c.get("name")
        op = c.get("op")
        args = [canon(a, sc, depth + 1) for a in e.get("args", []) if not (isinstance(a, dict) and a.get("k") == "defaultarg")]
        if k == "conv":
            return canon(e["obj"], sc, depth + 1)
        if "obj" in e:
            o = canon(e["obj"], sc, depth + 1)
            if op in ("[]", "()"):
                return o + "[" + ",".join(args) + "]"
            if op in ("*", "->") and not args:
                return "(*" + o + ")"
            if op:
                return "(" + o + " " + op + " " + ",".join(args) + ")"
            if nm in ("array", "matrix", "derived", "eval", "transpose") and not args and nm != "transpose":
                return o
            return o + "." + nm + "(" + ",".join(args) + ")"
        if op and len(args) == 2:
            return "(" + args[0] + " " + op + " " + args[1] + ")"
        if op and len(args) == 1:
            return "(" + op + args[0] + ")"
        return nm + "(" + ",".join(args) + ")"
    if k == "ctor":
        args = [canon(a, sc, depth + 1) for a in e.get("args", [])]
        return callee(e).get("name", "ctor") + "{" + ",".join(args) + "}"
    if k == "initlist":
        return "{" + ",".join(canon(a, sc, depth + 1) for a in e["elems"]) + "}"
    raise Broken("canon: unsupported expression kind %s: %s" % (k, pp(e)[:80]))


# ---------------------------------------------------------------------------
# atoms: (positive: bool, text).  Comparisons are oriented (< and <= only, == / != sorted).


def _is_float(e):
    t = e.get("lt") or {}
    return t.get("c") == "double"


def cmp_atom(op, a, b, floating):
    """Canonical (polarity, text) of `a op b`."""
    if op in (">", ">="):
        op, a, b = FLIP[op], b, a
    if op in ("==", "!="):
        if b < a:
            a, b = b, a
        return (op == "==", "%s == %s" % (a, b))
    # op in < , <=
    if not floating:
        # integers: a <= b  ==  not (b < a)
        if op == "<=":
            return (False, "%s < %s" % (b, a))
        return (True, "%s < %s" % (a, b))
    return (True, "%s %s %s" % (a, op, b))


def literal(cond, sc):
    """Atom of a non-compound condition: returns (polarity, text)."""
    c = strip(cond)
    k = c.get("k")
    if k == "un" and c["op"] == "!":
        p, t = literal(c["e"], sc)
        return (not p, t)
    if k == "bin" and c["op"] in FLIP:
        return cmp_atom(c["op"], canon(c["l"], sc), canon(c["r"], sc), _is_float(c))
    if k == "call" and callee(c).get("op") in FLIP and len(c.get("args", [])) + (1 if "obj" in c else 0) == 2:
        ops = ([c["obj"]] if "obj" in c else []) + c["args"]
        return cmp_atom(callee(c)["op"], canon(ops[0], sc), canon(ops[1], sc), False)
    if k == "lit" and c.get("v") in ("true", "false"):
        return (c["v"] == "true", "true")
    return (True, canon(c, sc))


def is_compound(cond):
    c = strip(cond)
    return c.get("k") == "bin" and c["op"] in ("&&", "||")


def refine(atoms, cond, pol, sc):
    """atoms: frozenset of (polarity, text).  Returns list of refined atom sets (DNF expansion)."""
    c = strip(cond)
    if c.get("k") == "un" and c["op"] == "!" and is_compound(c["e"]):
        return refine(atoms, c["e"], not pol, sc)
    if c.get("k") == "bin" and c["op"] in ("&&", "||"):
        conj = (c["op"] == "&&") == pol  # (a&&b true) or (a||b false) -> both operands forced
        if conj:
            out = []
            for s1 in refine(atoms, c["l"], pol, sc):
                out.extend(refine(s1, c["r"], pol, sc))
            return out
        out = list(refine(atoms, c["l"], pol, sc))
        for s1 in refine(atoms, c["l"], not pol, sc):
            out.extend(refine(s1, c["r"], pol, sc))
        return out
    p, t = literal(c, sc)
    if t == "true":
        return [atoms] if (p == pol) else []
    a = (p == pol, t)
    na = (not a[0], t)
    if na in atoms:
        return []
    return [frozenset(atoms | {a})]


def absorb(dnf):
    """Simplify a DNF given as iterable of frozensets of signed atoms:
    if {A} is a disjunct, drop (not A) from the other disjuncts; drop duplicates / supersets."""
    ds = [frozenset(d) for d in dnf]
    changed = True
    while changed:
        changed = False
        singles = [next(iter(d)) for d in ds if len(d) == 1]
        new = []
        for d in ds:
            d2 = d
            if len(d) > 1:
                for (p, t) in singles:
                    if (not p, t) in d2:
                        d2 = d2 - {(not p, t)}
                        changed = True
            new.append(d2)
        ds = new
        # remove supersets
        uniq = []
        for d in sorted(set(ds), key=len):
            if not any(u <= d for u in uniq):
                uniq.append(d)
        if len(uniq) != len(ds):
            changed = True
        ds = uniq
    return set(ds)


def fmt(dnf):
    return " | ".join(sorted("[" + " & ".join(sorted(("" if p else "not ") + t for p, t in d)) + "]" for d in dnf))
