"""Summaries of the block-tridiagonal knot-derivative solver (quintic, septic) per iteration kind.

Roles are discovered, not named: the pivot block is the argument of the closed-form inverse,
the storage map of the block caches is read off the stored inverse, the upper block is the cache
read by the back-substitution, the lower block the remaining stored literal.
"""
import sympy as sp
from sympy import Integer

from .facts import Broken, walk, pp
from .effects import callee
from . import sym, history
from .sym import Interp, Vec, SmallMat, BlockVec, Container, Unsupported
from .props.common import strip_copy

CASES = {"middle": {"first": False, "last": False}, "first": {"first": True, "last": False},
         "last": {"first": False, "last": True}, "single": {"first": True, "last": True}}


def find_solver(F, M):
    for c, g in F.callees(M.solve_fn):
        if g.get("cls") == M.cls and len(g["params"]) >= M.s:
            return c, g
    raise Broken("knot-derivative solver not found in " + M.cls)


def mat_eq(A, B):
    if A.r != B.r or A.c != B.c:
        return False
    return all(sym.is_zero(sp.sympify(A.e[i][j]) - sp.sympify(B.e[i][j])) for i in range(A.r) for j in range(A.c))


class BlockRun:
    """One interpretation of the solver for one iteration kind."""

    def __init__(self, F, M, kind):
        self.F, self.M, self.kind = F, M, kind
        call, g = find_solver(F, M)
        self.fn = g
        args = [strip_copy(a) for a in call["args"]]
        self.outs = [a["field"] for a in args[1:]]
        I = Interp(F, M.cls)
        I.case = dict(CASES[kind])
        I.log_calls = True
        I.field_assumptions[M.m_count] = {"positive": True}
        if history.active():
            I.path_oracle = history.oracle
        env = {}
        for p, a in zip(g["params"], args):
            env[p["id"]] = I.field(M.cls, a["field"])
        I.run_body(g, env)
        self.I = I
        self.b = M.s - 1           # block size
        b = self.b
        # loops
        grids = lambda L: {e.target for e in L.effects if len(e.key) == 2}
        self.Lasm = next((L for L in I.loops if grids(L)), None)
        if self.Lasm is None:
            raise Broken("assembly/elimination loop not found")
        self.i = self.Lasm.var
        self.nb = self.Lasm.hi
        rest = [L for L in I.loops if L is not self.Lasm]
        self.Lback = next((L for L in rest if L.step == -1), None)
        self.Lwb = next((L for L in rest if any(e.target in self.outs for e in L.effects)), None)
        # the inverse call: static function with two small-matrix parameters called inside the assembly loop
        inv = [c for c in I.calls if c["loop"] is self.Lasm and len(c["args"]) == 2 and all(isinstance(a, SmallMat) for a in c["args"])
               and c["args"][0].r == b and c["args"][0].c == b]
        if len(inv) != 1:
            raise Broken("closed-form inverse call not unique in the assembly loop (%d)" % len(inv))
        self.inv_call = inv[0]
        self.inv_in = inv[0]["args"][0]
        self.inv_out = inv[0]["after"][1]
        # storage map from the stored inverse
        grid_effs = {}
        for e in self.Lasm.effects:
            if len(e.key) == 2 and e.op == "=":
                grid_effs.setdefault(e.target, []).append(e)
        self.dinv_cache = None
        self.sigma = None
        for name, effs in grid_effs.items():
            sig = {}
            for e in effs:
                if not sym.is_zero(e.key[0] - self.i):
                    continue
                for r in range(b):
                    for c in range(b):
                        if (r, c) not in sig and sp.sympify(e.value) == self.inv_out.e[r][c]:
                            sig[(r, c)] = e.key[1]
                            break
                    else:
                        continue
                    break
            if len(sig) == b * b and len(set(sig.values())) == b * b:
                self.dinv_cache, self.sigma = name, sig
        if self.dinv_cache is None:
            raise Broken("cache holding the inverted pivot not identified")
        # block literals (comma initialisers) inside the assembly loop
        snaps = [s_ for s_ in I.snapshots if s_["loop"] is self.Lasm and s_["value"].r == b and s_["value"].c == b]
        self.snaps = snaps
        # D0: snapshot of the variable later handed to the inverse
        inv_env = self.inv_call["env"]
        # the first parameter of the inverse is bound to the caller's variable: find the snapshot whose final value chain matches
        self.D0 = None
        stored = {}
        for s_ in snaps:
            # which cache stores this literal (same storage map)?
            for name, effs in grid_effs.items():
                if name == self.dinv_cache:
                    continue
                ok = True
                for (r, c), col in self.sigma.items():
                    m = [e for e in effs if sym.is_zero(e.key[0] - self.i) and sym.is_zero(e.key[1] - col)]
                    if not m or not (sp.sympify(m[-1].value) == s_["value"].e[r][c]):
                        ok = False
                        break
                if ok:
                    stored[name] = s_
        unstored = [s_ for s_ in snaps if not any(s_ is v for v in stored.values())]
        if len(unstored) != 1 or len(stored) != 2:
            raise Broken("block literals: expected two stored blocks and one pivot, got stored=%s unstored=%d" % (list(stored), len(unstored)))
        self.D0 = unstored[0]["value"]
        # upper block = the stored cache read by the back-substitution loop
        self.upper_cache = self.lower_cache = None
        if self.Lback is not None:
            reads = set()
            for e in self.Lback.effects:
                if isinstance(e.value, Vec):
                    for c in e.value.t.values():
                        for ix in sp.sympify(c).atoms(sp.Indexed):
                            reads.add(str(ix.base).split("#")[0])
            for name in stored:
                if name in reads:
                    self.upper_cache = name
        if self.upper_cache is None:
            # fall back: the block whose entries use the duration right of the knot (index i+1)
            for name, s_ in stored.items():
                idxs = {ix.indices[0] for ix in sp.Matrix(s_["value"].e).atoms(sp.Indexed)}
                if any(sym.is_zero(x - (self.i + 1)) for x in idxs):
                    self.upper_cache = name
        self.lower_cache = next(n for n in stored if n != self.upper_cache)
        self.U = stored[self.upper_cache]["value"]
        self.L = stored[self.lower_cache]["value"]
        # rhs container: rows container written in the assembly loop
        rows_t = [e.target for e in self.Lasm.effects if len(e.key) == 1 and isinstance(e.value, Vec)]
        if not rows_t:
            raise Broken("right-hand-side storage not found")
        self.rhs_name = rows_t[-1]
        self.rhs_final = {}
        for e in self.Lasm.effects:
            if e.target == self.rhs_name and len(e.key) == 1:
                k = sp.expand(e.key[0] - b * self.i)
                if k.is_Integer:
                    self.rhs_final[int(k)] = e.value
        if set(self.rhs_final) != set(range(b)):
            raise Broken("right-hand-side rows written: %s" % sorted(self.rhs_final))
        # remaining cache: (L_i * Dinv_{i-1})^T for the adjoint
        self.aux_cache = next((n for n in grid_effs if n not in (self.dinv_cache, self.upper_cache, self.lower_cache)), None)
        self.grid_effs = grid_effs

    # -- helpers ----------------------------------------------------------------------
    def cache_mat(self, name, row, gen_tag=None):
        """b x b matrix of symbols for block `row` of cache `name` in the storage convention of the code."""
        b = self.b
        tag = gen_tag or name
        if tag is None:
            raise Broken("block solver model: a factor cache the adjoint reads is not filled by the solver (not identified)")
        base = sp.IndexedBase(tag, real=True)
        return SmallMat(b, b, [[base[row, self.sigma[(r, c)]] for c in range(b)] for r in range(b)])

    def prev_tags(self):
        """generation tags of the caches / rhs as read inside the assembly loop"""
        tags = {}
        for e in self.Lasm.effects:
            vals = []
            if isinstance(e.value, Vec):
                vals = list(e.value.t.values()) + []
                for a in e.value.t:
                    if str(a[0]).split("#")[0] == self.rhs_name:
                        tags[self.rhs_name] = a[0]
            elif isinstance(e.value, sp.Basic):
                vals = [e.value]
            for c in vals:
                for ix in sp.sympify(c).atoms(sp.Indexed):
                    base = str(ix.base)
                    tags[base.split("#")[0]] = base
        return tags
