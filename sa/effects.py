"""Engine E (part 1): access paths, write/read effects, interprocedural write summaries.

Access path = tuple.  ('this', f, g...) for members of the analysed object,
('v', id, name, f...) for locals/params (after resolving reference aliases),
('tmp',) for temporaries.  Element/row/block selection is dropped here (the region
analysis in regions.py keeps it); '*' marks a pointer dereference.
"""
from .facts import Broken, walk, pp

# Eigen members that return a view of (part of) their object: writing to the result
# writes the object; calling them is not itself a write.
EIGEN_VIEWS = {"row", "col", "block", "segment", "middleRows", "topRows", "bottomRows", "head", "tail",
               "transpose", "noalias", "array", "matrix", "leftCols", "rightCols", "middleCols",
               "operator()", "operator[]", "coeffRef", "derived", "const_cast_derived", "eval"}
EIGEN_MUTATORS = {"setZero", "resize", "setConstant", "setOnes", "conservativeResize", "swap", "fill",
                  "setIdentity", "setRandom", "resizeLike", "setLinSpaced"}
EIGEN_PURE = {"rows", "cols", "size", "dot", "squaredNorm", "norm", "sum", "all", "any", "isFinite",
              "cwiseAbs", "maxCoeff", "minCoeff", "data", "allFinite", "hasNaN", "finished", "normalized",
              "cwiseProduct", "isApprox", "mean", "prod", "trace", "innerSize", "outerSize"}
STD_VIEWS = {"operator[]", "at", "front", "back", "begin", "end", "cbegin", "cend", "data", "operator*",
             "operator->", "get"}
STD_MUTATORS = {"clear", "resize", "reserve", "push_back", "emplace_back", "assign", "reset", "insert", "erase",
                "pop_back", "swap", "append", "shrink_to_fit", "release"}
STD_PURE = {"size", "empty", "capacity", "str", "c_str", "length", "operator bool", "count", "find"}
ASSIGN_OPS = {"=", "+=", "-=", "*=", "/=", "<<", ",", "<<=", "|=", "&="}


def callee(n):
    return n.get("callee", {})


class Env:
    """Reference aliases of locals: var id -> list of access paths."""

    def __init__(self, parent=None):
        self.alias = dict(parent.alias) if parent else {}

    def copy(self):
        return Env(self)


def roots(e, env=None):
    """Access paths an lvalue-ish expression may denote ([] = temporary/unknown value)."""
    if e is None:
        return []
    k = e.get("k")
    if k == "this":
        return [("this",)]
    if k == "var":
        if env is not None and e["id"] in env.alias:
            return list(env.alias[e["id"]])
        return [("v", e["id"], e["name"])]
    if k == "mem":
        out = []
        for r in roots(e["base"], env):
            if e.get("arrow") and not (r == ("this",)):
                r = r + ("*",)
            out.append(r + (e["field"],))
        return out
    if k == "un" and e["op"] == "*":
        return [r + ("*",) for r in roots(e["e"], env)]
    if k == "un" and e["op"] == "&":
        return [r + ("&",) for r in roots(e["e"], env)]
    if k == "un" and e["op"] in ("++", "--"):
        return roots(e["e"], env)
    if k == "cond":
        return roots(e["a"], env) + roots(e["b"], env)
    if k == "subscript":
        return roots(e["base"], env)
    if k == "cast":
        return roots(e["e"], env)
    if k == "assign":
        return roots(e["l"], env)
    if k == "defaultarg":
        return roots(e["e"], env)
    if k == "call":
        c = callee(e)
        nm = c.get("name")
        ns = c.get("ns")
        op = c.get("op")
        if "obj" in e:
            if ns == "Eigen" and (nm in EIGEN_VIEWS or op in ("()", "[]")):
                return roots(e["obj"], env)
            if ns == "std" and (nm in STD_VIEWS or op in ("[]", "*", "->")):
                rs = roots(e["obj"], env)
                if nm in ("operator*", "operator->", "get") or op in ("*", "->"):
                    # smart pointer / iterator dereference
                    return [r + ("*",) for r in rs]
                return rs
            if op in ASSIGN_OPS and op not in (",",):
                return roots(e["obj"], env)
            if op == ",":
                return roots(e["obj"], env)
        else:
            if ns == "std" and nm in ("move", "forward", "as_const", "addressof"):
                return roots(e["args"][0], env) if e.get("args") else []
            if ns == "Eigen" and op == "<<":
                return roots(e["args"][0], env) if e.get("args") else []
        return []
    return []


def is_prefix(p, q):
    return len(p) <= len(q) and q[:len(p)] == p


class Effects:
    """Interprocedural write sets over the facts of one TU."""

    def __init__(self, F):
        self.F = F
        self._sum = {}

    # ---- events ------------------------------------------------------------
    def node_writes(self, n, env, follow=True):
        """Access paths written by evaluating node n itself (not its sub-expressions).
        Returns list of (path, how)."""
        k = n.get("k")
        out = []
        if k == "assign":
            for r in roots(n["l"], env):
                out.append((r, "assign"))
        elif k == "un" and n["op"] in ("++", "--"):
            for r in roots(n["e"], env):
                out.append((r, n["op"]))
        elif k in ("call", "ctor"):
            c = callee(n)
            nm, ns, op = c.get("name"), c.get("ns"), c.get("op")
            fid = c.get("fid")
            if fid is not None and fid in self.F.by_fid:
                fol = follow(n) if callable(follow) else follow
                if not fol:
                    fid = None  # the client walks into this callee itself
                    if not ("obj" in n and c.get("op")):
                        return out
            if "obj" in n:
                obj_roots = roots(n["obj"], env)
                if op in ASSIGN_OPS and op != ",":
                    if ns == "Eigen" and op == "<<":
                        pass  # comma initialiser / stream handled below
                    for r in obj_roots:
                        out.append((r, "op" + op))
                elif ns == "Eigen":
                    if nm in EIGEN_MUTATORS:
                        for r in obj_roots:
                            out.append((r, nm))
                    elif nm in EIGEN_VIEWS or nm in EIGEN_PURE or c.get("const"):
                        pass
                    elif op is None and not c.get("const"):
                        # unknown non-const Eigen member
                        raise Broken("effects: unknown non-const Eigen member '%s' at line %s" % (nm, n.get("line")))
                elif ns == "std":
                    if nm in STD_MUTATORS:
                        for r in obj_roots:
                            out.append((r, nm))
                    elif nm in STD_VIEWS or nm in STD_PURE or c.get("const") or op in ("[]", "*", "->", "()", "==", "!=", "<"):
                        pass
                    elif op in ("++", "--"):
                        pass  # iterator stepping on a local iterator
                    elif not c.get("const"):
                        raise Broken("effects: unknown non-const std member '%s' at line %s" % (nm, n.get("line")))
                elif fid is not None and fid in self.F.by_fid:
                    s = self.summary(fid)
                    for r in obj_roots:
                        for p, how in s["this"]:
                            out.append((r + p, "via " + c["name"]))
                elif fid is not None and fid in self.F.lambda_by_fid:
                    pass  # lambda call: handled by the caller through inlining (see Walker)
                elif not c.get("const") and op != "()":
                    # non-const method of a user type without body: may write its object
                    for r in obj_roots:
                        out.append((r, "extern " + str(nm)))
            # arguments passed by mutable reference / pointer
            pm = c.get("pm", [])
            args = n.get("args", [])
            is_op_member = "obj" in n
            for i, a in enumerate(args):
                mode = pm[i] if i < len(pm) else "val"
                if mode in ("ref", "rref", "ptr"):
                    ars = roots(a, env)
                    if not ars:
                        continue
                    if ns == "std" and nm in ("move", "forward", "as_const", "addressof", "max", "min", "distance",
                                              "upper_bound", "lower_bound", "isfinite", "to_string", "swap", "abs",
                                              "operator+", "operator<<", "get"):
                        if nm == "swap":
                            for r in ars:
                                out.append((r, "swap"))
                        continue
                    if ns == "Eigen":
                        # Eigen free operators / internal calls never write through their operands
                        continue
                    if fid is not None and fid in self.F.by_fid:
                        s = self.summary(fid)
                        for p, how in s["params"].get(i, []):
                            for r in ars:
                                out.append((r + p, "via %s(arg %d)" % (c["name"], i)))
                    elif fid is not None and fid in self.F.lambda_by_fid:
                        pass
                    else:
                        for r in ars:
                            out.append((r, "extern-arg %s" % c.get("name")))
            # std algorithms writing through iterators
            if ns == "std" and nm in ("fill", "fill_n", "iota", "copy", "sort", "reverse"):
                tgt = args[-1] if nm == "copy" else (args[0] if args else None)
                if tgt is not None:
                    for r in roots(tgt, env):
                        out.append((r, "std::" + nm))
        return out

    # ---- summaries ---------------------------------------------------------
    def summary(self, fid):
        """{'this': [(subpath, how)], 'params': {i: [(subpath, how)]}} transitively."""
        if fid in self._sum:
            return self._sum[fid]
        self._sum[fid] = {"this": [], "params": {}}  # recursion guard (no recursion in repo)
        f = self.F.by_fid[fid]
        w = self.function_writes(f)
        s = {"this": [], "params": {}}
        pid = {p["id"]: i for i, p in enumerate(f["params"])}
        for path, how, node in w:
            if path[0] == "this":
                s["this"].append((path[1:], how))
            elif path[0] == "v" and path[1] in pid:
                i = pid[path[1]]
                pty = f["params"][i]["ty"]
                sub = path[3:]
                if pty.get("ref") and not pty.get("const"):
                    s["params"].setdefault(i, []).append((sub, how))
                elif pty.get("c") == "ptr" and sub[:1] == ("*",):
                    s["params"].setdefault(i, []).append((sub, how))
        self._sum[fid] = s
        return s

    def function_writes(self, f):
        """All (path, how, node) written in f's body (lambda bodies included when called)."""
        out = []
        env = Env()
        for ini in f.get("inits") or []:
            if "field" in ini and ini.get("written", True):
                out.append((("this", ini["field"]), "ctor-init", ini))
            self._collect(ini.get("init"), env, out)
        self._collect_stmt(f.get("body"), env, out)
        return out

    def function_writes_local(self, f):
        """Writes performed by f's own statements (not through repo callees)."""
        return [(p, h, n) for p, h, n in self.function_writes(f) if not h.startswith("via ")]

    def _bind_decl(self, d, env):
        if d.get("bind") == "alias" and d.get("init") is not None:
            rs = roots(d["init"], env)
            if rs:
                env.alias[d["id"]] = rs
        elif d.get("ty", {}).get("c") == "eigen" and d.get("ty", {}).get("tmpl") in ("Block", "VectorBlock", "Transpose", "Ref", "Map") and d.get("init") is not None:
            rs = roots(d["init"], env)
            if rs:
                env.alias[d["id"]] = rs  # view value: writing it writes the base
        elif d.get("ty", {}).get("c") == "ptr" and d.get("init") is not None:
            rs = roots(d["init"], env)
            if rs:
                env.alias[d["id"]] = rs

    def _collect_stmt(self, s, env, out):
        if s is None:
            return
        k = s.get("k")
        if k == "block":
            for x in s["body"]:
                self._collect_stmt(x, env, out)
        elif k == "decl":
            self._collect(s.get("init"), env, out)
            self._bind_decl(s, env)
        elif k == "if":
            self._collect_stmt(s.get("init"), env, out)
            self._collect(s.get("cond"), env, out)
            self._collect_stmt(s.get("then"), env, out)
            self._collect_stmt(s.get("else"), env, out)
        elif k == "for":
            self._collect_stmt(s.get("init"), env, out)
            self._collect(s.get("cond"), env, out)
            self._collect(s.get("inc"), env, out)
            self._collect_stmt(s.get("body"), env, out)
        elif k == "rfor":
            d = s["var"]
            if d.get("ty", {}).get("ref"):
                rs = roots(s["range"], env)
                if rs:
                    env.alias[d["id"]] = rs
            self._collect(s.get("range"), env, out)
            self._collect_stmt(s.get("body"), env, out)
        elif k in ("return", "expr"):
            self._collect(s.get("e"), env, out)
        elif k == "omp":
            self._collect_stmt(s.get("body"), env, out)
        elif k in ("continue", "break", "null"):
            pass
        else:
            raise Broken("effects: unsupported statement kind %s at line %s" % (k, s.get("line")))

    def _collect(self, e, env, out, lam_env=None):
        if e is None:
            return
        for n in self._expr_nodes(e):
            if n.get("k") == "lambda":
                # remember the lambda so that calls to it can be inlined
                self._lambdas = getattr(self, "_lambdas", {})
                self._lambdas[n["lid"]] = (n, env)
                continue
            for path, how in self.node_writes(n, env):
                out.append((path, how, n))
            if n.get("k") == "call":
                fid = callee(n).get("fid")
                if fid is not None and fid in self.F.lambda_by_fid:
                    lam, spec, _ = self.F.lambda_by_fid[fid]
                    lenv = env.copy()
                    # bind reference params of the lambda to argument roots
                    for p, a in zip(spec["params"], n.get("args", [])):
                        if p["ty"].get("ref"):
                            rs = roots(a, env)
                            if rs:
                                lenv.alias[p["id"]] = rs
                    self._collect_stmt(spec.get("body"), lenv, out)
                # lambda objects passed as arguments to repo functions (executor(0,n,lambda))
                for a in n.get("args", []):
                    if isinstance(a, dict) and a.get("k") == "lambda":
                        for spec in a.get("specs", []):
                            self._collect_stmt(spec.get("body"), env.copy(), out)

    def _expr_nodes(self, e):
        """Nodes of an expression in evaluation-ish (post) order, not descending into lambdas."""
        res = []

        def rec(n):
            if isinstance(n, list):
                for x in n:
                    rec(x)
                return
            if not isinstance(n, dict):
                return
            if n.get("k") == "lambda":
                res.append(n)
                return
            for key in ("obj", "base", "args", "l", "r", "e", "c", "a", "b", "idx", "init", "elems", "fn"):
                if key in n:
                    rec(n[key])
            res.append(n)

        rec(e)
        return res
