"""Engine S: typestate dataflow over the structured statement trees.

A client supplies
  transfer(node, state, ctx) -> iterable of successor states   (node = expression node, post-order)
  branch(cond, polarity, state, ctx) -> iterable of states      (empty = infeasible)   [optional]
States are hashable values; the framework propagates *sets* of states (a may-analysis
over a finite powerset), joins at merges, iterates loops to a fixpoint, follows calls into
repo functions and lambdas when the client asks for it (ctx.call / automatic for lambdas).
"""
from .facts import Broken
from .effects import Env, roots, callee


class Ctx:
    def __init__(self, flow, f, env):
        self.flow = flow
        self.f = f
        self.env = env
        self.exits = []      # (state, return-node)
        self.throws = []

    def call(self, fid, state):
        """Exit states of running repo function fid from `state` (memoised)."""
        return self.flow.run_function(fid, state)


class Flow:
    def __init__(self, F, transfer, branch=None, enter_call=None, max_states=4000):
        self.F = F
        self.transfer = transfer
        self.branch = branch
        self.enter_call = enter_call  # predicate(callee_record) -> follow into repo callee automatically
        self.memo = {}
        self.max_states = max_states
        self.visited_functions = set()

    # -- entry points ---------------------------------------------------------
    def run_function(self, fid, state, alias=None):
        akey = tuple(sorted((k, tuple(v)) for k, v in (alias or {}).items()))
        key = (fid, state, akey)
        if key in self.memo:
            r = self.memo[key]
            if r is None:
                raise Broken("flow: recursion through fid %s" % fid)
            return r
        self.memo[key] = None
        f = self.F.by_fid[fid]
        self.visited_functions.add(fid)
        env = Env()
        if alias:
            env.alias.update(alias)
        ctx = Ctx(self, f, env)
        states = {state}
        for ini in f.get("inits") or []:
            states = self._expr(ini.get("init"), states, ctx)
            if "field" in ini:
                states = self._apply({"k": "ctorinit", "field": ini["field"], "line": ini.get("line"),
                                      "written": ini.get("written", True), "init": ini.get("init")}, states, ctx)
        out = self._stmt(f.get("body"), states, ctx, loop=None)
        res = frozenset(out) | frozenset(s for s, _ in ctx.exits)
        self.memo[key] = res
        self.last_ctx = ctx
        return res

    def run(self, f, state):
        """Like run_function but returns (fallthrough states, [(state, return node)])."""
        ctx = Ctx(self, f, Env())
        self.visited_functions.add(f["fid"])
        states = {state}
        for ini in f.get("inits") or []:
            states = self._expr(ini.get("init"), states, ctx)
            if "field" in ini:
                states = self._apply({"k": "ctorinit", "field": ini["field"], "line": ini.get("line"),
                                      "written": ini.get("written", True), "init": ini.get("init")}, states, ctx)
        out = self._stmt(f.get("body"), states, ctx, loop=None)
        self._last_throws = ctx.throws
        return out, ctx.exits

    # -- internals --------------------------------------------------------------
    def _apply(self, node, states, ctx):
        out = set()
        for s in states:
            r = self.transfer(node, s, ctx)
            if r is None:
                out.add(s)
            else:
                out.update(r)
        if len(out) > self.max_states:
            raise Broken("flow: state explosion (%d) at line %s" % (len(out), node.get("line")))
        return out

    def _branch(self, cond, pol, states, ctx):
        if self.branch is None or cond is None:
            return set(states)
        out = set()
        for s in states:
            r = self.branch(cond, pol, s, ctx)
            if r is None:
                out.add(s)
            else:
                out.update(r)
        return out

    def _expr(self, e, states, ctx):
        if e is None:
            return states
        k = e.get("k")
        if k == "lambda":
            return self._apply(e, states, ctx)
        # short-circuit operators and ?: get control-flow treatment
        if k == "bin" and e["op"] in ("&&", "||"):
            s1 = self._expr(e["l"], states, ctx)
            if e["op"] == "&&":
                t = self._branch(e["l"], True, s1, ctx)
                f_ = self._branch(e["l"], False, s1, ctx)
                t2 = self._expr(e["r"], t, ctx)
                return t2 | f_
            else:
                t = self._branch(e["l"], True, s1, ctx)
                f_ = self._branch(e["l"], False, s1, ctx)
                f2 = self._expr(e["r"], f_, ctx)
                return t | f2
        if k == "cond":
            s1 = self._expr(e["c"], states, ctx)
            t = self._expr(e["a"], self._branch(e["c"], True, s1, ctx), ctx)
            f_ = self._expr(e["b"], self._branch(e["c"], False, s1, ctx), ctx)
            return self._apply(e, t | f_, ctx)
        for key in ("obj", "base", "fn"):
            if key in e:
                states = self._expr(e[key], states, ctx)
        for key in ("args", "elems"):
            if key in e:
                for a in e[key]:
                    if isinstance(a, dict) and a.get("k") == "lambda":
                        continue  # lambda passed as argument: run at the call below
                    states = self._expr(a, states, ctx)
        for key in ("l", "r", "e", "idx", "init"):
            if key in e and isinstance(e[key], dict):
                states = self._expr(e[key], states, ctx)
        states = self._apply(e, states, ctx)
        if k == "call":
            c = callee(e)
            fid = c.get("fid")
            if fid is not None and fid in self.F.lambda_by_fid:
                states = self._inline_lambda(fid, e, states, ctx)
            elif fid is not None and fid in self.F.by_fid and self.enter_call and self.enter_call(self.F.by_fid[fid], e):
                out = set()
                g = self.F.by_fid[fid]
                alias = {}
                # bind reference parameters to the caller's access paths; `this` of the callee is
                # the caller's object expression (identity when called on this)
                for p, a in zip(g["params"], e.get("args", [])):
                    if p["ty"].get("ref") or p["ty"].get("c") == "ptr":
                        rs = roots(a, ctx.env)
                        if rs:
                            alias[p["id"]] = rs
                for s in states:
                    out.update(self.run_function(fid, s, alias))
                states = out
            # lambdas handed to a repo callable (executor): the callee runs them zero or more times
            for a in e.get("args", []):
                if isinstance(a, dict) and a.get("k") == "lambda":
                    for spec in a.get("specs", []):
                        states = self._run_lambda_body(spec, a, states, ctx, Env(ctx.env), repeat=True)
        return states

    def _inline_lambda(self, fid, call, states, ctx):
        lam, spec, _ = self.F.lambda_by_fid[fid]
        lenv = Env(ctx.env)
        for p, a in zip(spec["params"], call.get("args", [])):
            if p["ty"].get("ref"):
                rs = roots(a, ctx.env)
                if rs:
                    lenv.alias[p["id"]] = rs
        return self._run_lambda_body(spec, lam, states, ctx, lenv, repeat=False)

    def _run_lambda_body(self, spec, lam, states, ctx, lenv, repeat):
        sub = Ctx(self, ctx.f, lenv)
        sub.throws = ctx.throws
        if not repeat:
            out = self._stmt(spec.get("body"), set(states), sub, loop=None)
            return out | {s for s, _ in sub.exits}
        acc = set(states)
        frontier = set(states)
        for _ in range(50):
            sub.exits = []
            out = self._stmt(spec.get("body"), frontier, sub, loop=None) | {s for s, _ in sub.exits}
            new = out - acc
            if not new:
                return acc
            acc |= new
            frontier = new
        raise Broken("flow: lambda fixpoint not reached")

    def _stmt(self, s, states, ctx, loop):
        if s is None or not states:
            return states
        k = s.get("k")
        if k == "block":
            for x in s["body"]:
                states = self._stmt(x, states, ctx, loop)
                if not states:
                    break
            return states
        if k == "decl":
            states = self._expr(s.get("init"), states, ctx)
            self._bind(s, ctx)
            return self._apply(s, states, ctx)
        if k == "expr":
            e = s.get("e")
            if isinstance(e, dict) and e.get("k") == "throw":
                states = self._expr(e.get("e"), states, ctx)
                states = self._apply(e, states, ctx)
                for st in states:
                    ctx.throws.append((st, e))
                return set()
            return self._expr(e, states, ctx)
        if k == "return":
            states = self._expr(s.get("e"), states, ctx)
            states = self._apply(s, states, ctx)
            for st in states:
                ctx.exits.append((st, s))
            return set()
        if k == "if":
            states = self._stmt(s.get("init"), states, ctx, loop)
            if s.get("constexpr") and s.get("taken"):
                br = s["then"] if s["taken"] == "then" else s.get("else")
                return self._stmt(br, states, ctx, loop)
            states = self._expr(s.get("cond"), states, ctx)
            t = self._stmt(s.get("then"), self._branch(s.get("cond"), True, states, ctx), ctx, loop)
            f_ = self._branch(s.get("cond"), False, states, ctx)
            if s.get("else") is not None:
                f_ = self._stmt(s["else"], f_, ctx, loop)
            return t | f_
        if k in ("for", "rfor", "while"):
            if k == "for":
                states = self._stmt(s.get("init"), states, ctx, loop)
            elif k == "rfor":
                states = self._expr(s.get("range"), states, ctx)
                d = s["var"]
                if d.get("ty", {}).get("ref"):
                    rs = roots(s["range"], ctx.env)
                    if rs:
                        ctx.env.alias[d["id"]] = rs
            acc = set(states)
            frontier = set(states)
            exits = set()
            for _ in range(100):
                lp = {"cont": set(), "brk": set()}
                c = s.get("cond")
                st_c = self._expr(c, frontier, ctx) if c is not None else frontier
                exits |= self._branch(c, False, st_c, ctx) if c is not None else (st_c if k == "rfor" else set())
                body_in = self._branch(c, True, st_c, ctx) if c is not None else st_c
                if k == "rfor":
                    exits |= st_c
                    body_in = self._apply({"k": "rfor-iter", "var": s["var"], "range": s["range"], "line": s.get("line")}, body_in, ctx)
                out = self._stmt(s.get("body"), body_in, ctx, lp) | lp["cont"]
                exits |= lp["brk"]
                if k == "for":
                    out = self._expr(s.get("inc"), out, ctx)
                new = out - acc
                if not new:
                    return exits
                acc |= new
                frontier = new
            raise Broken("flow: loop fixpoint not reached at line %s" % s.get("line"))
        if k == "continue":
            if loop is None:
                raise Broken("continue outside loop")
            loop["cont"] |= states
            return set()
        if k == "break":
            loop["brk"] |= states
            return set()
        if k == "null":
            return states
        if k == "omp":
            return self._stmt(s.get("body"), states, ctx, loop)
        raise Broken("flow: unsupported statement kind %s at line %s" % (k, s.get("line")))

    def _bind(self, d, ctx):
        if d.get("init") is None:
            return
        ty = d.get("ty", {})
        if d.get("bind") == "alias" or ty.get("c") == "ptr" or (
                ty.get("c") == "eigen" and ty.get("tmpl") in ("Block", "VectorBlock", "Transpose", "Ref", "Map")):
            rs = roots(d["init"], ctx.env)
            if rs:
                ctx.env.alias[d["id"]] = rs
