"""Self-validation of a checker: seeded mutants must be reported, benign edits must not (DESIGN s3.10).

Each mutant is a textual edit of a scratch copy of <repo>/include (made in a fresh mkdtemp
directory outside /repo and /verif, removed afterwards).  The check is then run with
--root <scratch>; nothing of the mutant is executed.

usage: python3-vt sa/mutate.py C15 [name-substring]
"""
import json
import os
import shutil
import subprocess
import sys
import tempfile

VERIF = os.path.dirname(os.path.dirname(os.path.abspath(__file__)))


def load_mutants(pid):
    p = os.path.join(VERIF, "mutants", pid.upper() + ".json")
    if not os.path.exists(p):
        return []
    return json.load(open(p))


# which header(s) a property's check reads: a patch that touches none of them cannot change its verdict
ALLP = {"C%02d" % k for k in range(1, 21)}
READS = {"SplineTrajectory.hpp": ALLP - {"C17"},           # the optimizer checks read the spline's constants and basis rows too
         "SplineOptimizer.hpp": {"C07", "C08", "C09", "C10", "C12", "C15", "C16", "C17", "C19"}}


def patch_relevant(pid, patch_file):
    try:
        txt = open(patch_file).read()
    except OSError:
        return True
    touched = {h for h in READS if ("include/" + h) in txt}
    if not touched:
        return True
    return any(pid.upper() in READS[h] for h in touched)


# seeded defects a *sibling* check reports only after using its whole rule budget (DESIGN s3.9): recorded in Appendix B,
# not replayed on every thorough run (15 minutes for one case, and a verdict that depends on where the budget cuts)
NOT_REPLAYED = {("C02", "S5-C14"): "durations replaced by differences of knot times: C02-R2 is reported, the elimination rule then does not finish in the budget"}


def load_campaign(pid):
    """The outside changes kept under /verif/benign and /verif/seeded as further self-validation cases for one property:
    every behaviour-preserving refactoring must not be reported as a violation (pass, or analysis-broken where a rule does
    not recognise the new shape), and every seeded defect that this property's check is recorded to catch must still be."""
    out = []
    bd = os.path.join(VERIF, "benign")
    for sid in sorted(os.listdir(bd)) if os.path.isdir(bd) else []:
        pf = os.path.join(bd, sid, "patch.diff")
        if os.path.exists(pf) and patch_relevant(pid, pf):
            out.append({"name": "refactoring-" + sid, "patch": pf, "expect": "no-violation"})
    sd = os.path.join(VERIF, "seeded")
    for sid in sorted(os.listdir(sd)) if os.path.isdir(sd) else []:
        pf, mf = os.path.join(sd, sid, "patch.diff"), os.path.join(sd, sid, "meta.json")
        if os.path.exists(pf) and os.path.exists(mf):
            meta = json.load(open(mf))
            rules = (meta.get("checks_reporting_violation") or {}).get(pid.upper())
            if (pid.upper(), sid) in NOT_REPLAYED:
                continue
            if rules:
                out.append({"name": "seeded-" + sid, "patch": pf, "expect": "violation"})
    return out


def apply_edit(root, m):
    if m.get("patch"):
        pf = m["patch"] if os.path.isabs(m["patch"]) else os.path.join(VERIF, m["patch"])
        r = subprocess.run(["patch", "-p1", "-s", "-d", root, "-i", pf], capture_output=True, text=True)
        return None if r.returncode == 0 else "edit anchor not found: patch does not apply (%s)" % (r.stdout + r.stderr)[-120:]
    path = os.path.join(root, "include", m.get("file", "SplineTrajectory.hpp"))
    s = open(path).read()
    edits = m.get("edits") or [{"old": m["old"], "new": m["new"], "nth": m.get("nth", 0), "count": m.get("count")}]
    for e in edits:
        old, new = e["old"], e["new"]
        n = s.count(old)
        if n == 0:
            return "edit anchor not found: %r" % old[:60]
        if e.get("all"):
            s = s.replace(old, new)
            continue
        nth = e.get("nth", 0) or 0
        idx = -1
        for _ in range(nth + 1):
            idx = s.find(old, idx + 1)
            if idx < 0:
                return "edit anchor occurrence %d not found: %r" % (nth, old[:60])
        s = s[:idx] + new + s[idx + len(old):]
    open(path, "w").write(s)
    return None


def run_one(pid, m, repo="/repo", keep=False):
    d = tempfile.mkdtemp(prefix="stxmut-")
    try:
        shutil.copytree(os.path.join(repo, "include"), os.path.join(d, "include"))
        err = apply_edit(d, m)
        if err:
            return "anchor-missing", err
        try:
            r = subprocess.run([sys.executable, os.path.join(VERIF, "sa", "check.py"), pid, "--root", d, "--no-evidence",
                                "--tier", "quick"], capture_output=True, text=True, cwd=VERIF, timeout=int(os.environ.get("VERIF_MUTANT_TIMEOUT", "600")))
        except subprocess.TimeoutExpired:
            return "broken", "timeout"
        out = r.stdout + r.stderr
        if r.returncode == 1:
            return "violation", out
        if r.returncode == 0:
            return "pass", out
        return "broken", out
    finally:
        if not keep:
            shutil.rmtree(d, ignore_errors=True)


def validate(pid, only=None, repo="/repo", verbose=True, campaign=False):
    """Returns (n_ok, problems)."""
    from concurrent.futures import ThreadPoolExecutor
    ms = [m for m in load_mutants(pid) + (load_campaign(pid) if campaign else []) if not (only and only not in m["name"])]
    ok = 0
    problems = []
    with ThreadPoolExecutor(max_workers=int(os.environ.get("VERIF_JOBS", "12"))) as ex:
        results = list(ex.map(lambda m: run_one(pid, m, repo), ms))
    for m, (got, out) in zip(ms, results):
        want = m.get("expect", "violation")
        good = got == want or (want == "no-violation" and got in ("pass", "broken"))
        if good and want == "violation" and m.get("rule"):
            good = m["rule"] in out
        if got == "anchor-missing":
            # the seeded edit no longer applies to this tree (code changed): not a verdict on the checker
            if verbose:
                print("  [skip] %s: %s" % (m["name"], out))
            continue
        if verbose:
            print("  [%s] %s: expected %s, got %s" % ("ok" if good else "MISS", m["name"], want, got))
            if not good:
                print("      " + "\n      ".join(out.strip().splitlines()[-8:]))
        if good:
            ok += 1
        else:
            problems.append((m["name"], want, got))
    return ok, problems


if __name__ == "__main__":
    pid = sys.argv[1].upper()
    only = next((a for a in sys.argv[2:] if not a.startswith("--")), None)
    ok, problems = validate(pid, only, campaign="--campaign" in sys.argv)
    print("%s: %d mutants behaved as expected, %d did not" % (pid, ok, len(problems)))
    sys.exit(0 if not problems else 2)
