"""Algebraic summary of SplineOptimizer::evaluate() (Engine A applied to the optimizer).

evaluate() is interpreted once per assignment of the configuration flags it consults and of the few data
conditions it branches on (energy weight positive; a layout entry being the first / the last waypoint), with
 * the workspace in use bound to a stand-in record "WS",
 * the user's maps and cost functors, the quadrature routine and the spline's own methods as opaque operations whose
   effect on their out-parameters is recorded as an event (their own correctness is C17 / the functor contract /
   C07-R1 / C01..C06),
 * helper member functions, lambdas and traversal helpers followed in place.
The result per path: the decode writes, the arguments handed to spline.update, the ordered accumulation events on the
gradient buffers, the formula written to every run of grad_out slots and the returned cost expression.  Rules of C07,
C08 and C09 are stated on this summary, so they do not depend on how evaluate() is laid out.
"""
import sympy as sp

from .facts import Broken, pp
from . import sym, paths
from .sym import Interp, Unsupported, Vec, Struct, Container, Ref

MAP_API = {"getUnconstrainedDim": "dof", "toTau": "toTau", "toTime": "toTime", "backward": "backward", "toUnconstrained": "toUnconstrained", "toPhysical": "toPhysical",
           "backwardGrad": "backwardGrad"}


def vec_name(v):
    return sp.Symbol(repr(sym.norm_atoms(v)))


def map_hook(c, e, env, I):
    """calls into the (user-replaceable) time / spatial maps are opaque functions of their arguments"""
    nm = c.get("name")
    if nm in MAP_API and e.get("obj") is not None:
        args = []
        for a in e["args"]:
            v = I.ev(a, env)
            if isinstance(v, sym.BlockVec) and v.r == 1:
                v = v.rows[0]
            if isinstance(v, Vec):
                v = vec_name(v)      # a vector argument, named by its canonical content
            args.append(v)
        if all(isinstance(a, sp.Basic) for a in args):
            return sp.Function(MAP_API[nm])(*args)
        raise Unsupported("map call %s with argument kinds %s (line %s)" % (nm, [type(a).__name__ for a in args], e.get("line")))
    return NotImplemented


class Summary:
    def __init__(self, assign, I, ret, notes):
        self.assign, self.I, self.ret, self.notes = assign, I, ret, notes

    def flag(self, name):
        return self.assign.get(sp.Symbol(name))

    def prop(self, text):
        for k, v in self.assign.items():
            if str(k) == text:
                return v
        return None


def is_spline_cls(n):
    return n.startswith("SplineTrajectory::") and "SplineND<" in n and "Optimizer" not in n


def fresh_struct(I, st, prefix):
    """Overwrite every leaf of a gradient struct with an opaque atom / a fresh container generation named after prefix."""
    tags = {}
    for k, v in list(st.f.items()):
        if isinstance(v, Struct):
            tags.update(fresh_struct(I, v, prefix + "." + k))
        elif isinstance(v, Container):
            v.bump()
            I.record(v.name, ("*",), "=", ("opaque", prefix + "." + k), {"line": None})
            tags[k] = v.tag()
        else:
            st.f[k] = Vec.atom((prefix + "." + k,))
            if st.track:
                I.record(st.track + "." + k, (), "=", st.f[k], {"line": None})
    return tags


def snapshot(I, v):
    if isinstance(v, Ref):
        v = I.load(v)
    if isinstance(v, Struct):
        return {k: snapshot(I, x) for k, x in v.f.items()}
    if isinstance(v, Container):
        return ("container", v.name, v.tag())
    return v


def evaluate_paths(F, cls, f, count_member="num_segments_", preset=None, fix_props=False, small=None):
    """small: replay with that many segments (size tests are decided for it; the sizes it does not determine - how many
    layout entries there are, say - stay open and are enumerated)."""
    wsn = cls + "::Workspace"
    # the cost functors are the class-typed parameters of evaluate() other than the workspace pointer and the executor
    functor_types = {p["ty"].get("n") for p in f["params"][2:5] if p["ty"].get("c") == "record"}

    # the functions that only maintain the layout cache (rebuild it, or rebuild it when it is marked dirty): found by what
    # they write, not by their names
    layout_fids = set()
    try:
        from .effects import Effects
        from .props import c12
        E_ = Effects(F)
        dirty_, rebuild_, ins_, outs_ = c12.layout_roles(F, E_, cls)
        allowed = set(outs_) | {dirty_}
        for g_ in F.funcs(cls):
            ws_ = {p_[1] for p_, h_, n_ in E_.function_writes(g_) if p_[0] == "this" and len(p_) >= 2}
            if ws_ and ws_ <= allowed and g_.get("const"):
                layout_fids.add(g_["fid"])
    except Broken:
        layout_fids = {g_["fid"] for g_ in F.funcs(cls, "ensureLayoutCache")}

    def hook(c, e, env, I):
        r = map_hook(c, e, env, I)
        if r is not NotImplemented:
            return r
        nm = c.get("name")
        ccls = c.get("cls", "")
        if c.get("fid") in layout_fids:
            return None          # (re)building the layout cache: the cached layout is a stand-in in this summary
        if ccls.endswith("::Workspace") and nm == "resize":
            I.notes.append(("ws-resize", [I.ev(a, env) for a in e["args"]], I.tick()))
            if (e.get("t") or {}).get("c") == "bool":
                # a resize that reports whether it re-laid the buffers out: both outcomes are possible (workspace history)
                I.bool_inputs.add("ws_was_resized")
                return sp.Symbol("ws_was_resized")
            return None
        if is_spline_cls(ccls):
            args = [I.evl(a, env) for a in e["args"]]
            if nm == "update":
                I.notes.append(("update", [snapshot(I, a) for a in args], I.tick()))
                return None
            if nm in ("propagateGrad", "getEnergyGrad") and args:
                out = args[-1]
                out = I.load(out) if isinstance(out, Ref) else out
                if not isinstance(out, Struct):
                    raise Unsupported("%s without a gradient struct out-parameter" % nm)
                ins = [snapshot(I, a) for a in args[:-1]]
                pos = I.tick()
                tags = fresh_struct(I, out, "PG" if nm == "propagateGrad" else "dE")
                I.notes.append((nm, ins, pos, tags))
                return None
            if nm == "getEnergy":
                I.notes.append(("getEnergy", [], I.tick()))
                return sp.Symbol("ENERGY", real=True)
            if nm in ("getTrajectory",):
                return NotImplemented
            raise Unsupported("spline method %s called from evaluate()" % nm)
        if nm == "calculateIntegralCost":
            args = [I.evl(a, env) for a in e["args"]]
            # (workspace, dC, dT, cost&, functor, executor): accumulates into dC, dT and the running cost
            for a in args[1:3]:
                cont = I.load(a) if isinstance(a, Ref) else a
                if isinstance(cont, Container):
                    I.record(cont.name, ("*",), "+=", ("opaque", "integral"), e)
                    cont.bump()
            cost = args[3]
            if isinstance(cost, Ref):
                I.assign(cost, I.load(cost) + sp.Symbol("COST_INTEGRAL", real=True), e)
            I.notes.append(("integral", [snapshot(I, a) for a in args[:3]], I.tick()))
            return None
        if c.get("op") == "()" and ccls in functor_types:
            # a user cost functor: returns its cost, accumulates its gradient into the mutable out-parameter
            args = [I.evl(a, env) for a in e["args"]]
            kind = "TIME" if len(args) == 2 and isinstance(I.load(args[0]) if isinstance(args[0], Ref) else args[0], Container) and (I.load(args[0]) if isinstance(args[0], Ref) else args[0]).kind == "scal" else "WP"
            out = args[-1]
            cont = I.load(out) if isinstance(out, Ref) else out
            if isinstance(cont, Container):
                I.record(cont.name, ("*",), "+=", ("opaque", "functor " + kind), e)
                cont.bump()
            I.notes.append(("functor " + kind, [snapshot(I, a) for a in args], I.tick()))
            return sp.Symbol("COST_" + kind, real=True)
        return NotImplemented

    def run(oracle):
        I = Interp(F, cls, on_call=hook)
        I.notes = []
        I.opaque_conditions = True
        I.field_assumptions[count_member] = {"positive": True}
        I.case = {"first": False, "last": False}
        if small is not None:
            nsym = sp.Symbol(count_member, integer=True, positive=True)

            def size_oracle(c):
                c = sp.sympify(c)
                if not any(x.name == count_member for x in c.free_symbols):
                    return None
                try:
                    r = sp.simplify(c.subs({x: small for x in c.free_symbols if x.name == count_member}))
                except Exception:
                    return None
                return True if r == sp.true else False if r == sp.false else None
            I.case = {"first": True, "last": True, "size": size_oracle}
            I.no_generic_sizes = True
        I.path_oracle = oracle
        ws = I.make_value("WS", {"c": "record", "n": wsn})
        I.alias_records[wsn] = ws
        env = {p["id"]: I.make_value(p["name"], p["ty"]) for p in f["params"]}
        try:
            ret = I.run_body(f, env)
        except Unsupported as ex:
            raise Broken("evaluate() not analysable: %s" % ex)
        return I, ret, env
    out = []
    for assign, (I, ret, env) in paths.explore(run, preset=preset, fix_props=fix_props):
        s = Summary(assign, I, ret, I.notes)
        s.env = env
        out.append(s)
    return out
