// stx - fact extractor for the SplineTrajectory static checks (DESIGN.md s3.1).
//
// Reads one witness translation unit, walks every *instantiated* (non-dependent)
// function definition and record whose spelling location lies in
// <root>/include/Spline*.hpp and prints a JSON document with a simplified,
// fully resolved statement/expression tree per function.  Nothing is executed.
//
// usage: stx --root <repo-root> --out facts.json wit.cpp -- <clang flags>
#include "clang/AST/ASTConsumer.h"
#include "clang/AST/ASTContext.h"
#include "clang/AST/DeclTemplate.h"
#include "clang/AST/ExprCXX.h"
#include "clang/AST/RecursiveASTVisitor.h"
#include "clang/AST/StmtCXX.h"
#include "clang/AST/StmtOpenMP.h"
#include "clang/Frontend/CompilerInstance.h"
#include "clang/Frontend/FrontendAction.h"
#include "clang/Tooling/CommonOptionsParser.h"
#include "clang/Tooling/Tooling.h"
#include "llvm/Support/CommandLine.h"
#include "llvm/Support/JSON.h"
#include "llvm/Support/raw_ostream.h"
#include <map>
#include <set>
#include <string>

using namespace clang;
namespace json = llvm::json;

static llvm::cl::OptionCategory Cat("stx options");
static llvm::cl::opt<std::string> Root("root", llvm::cl::desc("repository root"),
                                       llvm::cl::init("/repo"), llvm::cl::cat(Cat));
static llvm::cl::opt<std::string> OutFile("out", llvm::cl::desc("output json"),
                                          llvm::cl::init("-"), llvm::cl::cat(Cat));

namespace {

struct Ctx {
  ASTContext *AC = nullptr;
  SourceManager *SM = nullptr;
  PrintingPolicy PP{LangOptions()};
  std::map<const Decl *, int> funcIds;
  std::map<const Decl *, int> varIds;
  std::set<std::string> unsupported;
  std::string rootPrefix;
};

static Ctx G;

static std::string fileOf(SourceLocation L) {
  if (L.isInvalid()) return "";
  SourceLocation S = G.SM->getSpellingLoc(L);
  // For macro expansions use the expansion location (EIGEN_MAKE_ALIGNED...).
  SourceLocation E = G.SM->getExpansionLoc(L);
  (void)S;
  return G.SM->getFilename(E).str();
}
static unsigned lineOf(SourceLocation L) {
  if (L.isInvalid()) return 0;
  return G.SM->getExpansionLineNumber(L);
}
static unsigned colOf(SourceLocation L) {
  if (L.isInvalid()) return 0;
  return G.SM->getExpansionColumnNumber(L);
}
static bool inRepo(SourceLocation L) {
  std::string f = fileOf(L);
  if (f.empty()) return false;
  if (f.compare(0, G.rootPrefix.size(), G.rootPrefix) != 0) return false;
  llvm::StringRef base = llvm::StringRef(f).rsplit('/').second;
  return base.startswith("Spline") && base.endswith(".hpp");
}
static std::string shortFile(SourceLocation L) {
  std::string f = fileOf(L);
  llvm::StringRef base = llvm::StringRef(f).rsplit('/').second;
  return base.str();
}

static int funcId(const FunctionDecl *FD) {
  const Decl *K = FD->getCanonicalDecl();
  auto it = G.funcIds.find(K);
  if (it != G.funcIds.end()) return it->second;
  int id = (int)G.funcIds.size() + 1;
  G.funcIds[K] = id;
  return id;
}
static int varId(const Decl *D) {
  const Decl *K = D->getCanonicalDecl();
  auto it = G.varIds.find(K);
  if (it != G.varIds.end()) return it->second;
  int id = (int)G.varIds.size() + 1;
  G.varIds[K] = id;
  return id;
}

static std::string typeStr(QualType T) {
  std::string s = T.getAsString(G.PP);
  if (s.size() > 160) s = s.substr(0, 157) + "...";
  return s;
}

// Look up an enumerator (RowsAtCompileTime etc.) in a record or its bases.
static bool findEnumerator(const CXXRecordDecl *RD, llvm::StringRef name, long &out,
                           int depth = 0) {
  if (!RD || depth > 12) return false;
  RD = RD->getDefinition();
  if (!RD) return false;
  for (const Decl *D : RD->decls()) {
    if (const auto *ED = dyn_cast<EnumDecl>(D)) {
      for (const EnumConstantDecl *EC : ED->enumerators()) {
        if (EC->getName() == name) {
          out = EC->getInitVal().getSExtValue();
          return true;
        }
      }
    }
  }
  for (const auto &B : RD->bases()) {
    const CXXRecordDecl *BD = B.getType()->getAsCXXRecordDecl();
    if (findEnumerator(BD, name, out, depth + 1)) return true;
  }
  return false;
}

static bool isInNamespace(const Decl *D, llvm::StringRef ns) {
  const DeclContext *DC = D->getDeclContext();
  while (DC) {
    if (const auto *ND = dyn_cast<NamespaceDecl>(DC))
      if (ND->getName() == ns) return true;
    DC = DC->getParent();
  }
  return false;
}

static std::string recordName(const CXXRecordDecl *RD) {
  std::string s;
  llvm::raw_string_ostream os(s);
  RD->getNameForDiagnostic(os, G.PP, /*Qualified=*/true);
  os.flush();
  if (s.size() > 200) s = s.substr(0, 197) + "...";
  return s;
}

// Type descriptor.
//  {"c":"int|double|bool|void|ptr|eigen|record|enum|other", "n":printed, ...}
static json::Object typeInfo(QualType T) {
  json::Object o;
  if (T.isNull()) {
    o["c"] = "null";
    return o;
  }
  bool isRef = T->isReferenceType();
  bool isRRef = T->isRValueReferenceType();
  QualType NR = T.getNonReferenceType();
  if (isRef) o["ref"] = isRRef ? "rvalue" : "lvalue";
  if (NR.isConstQualified()) o["const"] = true;
  QualType C = NR.getCanonicalType().getUnqualifiedType();
  if (C->isBooleanType()) {
    o["c"] = "bool";
  } else if (C->isIntegerType() && !C->isEnumeralType()) {
    o["c"] = "int";
    o["n"] = typeStr(C);
  } else if (C->isFloatingType()) {
    o["c"] = "double";
  } else if (C->isVoidType()) {
    o["c"] = "void";
  } else if (C->isEnumeralType()) {
    o["c"] = "enum";
    o["n"] = typeStr(C);
  } else if (C->isPointerType()) {
    o["c"] = "ptr";
    QualType P = C->getPointeeType();
    o["pointee"] = typeInfo(P);
  } else if (const CXXRecordDecl *RD = C->getAsCXXRecordDecl()) {
    if (isInNamespace(RD, "Eigen")) {
      o["c"] = "eigen";
      o["tmpl"] = RD->getName().str();
      long r, c2, opt;
      if (findEnumerator(RD, "RowsAtCompileTime", r)) o["rows"] = (int64_t)r;
      if (findEnumerator(RD, "ColsAtCompileTime", c2)) o["cols"] = (int64_t)c2;
      if (RD->getName() == "Matrix" || RD->getName() == "Array") {
        if (findEnumerator(RD, "Options", opt)) o["opts"] = (int64_t)opt;
      }
    } else if (RD->isLambda()) {
      o["c"] = "lambda";
      o["lid"] = std::to_string(lineOf(RD->getLocation())) + ":" +
                 std::to_string(colOf(RD->getLocation()));
    } else {
      o["c"] = "record";
      o["n"] = recordName(RD);
      if (isInNamespace(RD, "std")) {
        o["std"] = RD->getName().str();
        if (const auto *TS = dyn_cast<ClassTemplateSpecializationDecl>(RD)) {
          const auto &TA = TS->getTemplateArgs();
          if (TA.size() > 0 && TA[0].getKind() == TemplateArgument::Type)
            o["elem"] = typeInfo(TA[0].getAsType());
        }
      }
    }
  } else {
    o["c"] = "other";
    o["n"] = typeStr(C);
  }
  return o;
}

static const Expr *strip(const Expr *E) {
  while (E) {
    if (const auto *X = dyn_cast<ImplicitCastExpr>(E)) { E = X->getSubExpr(); continue; }
    if (const auto *X = dyn_cast<MaterializeTemporaryExpr>(E)) { E = X->getSubExpr(); continue; }
    if (const auto *X = dyn_cast<ExprWithCleanups>(E)) { E = X->getSubExpr(); continue; }
    if (const auto *X = dyn_cast<CXXBindTemporaryExpr>(E)) { E = X->getSubExpr(); continue; }
    if (const auto *X = dyn_cast<ParenExpr>(E)) { E = X->getSubExpr(); continue; }
    if (const auto *X = dyn_cast<ConstantExpr>(E)) { E = X->getSubExpr(); continue; }
    if (const auto *X = dyn_cast<SubstNonTypeTemplateParmExpr>(E)) { (void)X; break; }
    if (const auto *X = dyn_cast<CXXFunctionalCastExpr>(E)) {
      // T(x) where the cast is a no-op constructor conversion keeps its CXXConstructExpr
      if (X->getCastKind() == CK_ConstructorConversion || X->getCastKind() == CK_NoOp) {
        E = X->getSubExpr();
        continue;
      }
      break;
    }
    break;
  }
  return E;
}

static json::Value exprJ(const Expr *E);
static json::Value stmtJ(const Stmt *S);

static json::Object calleeInfo(const FunctionDecl *FD) {
  json::Object o;
  o["name"] = FD->getDeclName().getAsString();
  o["q"] = FD->getQualifiedNameAsString();
  if (const auto *MD = dyn_cast<CXXMethodDecl>(FD)) {
    const CXXRecordDecl *RD = MD->getParent();
    if (RD->isLambda()) {
      o["lid"] = std::to_string(lineOf(RD->getLocation())) + ":" +
                 std::to_string(colOf(RD->getLocation()));
      o["cls"] = "<lambda>";
    } else {
      o["cls"] = recordName(RD);
    }
    o["const"] = MD->isConst();
    o["static"] = MD->isStatic();
  }
  bool repo = inRepo(FD->getLocation());
  o["repo"] = repo;
  if (repo || (isa<CXXMethodDecl>(FD) && cast<CXXMethodDecl>(FD)->getParent()->isLambda()))
    o["fid"] = funcId(FD);
  if (isInNamespace(FD, "Eigen")) o["ns"] = "Eigen";
  else if (isInNamespace(FD, "std")) o["ns"] = "std";
  // explicit integer template arguments (middleRows<2>, segment<DIM>, block<R,C>)
  if (const TemplateArgumentList *TAL = FD->getTemplateSpecializationArgs()) {
    json::Array ta;
    for (unsigned i = 0; i < TAL->size(); ++i) {
      const TemplateArgument &A = TAL->get(i);
      if (A.getKind() == TemplateArgument::Integral)
        ta.push_back((int64_t)A.getAsIntegral().getSExtValue());
      else if (A.getKind() == TemplateArgument::Type)
        ta.push_back(typeStr(A.getAsType()));
      else
        ta.push_back(nullptr);
    }
    o["targs"] = std::move(ta);
  }
  // parameter passing modes
  json::Array pm;
  for (const ParmVarDecl *P : FD->parameters()) {
    QualType T = P->getType();
    if (T->isLValueReferenceType())
      pm.push_back(T.getNonReferenceType().isConstQualified() ? "cref" : "ref");
    else if (T->isRValueReferenceType())
      pm.push_back("rref");
    else if (T->isPointerType())
      pm.push_back("ptr");
    else
      pm.push_back("val");
  }
  o["pm"] = std::move(pm);
  return o;
}

static json::Object lambdaBody(const CXXMethodDecl *Op) {
  json::Object o;
  o["fid"] = funcId(Op);
  json::Array ps;
  for (const ParmVarDecl *P : Op->parameters()) {
    json::Object p;
    p["name"] = P->getName().str();
    p["id"] = varId(P);
    p["ty"] = typeInfo(P->getType());
    ps.push_back(std::move(p));
  }
  o["params"] = std::move(ps);
  if (Op->hasBody()) o["body"] = stmtJ(Op->getBody());
  return o;
}

static json::Value lambdaJ(const LambdaExpr *L) {
  json::Object o;
  o["k"] = "lambda";
  const CXXRecordDecl *RD = L->getLambdaClass();
  o["lid"] = std::to_string(lineOf(RD->getLocation())) + ":" + std::to_string(colOf(RD->getLocation()));
  o["line"] = (int64_t)lineOf(L->getBeginLoc());
  o["default"] = L->getCaptureDefault() == LCD_ByRef ? "ref"
                 : L->getCaptureDefault() == LCD_ByCopy ? "copy" : "none";
  json::Array caps;
  for (const LambdaCapture &C : L->captures()) {
    json::Object c;
    if (C.capturesThis()) {
      c["this"] = true;
    } else if (C.capturesVariable()) {
      c["name"] = C.getCapturedVar()->getName().str();
      c["id"] = varId(C.getCapturedVar());
      c["ty"] = typeInfo(C.getCapturedVar()->getType());
    }
    c["mode"] = C.getCaptureKind() == LCK_ByRef ? "ref" : (C.getCaptureKind() == LCK_ByCopy ? "copy" : "other");
    c["implicit"] = C.isImplicit();
    caps.push_back(std::move(c));
  }
  o["captures"] = std::move(caps);
  o["generic"] = L->isGenericLambda();
  json::Array specs;
  if (L->isGenericLambda()) {
    if (FunctionTemplateDecl *FT = RD->getDependentLambdaCallOperator()) {
      for (FunctionDecl *S : FT->specializations()) {
        if (auto *MD = dyn_cast<CXXMethodDecl>(S))
          if (MD->hasBody() && !MD->isDependentContext()) specs.push_back(lambdaBody(MD));
      }
    }
  } else {
    if (const CXXMethodDecl *Op = RD->getLambdaCallOperator()) specs.push_back(lambdaBody(Op));
  }
  o["specs"] = std::move(specs);
  return std::move(o);
}

static json::Value unsupportedExpr(const Expr *E) {
  json::Object o;
  o["k"] = "unsupported";
  o["cls"] = E->getStmtClassName();
  o["line"] = (int64_t)lineOf(E->getBeginLoc());
  G.unsupported.insert(std::string(E->getStmtClassName()) + "@" + shortFile(E->getBeginLoc()) + ":" +
                       std::to_string(lineOf(E->getBeginLoc())));
  return std::move(o);
}

static json::Value exprJ(const Expr *E0) {
  if (!E0) return nullptr;
  const Expr *E = strip(E0);
  json::Object o;
  auto setT = [&](const Expr *X) { o["t"] = typeInfo(X->getType()); };

  if (const auto *X = dyn_cast<IntegerLiteral>(E)) {
    o["k"] = "lit";
    o["v"] = llvm::toString(X->getValue(), 10, true);
    o["lt"] = "int";
    return std::move(o);
  }
  if (const auto *X = dyn_cast<FloatingLiteral>(E)) {
    o["k"] = "lit";
    // exact source spelling when available
    SourceLocation B = G.SM->getSpellingLoc(X->getBeginLoc());
    bool inv = false;
    const char *p = G.SM->getCharacterData(B, &inv);
    std::string sp;
    if (!inv && p) {
      const char *q = p;
      while (*q && (isalnum(*q) || *q == '.' || *q == '+' || *q == '-')) {
        if ((*q == '+' || *q == '-') && !(q > p && (q[-1] == 'e' || q[-1] == 'E'))) break;
        ++q;
      }
      sp.assign(p, q);
    }
    llvm::SmallString<32> s;
    X->getValue().toString(s);
    o["v"] = sp.empty() ? s.str().str() : sp;
    o["approx"] = s.str().str();
    o["lt"] = "double";
    return std::move(o);
  }
  if (const auto *X = dyn_cast<CXXBoolLiteralExpr>(E)) {
    o["k"] = "lit";
    o["v"] = X->getValue() ? "true" : "false";
    o["lt"] = "bool";
    return std::move(o);
  }
  if (const auto *X = dyn_cast<CharacterLiteral>(E)) {
    o["k"] = "lit";
    o["v"] = std::to_string(X->getValue());
    o["lt"] = "int";
    o["char"] = true;
    return std::move(o);
  }
  if (const auto *X = dyn_cast<CXXNoexceptExpr>(E)) {
    o["k"] = "lit";
    o["v"] = X->getValue() ? "true" : "false";
    o["lt"] = "bool";
    return std::move(o);
  }
  if (isa<CXXNullPtrLiteralExpr>(E) || isa<GNUNullExpr>(E)) {
    o["k"] = "lit";
    o["v"] = "nullptr";
    o["lt"] = "nullptr";
    return std::move(o);
  }
  if (const auto *X = dyn_cast<StringLiteral>(E)) {
    o["k"] = "lit";
    o["v"] = X->getString().str();
    o["lt"] = "string";
    return std::move(o);
  }
  if (isa<PredefinedExpr>(E)) {
    // __func__ / __PRETTY_FUNCTION__ (the assert macro passes it on): a string constant
    o["k"] = "lit";
    o["v"] = "__func__";
    o["lt"] = "string";
    return std::move(o);
  }
  if (const auto *X = dyn_cast<SubstNonTypeTemplateParmExpr>(E)) {
    json::Value inner = exprJ(X->getReplacement());
    if (json::Object *io = inner.getAsObject()) {
      (*io)["nttp"] = X->getParameter()->getName().str();
    }
    return inner;
  }
  if (const auto *X = dyn_cast<DeclRefExpr>(E)) {
    const ValueDecl *D = X->getDecl();
    if (const auto *EC = dyn_cast<EnumConstantDecl>(D)) {
      o["k"] = "lit";
      o["v"] = llvm::toString(EC->getInitVal(), 10);
      o["lt"] = "enum";
      o["name"] = EC->getQualifiedNameAsString();
      return std::move(o);
    }
    if (const auto *FD = dyn_cast<FunctionDecl>(D)) {
      o["k"] = "funcref";
      o["callee"] = calleeInfo(FD);
      return std::move(o);
    }
    if (const auto *VD = dyn_cast<VarDecl>(D)) {
      // constexpr static members / constants: fold
      if (VD->isStaticDataMember() || VD->hasGlobalStorage()) {
        o["k"] = "static";
        o["name"] = VD->getName().str();
        o["q"] = VD->getQualifiedNameAsString();
        if (const CXXRecordDecl *RD = dyn_cast<CXXRecordDecl>(VD->getDeclContext()))
          o["cls"] = recordName(RD);
        Expr::EvalResult R;
        if (!X->isValueDependent() && X->getType()->isArithmeticType() &&
            X->EvaluateAsRValue(R, *G.AC)) {
          if (R.Val.isInt()) o["v"] = llvm::toString(R.Val.getInt(), 10);
          else if (R.Val.isFloat()) {
            llvm::SmallString<32> s;
            R.Val.getFloat().toString(s);
            o["v"] = s.str().str();
          }
        }
        setT(X);
        return std::move(o);
      }
      o["k"] = "var";
      o["name"] = VD->getName().str();
      o["id"] = varId(VD);
      o["vk"] = isa<ParmVarDecl>(VD) ? "param" : "local";
      if (X->refersToEnclosingVariableOrCapture()) o["cap"] = true;
      setT(X);
      return std::move(o);
    }
    if (const auto *BD = dyn_cast<BindingDecl>(D)) {
      o["k"] = "var";
      o["name"] = BD->getName().str();
      o["id"] = varId(BD);
      o["vk"] = "binding";
      setT(X);
      return std::move(o);
    }
    return unsupportedExpr(E);
  }
  if (isa<CXXThisExpr>(E)) {
    o["k"] = "this";
    return std::move(o);
  }
  if (const auto *X = dyn_cast<MemberExpr>(E)) {
    const ValueDecl *D = X->getMemberDecl();
    if (const auto *FD = dyn_cast<FieldDecl>(D)) {
      o["k"] = "mem";
      o["field"] = FD->getName().str();
      o["cls"] = recordName(cast<CXXRecordDecl>(FD->getParent()));
      o["arrow"] = X->isArrow();
      o["base"] = exprJ(X->getBase());
      setT(X);
      return std::move(o);
    }
    if (const auto *VD = dyn_cast<VarDecl>(D)) {  // static member through object
      o["k"] = "static";
      o["name"] = VD->getName().str();
      o["q"] = VD->getQualifiedNameAsString();
      setT(X);
      return std::move(o);
    }
    if (const auto *MD = dyn_cast<CXXMethodDecl>(D)) {  // bound member function (callee position)
      o["k"] = "methodref";
      o["callee"] = calleeInfo(MD);
      o["base"] = exprJ(X->getBase());
      return std::move(o);
    }
    return unsupportedExpr(E);
  }
  if (const auto *X = dyn_cast<CXXOperatorCallExpr>(E)) {
    o["k"] = "call";
    o["line"] = (int64_t)lineOf(X->getOperatorLoc());
    const FunctionDecl *FD = X->getDirectCallee();
    if (!FD) return unsupportedExpr(E);
    json::Object ci = calleeInfo(FD);
    ci["op"] = getOperatorSpelling(X->getOperator());
    bool member = isa<CXXMethodDecl>(FD) && !cast<CXXMethodDecl>(FD)->isStatic();
    o["callee"] = std::move(ci);
    json::Array args;
    unsigned start = 0;
    if (member && X->getNumArgs() > 0) {
      o["obj"] = exprJ(X->getArg(0));
      start = 1;
    }
    for (unsigned i = start; i < X->getNumArgs(); ++i) args.push_back(exprJ(X->getArg(i)));
    o["args"] = std::move(args);
    setT(X);
    return std::move(o);
  }
  if (const auto *X = dyn_cast<CXXMemberCallExpr>(E)) {
    o["k"] = "call";
    o["line"] = (int64_t)lineOf(X->getExprLoc());
    const CXXMethodDecl *MD = X->getMethodDecl();
    if (!MD) return unsupportedExpr(E);
    if (isa<CXXConversionDecl>(MD)) {
      o["k"] = "conv";
      o["callee"] = calleeInfo(MD);
      o["obj"] = exprJ(X->getImplicitObjectArgument());
      setT(X);
      return std::move(o);
    }
    o["callee"] = calleeInfo(MD);
    o["obj"] = exprJ(X->getImplicitObjectArgument());
    if (const auto *ME = dyn_cast<MemberExpr>(strip(X->getCallee()))) o["arrow"] = ME->isArrow();
    json::Array args;
    for (const Expr *A : X->arguments()) {
      if (isa<CXXDefaultArgExpr>(A)) {
        json::Object d;
        d["k"] = "defaultarg";
        d["e"] = exprJ(cast<CXXDefaultArgExpr>(A)->getExpr());
        args.push_back(std::move(d));
      } else
        args.push_back(exprJ(A));
    }
    o["args"] = std::move(args);
    setT(X);
    return std::move(o);
  }
  if (const auto *X = dyn_cast<CallExpr>(E)) {
    o["k"] = "call";
    o["line"] = (int64_t)lineOf(X->getExprLoc());
    const FunctionDecl *FD = X->getDirectCallee();
    if (!FD) {
      // call through a callable object / function pointer that is not an operator() call
      o["k"] = "indirectcall";
      o["fn"] = exprJ(X->getCallee());
    } else {
      o["callee"] = calleeInfo(FD);
    }
    json::Array args;
    for (const Expr *A : X->arguments()) {
      if (isa<CXXDefaultArgExpr>(A)) {
        json::Object d;
        d["k"] = "defaultarg";
        d["e"] = exprJ(cast<CXXDefaultArgExpr>(A)->getExpr());
        args.push_back(std::move(d));
      } else
        args.push_back(exprJ(A));
    }
    o["args"] = std::move(args);
    setT(X);
    return std::move(o);
  }
  if (const auto *X = dyn_cast<CXXTemporaryObjectExpr>(E)) {
    o["k"] = "ctor";
    o["line"] = (int64_t)lineOf(X->getExprLoc());
    o["callee"] = calleeInfo(X->getConstructor());
    json::Array args;
    for (const Expr *A : X->arguments()) args.push_back(exprJ(A));
    o["args"] = std::move(args);
    o["temp"] = true;
    setT(X);
    return std::move(o);
  }
  if (const auto *X = dyn_cast<CXXConstructExpr>(E)) {
    const CXXConstructorDecl *CD = X->getConstructor();
    // copy/move construction from a single argument of the same class: keep as "copy"
    o["k"] = "ctor";
    o["line"] = (int64_t)lineOf(X->getExprLoc());
    o["callee"] = calleeInfo(CD);
    if (CD->isCopyOrMoveConstructor()) o["copy"] = true;
    if (CD->isDefaultConstructor()) o["default"] = true;
    if (CD->isImplicit()) o["implicit"] = true;
    if (X->isListInitialization()) o["list"] = true;
    json::Array args;
    for (const Expr *A : X->arguments()) {
      if (isa<CXXDefaultArgExpr>(A)) {
        json::Object d;
        d["k"] = "defaultarg";
        d["e"] = exprJ(cast<CXXDefaultArgExpr>(A)->getExpr());
        args.push_back(std::move(d));
      } else
        args.push_back(exprJ(A));
    }
    o["args"] = std::move(args);
    setT(X);
    return std::move(o);
  }
  if (const auto *X = dyn_cast<BinaryOperator>(E)) {
    if (X->isAssignmentOp()) {
      o["k"] = "assign";
      o["op"] = X->getOpcodeStr().str();
    } else {
      o["k"] = "bin";
      o["op"] = X->getOpcodeStr().str();
    }
    o["line"] = (int64_t)lineOf(X->getOperatorLoc());
    o["l"] = exprJ(X->getLHS());
    o["r"] = exprJ(X->getRHS());
    setT(X);
    // operand type of comparison / arithmetic (int division matters)
    o["lt"] = typeInfo(X->getLHS()->getType());
    return std::move(o);
  }
  if (const auto *X = dyn_cast<UnaryOperator>(E)) {
    o["k"] = "un";
    o["op"] = UnaryOperator::getOpcodeStr(X->getOpcode()).str();
    o["postfix"] = X->isPostfix();
    o["line"] = (int64_t)lineOf(X->getOperatorLoc());
    o["e"] = exprJ(X->getSubExpr());
    setT(X);
    return std::move(o);
  }
  if (const auto *X = dyn_cast<ConditionalOperator>(E)) {
    o["k"] = "cond";
    o["line"] = (int64_t)lineOf(X->getQuestionLoc());
    o["c"] = exprJ(X->getCond());
    o["a"] = exprJ(X->getTrueExpr());
    o["b"] = exprJ(X->getFalseExpr());
    setT(X);
    return std::move(o);
  }
  if (const auto *X = dyn_cast<ExplicitCastExpr>(E)) {
    // static_cast<>, C-style, functional casts
    if (const auto *NC = dyn_cast<CXXNamedCastExpr>(X)) o["cast"] = NC->getCastName();
    else o["cast"] = "cstyle";
    o["k"] = "cast";
    o["to"] = typeInfo(X->getTypeAsWritten());
    o["e"] = exprJ(X->getSubExpr());
    return std::move(o);
  }
  if (const auto *X = dyn_cast<ArraySubscriptExpr>(E)) {
    o["k"] = "subscript";
    o["base"] = exprJ(X->getBase());
    o["idx"] = exprJ(X->getIdx());
    setT(X);
    return std::move(o);
  }
  if (const auto *X = dyn_cast<LambdaExpr>(E)) return lambdaJ(X);
  if (const auto *X = dyn_cast<InitListExpr>(E)) {
    o["k"] = "initlist";
    json::Array a;
    const InitListExpr *S = X->isSemanticForm() ? X : (X->getSemanticForm() ? X->getSemanticForm() : X);
    for (const Expr *I : S->inits()) a.push_back(exprJ(I));
    o["elems"] = std::move(a);
    setT(X);
    return std::move(o);
  }
  if (const auto *X = dyn_cast<CXXNewExpr>(E)) {
    o["k"] = "new";
    o["ty"] = typeInfo(X->getAllocatedType());
    if (const CXXConstructExpr *CE = X->getConstructExpr()) o["init"] = exprJ(CE);
    o["placement"] = (int64_t)X->getNumPlacementArgs();
    if (X->getOperatorNew()) o["opnew"] = X->getOperatorNew()->getQualifiedNameAsString();
    return std::move(o);
  }
  if (const auto *X = dyn_cast<CXXDefaultArgExpr>(E)) {
    o["k"] = "defaultarg";
    o["e"] = exprJ(X->getExpr());
    return std::move(o);
  }
  if (const auto *X = dyn_cast<CXXDefaultInitExpr>(E)) {
    o["k"] = "defaultinit";
    o["field"] = X->getField()->getName().str();
    o["e"] = exprJ(X->getExpr());
    return std::move(o);
  }
  if (const auto *X = dyn_cast<CXXScalarValueInitExpr>(E)) {
    o["k"] = "lit";
    o["v"] = "0";
    o["lt"] = "valueinit";
    (void)X;
    return std::move(o);
  }
  if (const auto *X = dyn_cast<ImplicitValueInitExpr>(E)) {
    o["k"] = "lit";
    o["v"] = "0";
    o["lt"] = "valueinit";
    (void)X;
    return std::move(o);
  }
  if (const auto *X = dyn_cast<UnaryExprOrTypeTraitExpr>(E)) {
    o["k"] = "sizeof";
    (void)X;
    return std::move(o);
  }
  if (const auto *X = dyn_cast<CXXThrowExpr>(E)) {
    o["k"] = "throw";
    o["line"] = (int64_t)lineOf(X->getThrowLoc());
    o["e"] = exprJ(X->getSubExpr());
    return std::move(o);
  }
  if (const auto *X = dyn_cast<CXXStdInitializerListExpr>(E)) {
    o["k"] = "stdinitlist";
    o["e"] = exprJ(X->getSubExpr());
    return std::move(o);
  }
  if (const auto *X = dyn_cast<OpaqueValueExpr>(E)) {
    if (X->getSourceExpr()) return exprJ(X->getSourceExpr());
  }
  if (const auto *X = dyn_cast<CXXFunctionalCastExpr>(E)) {
    o["k"] = "cast";
    o["cast"] = "functional";
    o["to"] = typeInfo(X->getTypeAsWritten());
    o["e"] = exprJ(X->getSubExpr());
    return std::move(o);
  }
  if (const auto *X = dyn_cast<TypeTraitExpr>(E)) {
    o["k"] = "lit";
    o["v"] = X->getValue() ? "true" : "false";
    o["lt"] = "bool";
    return std::move(o);
  }
  return unsupportedExpr(E);
}

static json::Value declJ(const VarDecl *VD) {
  json::Object o;
  o["k"] = "decl";
  o["name"] = VD->getName().str();
  o["id"] = varId(VD);
  o["line"] = (int64_t)lineOf(VD->getLocation());
  o["ty"] = typeInfo(VD->getType());
  if (VD->isConstexpr()) o["constexpr"] = true;
  if (VD->isStaticLocal()) o["staticlocal"] = true;
  if (const Expr *I = VD->getInit()) {
    if (VD->getType()->isReferenceType()) {
      // alias vs temporary binding
      const Expr *P = I;
      bool temp = false;
      while (P) {
        if (isa<MaterializeTemporaryExpr>(P)) { temp = true; break; }
        if (const auto *X = dyn_cast<ExprWithCleanups>(P)) { P = X->getSubExpr(); continue; }
        if (const auto *X = dyn_cast<ImplicitCastExpr>(P)) { P = X->getSubExpr(); continue; }
        if (const auto *X = dyn_cast<ParenExpr>(P)) { P = X->getSubExpr(); continue; }
        break;
      }
      o["bind"] = temp ? "temp" : "alias";
    }
    o["init"] = exprJ(I);
    if (VD->getInitStyle() == VarDecl::CallInit) o["initstyle"] = "call";
    else if (VD->getInitStyle() == VarDecl::ListInit) o["initstyle"] = "list";
  }
  return std::move(o);
}

// A switch whose case groups never fall through into one another and whose condition has no side effects is the if-chain
// over its labels; anything else stays outside the vocabulary.
static bool strayBreak(const Stmt *S) {
  if (!S) return false;
  if (isa<BreakStmt>(S)) return true;
  if (isa<ForStmt>(S) || isa<WhileStmt>(S) || isa<DoStmt>(S) || isa<CXXForRangeStmt>(S) || isa<SwitchStmt>(S) || isa<LambdaExpr>(S))
    return false;
  for (const Stmt *C : S->children())
    if (strayBreak(C)) return true;
  return false;
}

static bool leavesGroup(const Stmt *S) {
  if (!S) return false;
  if (isa<BreakStmt>(S) || isa<ReturnStmt>(S) || isa<ContinueStmt>(S)) return true;
  if (const auto *E = dyn_cast<Expr>(S)) {
    const Expr *P = E;
    if (const auto *X = dyn_cast<ExprWithCleanups>(P)) P = X->getSubExpr();
    return isa<CXXThrowExpr>(P);
  }
  if (const auto *X = dyn_cast<CompoundStmt>(S)) return !X->body_empty() && leavesGroup(X->body_back());
  return false;
}

static bool lowerSwitch(const SwitchStmt *X, json::Object &o) {
  if (X->getInit() || X->getConditionVariable() || !X->getCond() || X->getCond()->HasSideEffects(*G.AC)) return false;
  const auto *B = dyn_cast_or_null<CompoundStmt>(X->getBody());
  if (!B) return false;
  struct Group { std::vector<const Expr *> labels; bool isDefault = false; std::vector<const Stmt *> stmts; };
  std::vector<Group> groups;
  for (const Stmt *C : B->body()) {
    const Stmt *Cur = C;
    bool labelled = false;
    while (const auto *SC = dyn_cast<SwitchCase>(Cur)) {
      if (!labelled) {
        if (!groups.empty() && !groups.back().stmts.empty() && !leavesGroup(groups.back().stmts.back())) return false;  // falls through
        if (groups.empty() || !groups.back().stmts.empty()) groups.emplace_back();
        labelled = true;
      }
      if (const auto *CS = dyn_cast<CaseStmt>(SC)) {
        if (CS->caseStmtIsGNURange()) return false;
        groups.back().labels.push_back(CS->getLHS());
      } else
        groups.back().isDefault = true;
      Cur = SC->getSubStmt();
    }
    if (groups.empty()) return false;     // a statement before the first label
    if (Cur) groups.back().stmts.push_back(Cur);
  }
  for (Group &g : groups) {
    if (!g.stmts.empty() && isa<BreakStmt>(g.stmts.back())) g.stmts.pop_back();
    for (const Stmt *St : g.stmts)
      if (strayBreak(St)) return false;
  }
  auto body = [&](const Group &g) {
    json::Object b;
    b["k"] = "block";
    b["line"] = (int64_t)(g.stmts.empty() ? lineOf(X->getBeginLoc()) : lineOf(g.stmts.front()->getBeginLoc()));
    json::Array a;
    for (const Stmt *St : g.stmts) a.push_back(stmtJ(St));
    b["body"] = std::move(a);
    return json::Value(std::move(b));
  };
  auto test = [&](const Group &g) {
    json::Value acc = nullptr;
    for (const Expr *L : g.labels) {
      json::Object e;
      e["k"] = "bin";
      e["op"] = "==";
      e["line"] = (int64_t)lineOf(L->getBeginLoc());
      e["l"] = exprJ(X->getCond());
      e["r"] = exprJ(L);
      e["t"] = typeInfo(G.AC->BoolTy);
      e["lt"] = typeInfo(X->getCond()->getType());
      if (acc == json::Value(nullptr))
        acc = std::move(e);
      else {
        json::Object d;
        d["k"] = "bin";
        d["op"] = "||";
        d["line"] = (int64_t)lineOf(L->getBeginLoc());
        d["l"] = std::move(acc);
        d["r"] = std::move(e);
        d["t"] = typeInfo(G.AC->BoolTy);
        d["lt"] = typeInfo(G.AC->BoolTy);
        acc = std::move(d);
      }
    }
    return acc;
  };
  json::Value tail = nullptr;
  for (const Group &g : groups)
    if (g.isDefault) tail = body(g);     // labels sharing the default group add nothing to it
  for (auto it = groups.rbegin(); it != groups.rend(); ++it) {
    if (it->isDefault || it->labels.empty()) continue;
    json::Object i;
    i["k"] = "if";
    i["constexpr"] = false;
    i["line"] = (int64_t)lineOf(it->labels.front()->getBeginLoc());
    i["cond"] = test(*it);
    i["then"] = body(*it);
    i["else"] = std::move(tail);
    i["from"] = "switch";
    tail = std::move(i);
  }
  if (tail == json::Value(nullptr)) {
    o["k"] = "null";
    return true;
  }
  o = std::move(*tail.getAsObject());
  return true;
}

static json::Value stmtJ(const Stmt *S) {
  if (!S) return nullptr;
  json::Object o;
  o["line"] = (int64_t)lineOf(S->getBeginLoc());
  if (const auto *X = dyn_cast<CompoundStmt>(S)) {
    o["k"] = "block";
    json::Array a;
    for (const Stmt *C : X->body()) a.push_back(stmtJ(C));
    o["body"] = std::move(a);
    return std::move(o);
  }
  if (const auto *X = dyn_cast<DeclStmt>(S)) {
    json::Array a;
    for (const Decl *D : X->decls()) {
      if (const auto *VD = dyn_cast<VarDecl>(D)) a.push_back(declJ(VD));
      else if (isa<TypedefNameDecl>(D) || isa<UsingDecl>(D) || isa<StaticAssertDecl>(D) || isa<TagDecl>(D)) continue;
      else {
        json::Object u;
        u["k"] = "unsupported";
        u["cls"] = D->getDeclKindName();
        G.unsupported.insert(std::string("Decl:") + D->getDeclKindName() + "@" + std::to_string(lineOf(D->getLocation())));
        a.push_back(std::move(u));
      }
    }
    if (a.size() == 1) return std::move(a[0]);
    o["k"] = "block";
    o["declgroup"] = true;
    o["body"] = std::move(a);
    return std::move(o);
  }
  if (const auto *X = dyn_cast<IfStmt>(S)) {
    o["k"] = "if";
    o["constexpr"] = X->isConstexpr();
    if (X->getInit()) o["init"] = stmtJ(X->getInit());
    o["cond"] = exprJ(X->getCond());
    if (X->isConstexpr()) {
      // in an instantiation the discarded branch is a NullStmt or absent
      Expr::EvalResult R;
      if (!X->getCond()->isValueDependent() && X->getCond()->EvaluateAsRValue(R, *G.AC) && R.Val.isInt())
        o["taken"] = R.Val.getInt().getBoolValue() ? "then" : "else";
    }
    o["then"] = stmtJ(X->getThen());
    o["else"] = stmtJ(X->getElse());
    return std::move(o);
  }
  if (const auto *X = dyn_cast<ForStmt>(S)) {
    o["k"] = "for";
    o["init"] = stmtJ(X->getInit());
    o["cond"] = exprJ(X->getCond());
    o["inc"] = exprJ(X->getInc());
    o["body"] = stmtJ(X->getBody());
    return std::move(o);
  }
  if (const auto *X = dyn_cast<CXXForRangeStmt>(S)) {
    o["k"] = "rfor";
    o["var"] = declJ(X->getLoopVariable());
    o["range"] = exprJ(X->getRangeInit());
    o["body"] = stmtJ(X->getBody());
    return std::move(o);
  }
  if (const auto *X = dyn_cast<ReturnStmt>(S)) {
    o["k"] = "return";
    o["e"] = exprJ(X->getRetValue());
    return std::move(o);
  }
  if (isa<ContinueStmt>(S)) { o["k"] = "continue"; return std::move(o); }
  if (isa<BreakStmt>(S)) { o["k"] = "break"; return std::move(o); }
  if (isa<NullStmt>(S)) { o["k"] = "null"; return std::move(o); }
  if (const auto *X = dyn_cast<WhileStmt>(S)) {
    o["k"] = "while";
    o["cond"] = exprJ(X->getCond());
    o["body"] = stmtJ(X->getBody());
    return std::move(o);
  }
  if (const auto *X = dyn_cast<DoStmt>(S)) {
    o["k"] = "dowhile";
    o["cond"] = exprJ(X->getCond());
    o["body"] = stmtJ(X->getBody());
    return std::move(o);
  }
  if (const auto *X = dyn_cast<SwitchStmt>(S)) {
    json::Object l;
    if (lowerSwitch(X, l)) return std::move(l);
  }
  if (const auto *X = dyn_cast<OMPExecutableDirective>(S)) {
    // #pragma omp parallel for: record the directive and the associated loop
    o["k"] = "omp";
    o["directive"] = X->getStmtClassName();
    if (X->hasAssociatedStmt()) {
      const Stmt *A = X->getInnermostCapturedStmt() ? X->getInnermostCapturedStmt()->getCapturedStmt() : nullptr;
      o["body"] = stmtJ(A);
    }
    return std::move(o);
  }
  if (const auto *X = dyn_cast<Expr>(S)) {
    o["k"] = "expr";
    o["e"] = exprJ(X);
    return std::move(o);
  }
  o["k"] = "unsupported";
  o["cls"] = S->getStmtClassName();
  G.unsupported.insert(std::string(S->getStmtClassName()) + "@" + shortFile(S->getBeginLoc()) + ":" +
                       std::to_string(lineOf(S->getBeginLoc())));
  return std::move(o);
}

static const char *accessStr(AccessSpecifier A) {
  switch (A) {
  case AS_public: return "public";
  case AS_protected: return "protected";
  case AS_private: return "private";
  default: return "none";
  }
}

class Visitor : public RecursiveASTVisitor<Visitor> {
public:
  json::Array funcs, records, dimrefs;
  std::set<const Decl *> seenF, seenR;

  bool shouldVisitTemplateInstantiations() const { return true; }
  bool shouldVisitImplicitCode() const { return false; }

  void emitFunction(const FunctionDecl *FD) {
    if (!FD->doesThisDeclarationHaveABody()) return;
    if (FD->isDependentContext()) return;
    if (!inRepo(FD->getLocation())) return;
    if (const auto *MD = dyn_cast<CXXMethodDecl>(FD))
      if (MD->getParent()->isLambda()) return;  // emitted inline at the LambdaExpr
    if (!seenF.insert(FD->getCanonicalDecl()).second) return;
    json::Object o;
    o["fid"] = funcId(FD);
    o["name"] = FD->getDeclName().getAsString();
    o["q"] = FD->getQualifiedNameAsString();
    {
      std::string s;
      llvm::raw_string_ostream os(s);
      FD->getNameForDiagnostic(os, G.PP, true);
      os.flush();
      if (s.size() > 300) s = s.substr(0, 297) + "...";
      o["full"] = s;
    }
    o["file"] = shortFile(FD->getLocation());
    o["line"] = (int64_t)lineOf(FD->getLocation());
    o["endline"] = (int64_t)lineOf(FD->getEndLoc());
    o["ret"] = typeInfo(FD->getReturnType());
    if (const auto *MD = dyn_cast<CXXMethodDecl>(FD)) {
      o["cls"] = recordName(MD->getParent());
      o["clsname"] = MD->getParent()->getName().str();
      o["const"] = MD->isConst();
      o["static"] = MD->isStatic();
      o["access"] = accessStr(MD->getAccess());
      if (isa<CXXConstructorDecl>(MD)) {
        const auto *CD = cast<CXXConstructorDecl>(MD);
        o["kind"] = "ctor";
        if (CD->isCopyConstructor()) o["copyctor"] = true;
        if (CD->isMoveConstructor()) o["movector"] = true;
        if (CD->isDefaultConstructor()) o["defaultctor"] = true;
        json::Array inits;
        for (const CXXCtorInitializer *I : CD->inits()) {
          json::Object io;
          if (I->isMemberInitializer()) {
            io["field"] = I->getMember()->getName().str();
            io["written"] = I->isWritten();
            io["init"] = exprJ(I->getInit());
            io["line"] = (int64_t)lineOf(I->getSourceLocation());
          } else if (I->isBaseInitializer()) {
            io["base"] = typeStr(QualType(I->getBaseClass(), 0));
            io["init"] = exprJ(I->getInit());
          }
          inits.push_back(std::move(io));
        }
        o["inits"] = std::move(inits);
      } else if (isa<CXXDestructorDecl>(MD)) {
        o["kind"] = "dtor";
      } else if (MD->isCopyAssignmentOperator()) {
        o["kind"] = "copyassign";
      } else if (MD->isMoveAssignmentOperator()) {
        o["kind"] = "moveassign";
      } else if (isa<CXXConversionDecl>(MD)) {
        o["kind"] = "conv";
      } else {
        o["kind"] = "method";
      }
    } else {
      o["kind"] = "func";
    }
    if (FD->isTemplateInstantiation()) o["inst"] = true;
    if (const TemplateArgumentList *TAL = FD->getTemplateSpecializationArgs()) {
      json::Array ta;
      for (unsigned i = 0; i < TAL->size(); ++i) {
        const TemplateArgument &A = TAL->get(i);
        if (A.getKind() == TemplateArgument::Integral)
          ta.push_back((int64_t)A.getAsIntegral().getSExtValue());
        else if (A.getKind() == TemplateArgument::Type)
          ta.push_back(typeInfo(A.getAsType()));
        else
          ta.push_back(nullptr);
      }
      o["targs"] = std::move(ta);
    }
    json::Array ps;
    for (const ParmVarDecl *P : FD->parameters()) {
      json::Object p;
      p["name"] = P->getName().str();
      p["id"] = varId(P);
      p["ty"] = typeInfo(P->getType());
      if (P->hasDefaultArg() && !P->hasUninstantiatedDefaultArg() && !P->hasUnparsedDefaultArg())
        p["default"] = exprJ(P->getDefaultArg());
      ps.push_back(std::move(p));
    }
    o["params"] = std::move(ps);
    o["body"] = stmtJ(FD->getBody());
    funcs.push_back(std::move(o));
  }

  void emitRecord(const CXXRecordDecl *RD) {
    if (!RD->isCompleteDefinition()) return;
    if (RD->isDependentContext()) return;
    if (RD->isLambda()) return;
    SourceLocation RL = RD->getLocation();
    if (const auto *TSx = dyn_cast<ClassTemplateSpecializationDecl>(RD))
      if (const ClassTemplateDecl *CT = TSx->getSpecializedTemplate())
        RL = CT->getTemplatedDecl()->getLocation();
    if (!inRepo(RL)) return;
    if (!seenR.insert(RD->getCanonicalDecl()).second) return;
    json::Object o;
    o["name"] = recordName(RD);
    o["short"] = RD->getName().str();
    o["file"] = shortFile(RL);
    o["line"] = (int64_t)lineOf(RL);
    if (const auto *P = dyn_cast<CXXRecordDecl>(RD->getDeclContext())) o["parent"] = recordName(P);
    if (const auto *TS = dyn_cast<ClassTemplateSpecializationDecl>(RD)) {
      json::Array ta;
      const auto &TAL = TS->getTemplateArgs();
      for (unsigned i = 0; i < TAL.size(); ++i) {
        const TemplateArgument &A = TAL[i];
        if (A.getKind() == TemplateArgument::Integral)
          ta.push_back((int64_t)A.getAsIntegral().getSExtValue());
        else if (A.getKind() == TemplateArgument::Type)
          ta.push_back(typeStr(A.getAsType()));
        else
          ta.push_back(nullptr);
      }
      o["targs"] = std::move(ta);
    }
    json::Array fs;
    for (const FieldDecl *F : RD->fields()) {
      json::Object f;
      f["name"] = F->getName().str();
      f["ty"] = typeInfo(F->getType());
      f["tystr"] = typeStr(F->getType());
      f["mutable"] = F->isMutable();
      f["access"] = accessStr(F->getAccess());
      f["line"] = (int64_t)lineOf(F->getLocation());
      if (F->hasInClassInitializer() && F->getInClassInitializer())
        f["init"] = exprJ(F->getInClassInitializer());
      fs.push_back(std::move(f));
    }
    o["fields"] = std::move(fs);
    json::Array sv;
    for (const Decl *D : RD->decls()) {
      if (const auto *VD = dyn_cast<VarDecl>(D)) {
        if (!VD->isStaticDataMember()) continue;
        json::Object s;
        s["name"] = VD->getName().str();
        s["ty"] = typeInfo(VD->getType());
        s["constexpr"] = VD->isConstexpr();
        const VarDecl *DefVD = nullptr;
        const Expr *InitE = VD->getAnyInitializer(DefVD);
        if (VD->getType()->isArithmeticType() && InitE && DefVD && !InitE->isValueDependent()) {
          if (const APValue *V = DefVD->evaluateValue()) {
            if (V->isInt()) s["v"] = llvm::toString(V->getInt(), 10);
            else if (V->isFloat()) {
              llvm::SmallString<32> str;
              V->getFloat().toString(str);
              s["v"] = str.str().str();
            }
          }
        }
        sv.push_back(std::move(s));
      }
    }
    o["statics"] = std::move(sv);
    json::Array bs;
    for (const auto &B : RD->bases()) bs.push_back(typeStr(B.getType()));
    o["bases"] = std::move(bs);
    o["userCopyCtor"] = RD->hasUserDeclaredCopyConstructor();
    o["userCopyAssign"] = RD->hasUserDeclaredCopyAssignment();
    o["userMoveCtor"] = RD->hasUserDeclaredMoveConstructor();
    o["userMoveAssign"] = RD->hasUserDeclaredMoveAssignment();
    o["userDtor"] = RD->hasUserDeclaredDestructor();
    json::Array ms;
    for (const Decl *D : RD->decls()) {
      const CXXMethodDecl *MD = dyn_cast<CXXMethodDecl>(D);
      if (const auto *FT = dyn_cast<FunctionTemplateDecl>(D))
        MD = dyn_cast<CXXMethodDecl>(FT->getTemplatedDecl());
      if (!MD || MD->isImplicit()) continue;
      json::Object m;
      m["name"] = MD->getDeclName().getAsString();
      m["const"] = MD->isConst();
      m["static"] = MD->isStatic();
      m["access"] = accessStr(MD->getAccess());
      m["line"] = (int64_t)lineOf(MD->getLocation());
      m["template"] = isa<FunctionTemplateDecl>(D);
      m["nparams"] = (int64_t)MD->getNumParams();
      if (isa<CXXConstructorDecl>(MD)) m["kind"] = "ctor";
      else if (isa<CXXDestructorDecl>(MD)) m["kind"] = "dtor";
      else m["kind"] = "method";
      if (MD->isDeleted()) m["deleted"] = true;
      if (MD->isDefaulted()) m["defaulted"] = true;
      ms.push_back(std::move(m));
    }
    o["methods"] = std::move(ms);
    records.push_back(std::move(o));
  }

  bool VisitFunctionDecl(FunctionDecl *FD) {
    emitFunction(FD);
    return true;
  }
  bool VisitCXXRecordDecl(CXXRecordDecl *RD) {
    emitRecord(RD);
    return true;
  }
  // uses of a non-type template parameter inside the *uninstantiated* templates
  bool VisitDeclRefExpr(DeclRefExpr *E) {
    if (const auto *NT = dyn_cast<NonTypeTemplateParmDecl>(E->getDecl())) {
      if (inRepo(E->getLocation())) {
        json::Object o;
        o["param"] = NT->getName().str();
        o["file"] = shortFile(E->getLocation());
        o["line"] = (int64_t)lineOf(E->getLocation());
        o["col"] = (int64_t)colOf(E->getLocation());
        dimrefs.push_back(std::move(o));
      }
    }
    return true;
  }
};

class Consumer : public ASTConsumer {
public:
  void HandleTranslationUnit(ASTContext &AC) override {
    G.AC = &AC;
    G.SM = &AC.getSourceManager();
    G.PP = PrintingPolicy(AC.getLangOpts());
    G.PP.SuppressTagKeyword = true;
    G.PP.Bool = true;
    G.rootPrefix = Root + "/include/";
    Visitor V;
    V.TraverseDecl(AC.getTranslationUnitDecl());
    json::Object out;
    out["root"] = std::string(Root);
    out["functions"] = std::move(V.funcs);
    out["records"] = std::move(V.records);
    out["nttp_refs"] = std::move(V.dimrefs);
    json::Array un;
    for (const auto &s : G.unsupported) un.push_back(s);
    out["unsupported"] = std::move(un);
    std::error_code EC;
    if (OutFile == "-") {
      llvm::outs() << json::Value(std::move(out)) << "\n";
    } else {
      llvm::raw_fd_ostream os(OutFile, EC);
      if (EC) {
        llvm::errs() << "stx: cannot write " << OutFile << ": " << EC.message() << "\n";
        exit(2);
      }
      os << json::Value(std::move(out)) << "\n";
    }
  }
};

class Action : public ASTFrontendAction {
public:
  std::unique_ptr<ASTConsumer> CreateASTConsumer(CompilerInstance &, llvm::StringRef) override {
    return std::make_unique<Consumer>();
  }
};

}  // namespace

int main(int argc, const char **argv) {
  auto Opts = tooling::CommonOptionsParser::create(argc, argv, Cat);
  if (!Opts) {
    llvm::errs() << llvm::toString(Opts.takeError()) << "\n";
    return 2;
  }
  tooling::ClangTool Tool(Opts->getCompilations(), Opts->getSourcePathList());
  int rc = Tool.run(tooling::newFrontendActionFactory<Action>().get());
  return rc == 0 ? 0 : 2;
}
