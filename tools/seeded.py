#!/usr/bin/env python3
"""Run the checks against the seeded changes kept under /verif/seeded/<id>/patch.diff.

Each patch is applied to a scratch copy of /repo/include in a fresh mkdtemp directory (outside /repo and /verif,
removed afterwards) and the checks are run with --root <scratch>; nothing is executed from the patched library.
usage: python3-vt tools/seeded.py [seed-id ...] [--target-only] [--dir=benign]
(--dir=benign: the behaviour-preserving refactorings kept under /verif/benign; there every check is expected to pass)
Prints, per seed, which properties report a violation (and which rules), which pass, which are analysis-broken.
"""
import json
import os
import shutil
import subprocess
import sys
import tempfile
from concurrent.futures import ThreadPoolExecutor

VERIF = os.path.dirname(os.path.dirname(os.path.abspath(__file__)))
READY = [l.strip() for l in open(os.path.join(VERIF, "tools", "ready.txt")) if l.strip() and not l.startswith("#")]


DIR = "seeded"
for a in sys.argv[1:]:
    if a.startswith("--dir="):
        DIR = a.split("=", 1)[1]


def run_seed(sid, props):
    d = os.path.join(VERIF, DIR, sid)
    patch = os.path.join(d, "patch.diff")
    tmp = tempfile.mkdtemp(prefix="stxseed-")
    res = {}
    try:
        shutil.copytree("/repo/include", os.path.join(tmp, "include"))
        r = subprocess.run(["patch", "-p1", "-s", "-d", tmp, "-i", patch], capture_output=True, text=True)
        if r.returncode != 0:
            return {"error": "patch does not apply: " + (r.stdout + r.stderr)[-300:]}

        def one(pid):
            try:
                rr = subprocess.run([sys.executable, os.path.join(VERIF, "sa", "check.py"), pid, "--root", tmp, "--no-evidence"], capture_output=True, text=True, cwd=VERIF, timeout=1500)
            except subprocess.TimeoutExpired:
                return pid, {"rc": 2, "rules": [], "first": "timeout"}
            out = rr.stdout
            rules = sorted({l.split("rule=")[1].split()[0] for l in out.splitlines() if "rule=" in l})
            first = next((l.strip()[:400] for l in out.splitlines() if l.strip().startswith("rule=")), "")
            if rr.returncode == 2:
                first = next((l.strip()[:300] for l in out.splitlines() if "ANALYSIS-BROKEN" in l), "")
            return pid, {"rc": rr.returncode, "rules": rules, "first": first}
        # the first check pays the extraction; run it alone, the rest in parallel on the cached facts
        pid0, r0 = one(props[0])
        res[pid0] = r0
        with ThreadPoolExecutor(max_workers=6) as ex:
            for pid, r_ in ex.map(one, props[1:]):
                res[pid] = r_
    finally:
        shutil.rmtree(tmp, ignore_errors=True)
    return res


def main():
    args = [a for a in sys.argv[1:] if not a.startswith("--")]
    seeds = args or sorted(x for x in os.listdir(os.path.join(VERIF, DIR)) if os.path.exists(os.path.join(VERIF, DIR, x, "patch.diff")))
    for sid in seeds:
        meta_p = os.path.join(VERIF, DIR, sid, "meta.json")
        meta = json.load(open(meta_p)) if os.path.exists(meta_p) else {}
        target = meta.get("property")
        props = ([target] if target in READY else []) + [p for p in READY if p != target]
        if "--target-only" in sys.argv and target in READY:
            props = [target]
        res = run_seed(sid, props)
        if "error" in res:
            print("%s: %s" % (sid, res["error"]))
            continue
        viol = {p: r["rules"] for p, r in res.items() if r["rc"] == 1}
        broken = [p for p, r in res.items() if r["rc"] == 2]
        print("%s (breaks %s): VIOLATION in %s; analysis-broken in %s; pass in %d checks" % (
            sid, target, json.dumps(viol) if viol else "none", broken or "none", sum(1 for r in res.values() if r["rc"] == 0)))
        if target in res:
            print("   target check %s: rc=%d %s" % (target, res[target]["rc"], res[target]["first"]))
        out = os.path.join(VERIF, DIR, sid, "detection.json")
        json.dump(res, open(out, "w"), indent=1, sort_keys=True)


if __name__ == "__main__":
    main()
