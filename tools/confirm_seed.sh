#!/bin/sh
# Confirms a seeded change: it applies to /repo's HEAD, the library's own test programs still pass with it,
# and the demonstration fails with the change and passes without it.  Works in a scratch worktree under /tmp
# that is removed afterwards.  usage: tools/confirm_seed.sh <seed-id>
set -u
ID="$1"
S="/verif/seeded/$ID"
W="/tmp/cf-$ID"
rm -rf "$W"; git -C /repo worktree prune
git -C /repo worktree add -q "$W" HEAD || exit 2
cd "$W"
EXTRA=""
grep -qi "fsanitize=thread" "$S/README.txt" 2>/dev/null && EXTRA="-fsanitize=thread"
grep -qi "fsanitize=address" "$S/README.txt" 2>/dev/null && EXTRA="-fsanitize=address"
mkdir -p demo; cp "$S/demo.cpp" demo/
g++ -std=c++17 -O1 $EXTRA -I"$W/include" -I/usr/include/eigen3 demo/demo.cpp -o demo/demo_clean -lpthread 2> demo/build_clean.log; BC=$?
CLEAN_RC=-1; [ $BC -eq 0 ] && { timeout 600 ./demo/demo_clean > demo/out_clean.txt 2>&1; CLEAN_RC=$?; }
git apply "$S/patch.diff"; AP=$?
g++ -std=c++17 -O1 $EXTRA -I"$W/include" -I/usr/include/eigen3 demo/demo.cpp -o demo/demo_patched -lpthread 2> demo/build_patched.log; BP=$?
PATCHED_RC=-1; [ $BP -eq 0 ] && { timeout 600 ./demo/demo_patched > demo/out_patched.txt 2>&1; PATCHED_RC=$?; }
cmake -G Ninja -S . -B _build -DCMAKE_BUILD_TYPE=Release > /dev/null 2>&1
cmake --build _build -j8 > demo/build_tests.log 2>&1; BT=$?
TESTS=""
FAILS=0
for t in test_cubic_spline_vs_minco_nd test_quintic_spline_vs_minco_nd test_septic_spline_vs_minco_nd test_with_min_jerk_3d test_with_min_snap_3d test_Grad test_bc_grad test_cost_grad test_ppolyND; do
  (cd _build && timeout 900 ./$t > ../demo/$t.log 2>&1); rc=$?
  nf=$(grep -c "FAIL" demo/$t.log)
  # the two known-flaky sub-tests do not count
  nfl=$(grep "FAIL" demo/$t.log | grep -c "Grad (Times)")
  TESTS="$TESTS \"$t\": {\"rc\": $rc, \"fail_lines\": $nf, \"flaky_fail_lines\": $nfl},"
  [ $rc -ne 0 ] && FAILS=$((FAILS+1))
  [ $((nf-nfl)) -gt 0 ] && FAILS=$((FAILS+1))
done
cat > "$S/confirm.json" <<EOT
{"seed": "$ID", "patch_applies": $([ $AP -eq 0 ] && echo true || echo false), "demo_flags": "$EXTRA",
 "demo_clean_build_rc": $BC, "demo_clean_rc": $CLEAN_RC, "demo_patched_build_rc": $BP, "demo_patched_rc": $PATCHED_RC,
 "tests_build_rc": $BT, "tests": {${TESTS%,}}, "test_problems": $FAILS,
 "confirmed": $([ $AP -eq 0 ] && [ $CLEAN_RC -eq 0 ] && [ $PATCHED_RC -ne 0 ] && [ $PATCHED_RC -ne -1 ] && [ $BT -eq 0 ] && [ $FAILS -eq 0 ] && echo true || echo false)}
EOT
tail -3 demo/out_patched.txt 2>/dev/null | cut -c1-200
cd /; git -C /repo worktree remove --force "$W"; git -C /repo worktree prune
cat "$S/confirm.json" | tr '\n' ' ' | cut -c1-900; echo
