#!/bin/sh
# MANIFEST.hooks.baseline_off_cmd: the repository's own test programs with the guard OFF
# (no hook exists in /repo, so this is simply the stock build).
set -e
cmake -G Ninja -S /repo -B /repo/_build >/dev/null
cmake --build /repo/_build -j16 >/dev/null
rc=0
for t in test_cubic_spline_vs_minco_nd test_quintic_spline_vs_minco_nd test_septic_spline_vs_minco_nd \
         test_with_min_jerk_3d test_with_min_snap_3d test_Grad test_bc_grad test_cost_grad test_ppolyND; do
  echo "== $t"
  (cd /repo/_build && ./$t) || rc=1
done
exit $rc
